package main

// Models ("intercepts") for library functions. Each entry replaces the body of
// the named function; everything without an entry is executed from its real SSA.
// Every model used by a run is listed in the evidence (models_used).

import (
	"fmt"
	"go/types"
	"sort"
	"strconv"
	"strings"

	"golang.org/x/tools/go/ssa"
)

type Intercept func(e *Engine, fn *ssa.Function, args []Value, site ssa.Instruction) Value

var intercepts = map[string]Intercept{}

func reg(name string, f Intercept) { intercepts[name] = f }

func T(v Value) *Term {
	t, ok := v.(*Term)
	if !ok {
		panic(fmt.Sprintf("expected scalar term, got %T", v))
	}
	return t
}

func constStr(e *Engine, v Value, what string, site ssa.Instruction) string {
	t := T(v)
	if !t.Const {
		e.abort("unsupported", "%s must be a constant string at %s", what, e.posOf(site))
	}
	return t.SVal
}

func strSliceOf(e *Engine, v Value) []*Term {
	var out []*Term
	switch s := v.(type) {
	case Slice:
		for _, x := range s {
			out = append(out, T(x))
		}
	case nil:
	default:
		panic(fmt.Sprintf("strSliceOf %T", v))
	}
	return out
}

func mkStrSlice(ts []*Term) Value {
	s := make(Slice, len(ts))
	for i, t := range ts {
		s[i] = t
	}
	return s
}

func (e *Engine) freshStr(prefix string, maxLen int) *Term {
	e.usedFresh = true
	e.freshCount++
	t := mkVar(fmt.Sprintf("%s!%d", prefix, e.freshCount), KStr, 0)
	t.MaxLen = maxLen
	return t
}

func (e *Engine) freshBool(prefix string) *Term {
	e.usedFresh = true
	e.freshCount++
	return mkVar(fmt.Sprintf("%s!%d", prefix, e.freshCount), KBool, 0)
}

func (e *Engine) freshBV(prefix string, w int) *Term {
	e.freshCount++
	t := mkVar(fmt.Sprintf("%s!%d", prefix, e.freshCount), KBV, w)
	return t
}

// namedType finds a (possibly unexported) named type of a loaded package.
func (e *Engine) namedType(pkgPath, name string) types.Type {
	pkg := e.prog.ImportedPackage(pkgPath)
	if pkg == nil {
		e.abort("unsupported", "package %s not loaded (needed for type %s)", pkgPath, name)
	}
	t := pkg.Type(name)
	if t == nil {
		e.abort("unsupported", "type %s.%s not found", pkgPath, name)
	}
	return t.Type()
}

func (e *Engine) newErrorString(msg *Term) Value {
	t := e.namedType("errors", "errorString")
	c := new(Value)
	*c = Struct{msg}
	return Iface{T: types.NewPointer(t), V: Ptr{P: c}}
}

func (e *Engine) newWrapError(msg *Term, inner Value) Value {
	t := e.namedType("fmt", "wrapError")
	c := new(Value)
	*c = Struct{msg, inner}
	return Iface{T: types.NewPointer(t), V: Ptr{P: c}}
}

// hasMethod reports a niladic method returning string on T.
func (e *Engine) stringMethod(Tp types.Type, name string) *ssa.Function {
	ms := e.prog.MethodSets.MethodSet(Tp)
	sel := ms.Lookup(nil, name)
	if sel == nil {
		return nil
	}
	sig := sel.Type().(*types.Signature)
	if sig.Params().Len() != 0 || sig.Results().Len() != 1 {
		return nil
	}
	if b, ok := sig.Results().At(0).Type().Underlying().(*types.Basic); !ok || b.Kind() != types.String {
		return nil
	}
	return e.prog.MethodValue(sel)
}

func intToStr(t *Term, signed bool) *Term {
	if t.Const {
		if signed {
			return mkStr(strconv.FormatInt(signExt(t.UVal, t.W), 10))
		}
		return mkStr(strconv.FormatUint(t.UVal, 10))
	}
	i := intOf(t, signed)
	var digits [256]bool
	for c := '0'; c <= '9'; c++ {
		digits[c] = true
	}
	digits['-'] = true
	pos := app("str.from_int", KStr, 0, i)
	pos.MaxLen = 20
	pos.Alpha = &digits
	if !signed {
		pos.OfInt = i
		pos.OfBV, pos.OfBVS = t, false
		return pos
	}
	neg := strConcat(mkStr("-"), app("str.from_int", KStr, 0, app("-", KInt, 0, i)))
	r := Ite(intLt(i, mkInt(0)), neg, pos)
	r.MaxLen = 21
	r.Alpha = &digits
	r.OfInt = i
	r.OfBV, r.OfBVS = t, true
	return r
}

// sprintValue renders one operand the way fmt does for %v / %s / %d.
func (e *Engine) sprintValue(v Value, verb byte, site ssa.Instruction) *Term {
	i, ok := v.(Iface)
	if !ok {
		panic(fmt.Sprintf("sprintValue: non-interface operand %T", v))
	}
	if i.T == nil {
		if verb == 's' {
			return mkStr("%!s(<nil>)")
		}
		return mkStr("<nil>")
	}
	if verb != 'd' && verb != 't' && verb != 'x' {
		if m := e.stringMethod(i.T, "Error"); m != nil {
			if isNilPtr(i.V) {
				return mkStr("<nil>")
			}
			return T(e.call(m, []Value{i.V}, site))
		}
		if m := e.stringMethod(i.T, "String"); m != nil {
			if isNilPtr(i.V) {
				return mkStr("<nil>")
			}
			return T(e.call(m, []Value{i.V}, site))
		}
	}
	switch x := i.V.(type) {
	case *Term:
		switch x.K {
		case KStr:
			if verb == 'q' {
				if x.Const {
					return mkStr(strconv.Quote(x.SVal))
				}
				// printable ASCII without quote/backslash is quoted verbatim; other
				// characters are outside the stated alphabet of harness strings
				return strConcat(strConcat(mkStr(`"`), x), mkStr(`"`))
			}
			return x
		case KBool:
			return Ite(x, mkStr("true"), mkStr("false"))
		case KBV:
			return intToStr(x, isSignedType(i.T))
		case KFP:
			if x.Const {
				return mkStr(strconv.FormatFloat(fpVal(x), 'g', -1, x.W))
			}
			return e.freshStr("fmtfloat", 24)
		}
	case Bytes:
		if verb == 's' || verb == 'q' {
			return x.T
		}
	}
	// composite or unsupported operand: opaque text (never part of a property)
	return e.freshStr("fmtopaque", 40)
}

func (e *Engine) sprintf(format string, args Slice, site ssa.Instruction) (*Term, Value) {
	r := mkStr("")
	ai := 0
	var wrapped Value
	for i := 0; i < len(format); i++ {
		c := format[i]
		if c != '%' {
			j := i
			for j < len(format) && format[j] != '%' {
				j++
			}
			r = strConcat(r, mkStr(format[i:j]))
			i = j - 1
			continue
		}
		i++
		if i >= len(format) {
			r = strConcat(r, mkStr("%!(NOVERB)"))
			break
		}
		if format[i] == '%' {
			r = strConcat(r, mkStr("%"))
			continue
		}
		// flags/width are only supported on constants
		j := i
		for j < len(format) && strings.IndexByte("+-# 0123456789.", format[j]) >= 0 {
			j++
		}
		flags := format[i:j]
		i = j
		if i >= len(format) {
			break
		}
		verb := format[i]
		if ai >= len(args) {
			r = strConcat(r, mkStr("%!"+string(verb)+"(MISSING)"))
			continue
		}
		a := args[ai]
		ai++
		if verb == 'w' {
			wrapped = a
			verb = 'v'
		}
		if verb == 'T' {
			ifc := a.(Iface)
			if ifc.T == nil {
				r = strConcat(r, mkStr("<nil>"))
			} else {
				r = strConcat(r, mkStr(types.TypeString(ifc.T, nil)))
			}
			continue
		}
		if flags != "" {
			// constant operand: use the real fmt
			if ifc, ok := a.(Iface); ok {
				if t, ok := ifc.V.(*Term); ok && t.Const {
					var gv interface{}
					switch t.K {
					case KStr:
						gv = t.SVal
					case KBV:
						if isSignedType(ifc.T) {
							gv = signExt(t.UVal, t.W)
						} else {
							gv = t.UVal
						}
					case KBool:
						gv = t.BVal
					case KFP:
						gv = fpVal(t)
					}
					r = strConcat(r, mkStr(fmt.Sprintf("%"+flags+string(verb), gv)))
					continue
				}
			}
			r = strConcat(r, e.freshStr("fmtflags", 40))
			continue
		}
		r = strConcat(r, e.sprintValue(a, verb, site))
	}
	return r, wrapped
}

func (e *Engine) sprint(args Slice, site ssa.Instruction, spaces bool) *Term {
	r := mkStr("")
	prevString := false
	for k, a := range args {
		isStr := false
		if ifc, ok := a.(Iface); ok && ifc.T != nil {
			if b, ok := ifc.T.Underlying().(*types.Basic); ok && b.Info()&types.IsString != 0 {
				isStr = true
			}
		}
		if k > 0 && (spaces || (!isStr && !prevString)) {
			r = strConcat(r, mkStr(" "))
		}
		r = strConcat(r, e.sprintValue(a, 'v', site))
		prevString = isStr
	}
	return r
}

func argSlice(v Value) Slice {
	if v == nil {
		return nil
	}
	return v.(Slice)
}

// unwrapErr calls Unwrap() error on the dynamic value if present.
func (e *Engine) unwrapErr(cur Iface, site ssa.Instruction) Iface {
	ms := e.prog.MethodSets.MethodSet(cur.T)
	sel := ms.Lookup(nil, "Unwrap")
	if sel == nil {
		return Iface{}
	}
	sig := sel.Type().(*types.Signature)
	if sig.Params().Len() != 0 || sig.Results().Len() != 1 {
		return Iface{}
	}
	if _, ok := sig.Results().At(0).Type().Underlying().(*types.Interface); !ok {
		return Iface{}
	}
	r := e.call(e.prog.MethodValue(sel), []Value{cur.V}, site)
	return r.(Iface)
}

func init() {
	// ---------- strings ----------
	reg("strings.HasPrefix", func(e *Engine, fn *ssa.Function, a []Value, s ssa.Instruction) Value {
		return strPrefixOf(T(a[1]), T(a[0]))
	})
	reg("strings.HasSuffix", func(e *Engine, fn *ssa.Function, a []Value, s ssa.Instruction) Value {
		return strSuffixOf(T(a[1]), T(a[0]))
	})
	reg("strings.Contains", func(e *Engine, fn *ssa.Function, a []Value, s ssa.Instruction) Value {
		return strContains(T(a[0]), T(a[1]))
	})
	reg("strings.ContainsRune", func(e *Engine, fn *ssa.Function, a []Value, s ssa.Instruction) Value {
		r := T(a[1])
		return strContains(T(a[0]), strFromCode(intOf(r, true)))
	})
	reg("strings.TrimPrefix", func(e *Engine, fn *ssa.Function, a []Value, s ssa.Instruction) Value {
		x, p := T(a[0]), T(a[1])
		has := strPrefixOf(p, x)
		lp := strLenInt(p)
		rest := strSubstr(x, lp, intSub(strLenInt(x), lp))
		r := Ite(has, rest, x)
		if !r.Const {
			r.MaxLen = x.MaxLen
		}
		return r
	})
	reg("strings.TrimSuffix", func(e *Engine, fn *ssa.Function, a []Value, s ssa.Instruction) Value {
		x, p := T(a[0]), T(a[1])
		has := strSuffixOf(p, x)
		rest := strSubstr(x, mkInt(0), intSub(strLenInt(x), strLenInt(p)))
		r := Ite(has, rest, x)
		if !r.Const {
			r.MaxLen = x.MaxLen
		}
		return r
	})
	reg("strings.Index", func(e *Engine, fn *ssa.Function, a []Value, s ssa.Instruction) Value {
		return bvOfInt(strIndexOf(T(a[0]), T(a[1]), mkInt(0)), 64)
	})
	reg("strings.IndexByte", func(e *Engine, fn *ssa.Function, a []Value, s ssa.Instruction) Value {
		return bvOfInt(strIndexOf(T(a[0]), strFromCode(intOf(T(a[1]), false)), mkInt(0)), 64)
	})
	reg("strings.ToLower", func(e *Engine, fn *ssa.Function, a []Value, s ssa.Instruction) Value {
		r := strToLower(T(a[0]))
		if r == nil {
			e.abort("unsupported", "strings.ToLower on string without length bound at %s", e.posOf(s))
		}
		return r
	})
	reg("strings.ToUpper", func(e *Engine, fn *ssa.Function, a []Value, s ssa.Instruction) Value {
		r := strToUpper(T(a[0]))
		if r == nil {
			e.abort("unsupported", "strings.ToUpper on string without length bound at %s", e.posOf(s))
		}
		return r
	})
	reg("strings.ReplaceAll", func(e *Engine, fn *ssa.Function, a []Value, s ssa.Instruction) Value {
		return strReplaceAll(T(a[0]), T(a[1]), T(a[2]))
	})
	reg("strings.Replace", func(e *Engine, fn *ssa.Function, a []Value, s ssa.Instruction) Value {
		n := T(a[3])
		if n.Const && signExt(n.UVal, 64) < 0 {
			return strReplaceAll(T(a[0]), T(a[1]), T(a[2]))
		}
		if n.Const && n.UVal == 1 {
			return strReplace(T(a[0]), T(a[1]), T(a[2]))
		}
		if n.Const && n.UVal == 0 {
			return a[0]
		}
		e.abort("unsupported", "strings.Replace with n=%s", n)
		return nil
	})
	reg("strings.Join", func(e *Engine, fn *ssa.Function, a []Value, s ssa.Instruction) Value {
		parts := strSliceOf(e, a[0])
		sep := T(a[1])
		r := mkStr("")
		for i, p := range parts {
			if i > 0 {
				r = strConcat(r, sep)
			}
			r = strConcat(r, p)
		}
		return r
	})
	reg("strings.Repeat", func(e *Engine, fn *ssa.Function, a []Value, s ssa.Instruction) Value {
		n := e.concreteInt(a[1], s, "Repeat count")
		r := mkStr("")
		for i := int64(0); i < n; i++ {
			r = strConcat(r, T(a[0]))
		}
		return r
	})
	reg("strings.TrimSpace", func(e *Engine, fn *ssa.Function, a []Value, s ssa.Instruction) Value {
		x := T(a[0])
		if x.Const {
			return mkStr(strings.TrimSpace(x.SVal))
		}
		// exact: x = lead ++ r ++ trail with lead and trail made of white space only and r
		// neither starting nor ending with white space
		if x.MaxLen < 0 {
			e.abort("unsupported", "TrimSpace on unbounded string")
		}
		const wsRe = `(re.union (str.to_re " ") (re.range "\u{9}" "\u{d}"))`
		inRe := func(t *Term, re string) *Term {
			return &Term{Op: "raw", K: KBool, Args: []*Term{t}, MaxLen: -1, text: fmt.Sprintf("(str.in_re %s %s)", t.String(), re)}
		}
		lead, r, trail := e.freshStr("trim_lead", x.MaxLen), e.freshStr("trimspace", x.MaxLen), e.freshStr("trim_trail", x.MaxLen)
		e.addPC(Eq(x, strConcat(strConcat(lead, r), trail)))
		e.addPC(inRe(lead, "(re.* "+wsRe+")"))
		e.addPC(inRe(trail, "(re.* "+wsRe+")"))
		nonWs := "(re.diff re.allchar " + wsRe + ")"
		e.addPC(inRe(r, "(re.union (str.to_re \"\") "+nonWs+" (re.++ "+nonWs+" (re.* re.allchar) "+nonWs+"))"))
		return r
	})
	// strings.Cut(s, sep): before, after, found
	reg("strings.Cut", func(e *Engine, fn *ssa.Function, a []Value, s ssa.Instruction) Value {
		x, sep := T(a[0]), T(a[1])
		if x.Const && sep.Const {
			b, af, ok := strings.Cut(x.SVal, sep.SVal)
			return Tuple{mkStr(b), mkStr(af), mkBool(ok)}
		}
		idx := strIndexOf(x, sep, mkInt(0))
		if !e.decide(intLe(mkInt(0), idx)) {
			return Tuple{x, mkStr(""), tFalse}
		}
		off := intAdd(idx, strLenInt(sep))
		before := strSubstr(x, mkInt(0), idx)
		after := strSubstr(x, off, intSub(strLenInt(x), off))
		before.MaxLen, after.MaxLen = x.MaxLen, x.MaxLen
		return Tuple{before, after, tTrue}
	})
	// strings.SplitN for n == 2 (the only use in scope): at most one cut
	reg("strings.SplitN", func(e *Engine, fn *ssa.Function, a []Value, s ssa.Instruction) Value {
		x, sep, n := T(a[0]), T(a[1]), T(a[2])
		if x.Const && sep.Const && n.Const {
			var out []*Term
			for _, p := range strings.SplitN(x.SVal, sep.SVal, int(signExt(n.UVal, 64))) {
				out = append(out, mkStr(p))
			}
			return mkStrSlice(out)
		}
		if !n.Const || signExt(n.UVal, 64) != 2 || !sep.Const || sep.SVal == "" {
			e.abort("unsupported", "strings.SplitN other than n == 2 with a constant separator")
		}
		idx := strIndexOf(x, sep, mkInt(0))
		if !e.decide(intLe(mkInt(0), idx)) {
			return mkStrSlice([]*Term{x})
		}
		off := intAdd(idx, mkInt(int64(len(sep.SVal))))
		before := strSubstr(x, mkInt(0), idx)
		after := strSubstr(x, off, intSub(strLenInt(x), off))
		before.MaxLen, after.MaxLen = x.MaxLen, x.MaxLen
		return mkStrSlice([]*Term{before, after})
	})
	reg("strings.Split", func(e *Engine, fn *ssa.Function, a []Value, s ssa.Instruction) Value {
		x, sep := T(a[0]), T(a[1])
		if x.Const && sep.Const {
			var out []*Term
			for _, p := range strings.Split(x.SVal, sep.SVal) {
				out = append(out, mkStr(p))
			}
			return mkStrSlice(out)
		}
		if !sep.Const || len(sep.SVal) == 0 {
			e.abort("unsupported", "strings.Split with symbolic or empty separator")
		}
		// case split on the number of separator occurrences (bounded by length)
		var parts []*Term
		rest := x
		maxParts := 1
		if x.MaxLen >= 0 {
			maxParts = x.MaxLen/len(sep.SVal) + 1
		}
		if maxParts > 12 {
			maxParts = 12
		}
		for k := 0; k < maxParts; k++ {
			idx := strIndexOf(rest, sep, mkInt(0))
			if !e.decide(intLe(mkInt(0), idx)) {
				parts = append(parts, rest)
				return mkStrSlice(parts)
			}
			head := strSubstr(rest, mkInt(0), idx)
			parts = append(parts, head)
			off := intAdd(idx, mkInt(int64(len(sep.SVal))))
			nrest := strSubstr(rest, off, intSub(strLenInt(rest), off))
			nrest.MaxLen = rest.MaxLen
			rest = nrest
		}
		if e.decide(strContains(rest, sep)) {
			e.abort("bound", "strings.Split: more than %d parts", maxParts)
		}
		parts = append(parts, rest)
		return mkStrSlice(parts)
	})
	reg("strings.Count", func(e *Engine, fn *ssa.Function, a []Value, s ssa.Instruction) Value {
		x, sub := T(a[0]), T(a[1])
		if x.Const && sub.Const {
			return mkBV(64, uint64(strings.Count(x.SVal, sub.SVal)))
		}
		if sub.Const && len(sub.SVal) == 1 {
			n := 0
			for _, p := range partsOf(x) {
				if p.Const {
					n += strings.Count(p.SVal, sub.SVal)
				} else if mayContain(p, sub.SVal[0]) {
					e.abort("unsupported", "strings.Count on a symbolic part that may contain the separator")
				}
			}
			return mkBV(64, uint64(n))
		}
		e.abort("unsupported", "strings.Count on symbolic strings")
		return nil
	})
	reg("strings.EqualFold", func(e *Engine, fn *ssa.Function, a []Value, s ssa.Instruction) Value {
		x, y := strToLower(T(a[0])), strToLower(T(a[1]))
		if x == nil || y == nil {
			e.abort("unsupported", "EqualFold on unbounded string")
		}
		return Eq(x, y)
	})
	reg("strings.Title", func(e *Engine, fn *ssa.Function, a []Value, s ssa.Instruction) Value {
		x := T(a[0])
		if x.Const {
			return mkStr(strings.Title(x.SVal))
		}
		e.abort("unsupported", "strings.Title on symbolic string")
		return nil
	})
	// strings.Builder: state kept in the struct's buf field (index 1) as Bytes
	builderBuf := func(e *Engine, recv Value, s ssa.Instruction) *Value {
		p := e.deref(recv, s)
		st := (*p).(Struct)
		return &st[1]
	}
	bufTerm := func(v Value) *Term {
		if v == nil {
			return mkStr("")
		}
		t, ok := bytesOf(v)
		if !ok {
			panic("builder buf")
		}
		return t
	}
	reg("(*strings.Builder).WriteString", func(e *Engine, fn *ssa.Function, a []Value, s ssa.Instruction) Value {
		c := builderBuf(e, a[0], s)
		*c = Bytes{T: strConcat(bufTerm(*c), T(a[1]))}
		return Tuple{strLen(T(a[1])), Iface{}}
	})
	reg("(*strings.Builder).WriteByte", func(e *Engine, fn *ssa.Function, a []Value, s ssa.Instruction) Value {
		c := builderBuf(e, a[0], s)
		*c = Bytes{T: strConcat(bufTerm(*c), strFromCode(intOf(T(a[1]), false)))}
		return Iface{}
	})
	reg("(*strings.Builder).WriteRune", func(e *Engine, fn *ssa.Function, a []Value, s ssa.Instruction) Value {
		c := builderBuf(e, a[0], s)
		r := T(a[1])
		var ch *Term
		if r.Const {
			ch = mkStr(string(rune(signExt(r.UVal, 32))))
		} else {
			ch = strFromCode(intOf(r, true))
		}
		*c = Bytes{T: strConcat(bufTerm(*c), ch)}
		return Tuple{mkBV(64, 1), Iface{}}
	})
	reg("(*strings.Builder).Write", func(e *Engine, fn *ssa.Function, a []Value, s ssa.Instruction) Value {
		c := builderBuf(e, a[0], s)
		bt, _ := bytesOf(a[1])
		*c = Bytes{T: strConcat(bufTerm(*c), bt)}
		return Tuple{strLen(bt), Iface{}}
	})
	reg("(*strings.Builder).String", func(e *Engine, fn *ssa.Function, a []Value, s ssa.Instruction) Value {
		return bufTerm(*builderBuf(e, a[0], s))
	})
	reg("(*strings.Builder).Len", func(e *Engine, fn *ssa.Function, a []Value, s ssa.Instruction) Value {
		return strLen(bufTerm(*builderBuf(e, a[0], s)))
	})
	reg("(*strings.Builder).Grow", func(e *Engine, fn *ssa.Function, a []Value, s ssa.Instruction) Value { return nil })
	reg("(*strings.Builder).Reset", func(e *Engine, fn *ssa.Function, a []Value, s ssa.Instruction) Value {
		*builderBuf(e, a[0], s) = Slice(nil)
		return nil
	})

	// ---------- unicode (ASCII model) ----------
	rng := func(r *Term, lo, hi rune) *Term {
		return And(bvCmp("bvsle", mkBV(32, uint64(lo)), r), bvCmp("bvsle", r, mkBV(32, uint64(hi))))
	}
	reg("unicode.IsUpper", func(e *Engine, fn *ssa.Function, a []Value, s ssa.Instruction) Value { return rng(T(a[0]), 'A', 'Z') })
	reg("unicode.IsLower", func(e *Engine, fn *ssa.Function, a []Value, s ssa.Instruction) Value { return rng(T(a[0]), 'a', 'z') })
	reg("unicode.IsDigit", func(e *Engine, fn *ssa.Function, a []Value, s ssa.Instruction) Value { return rng(T(a[0]), '0', '9') })
	reg("unicode.IsLetter", func(e *Engine, fn *ssa.Function, a []Value, s ssa.Instruction) Value {
		return Or(rng(T(a[0]), 'A', 'Z'), rng(T(a[0]), 'a', 'z'))
	})
	reg("unicode.IsSpace", func(e *Engine, fn *ssa.Function, a []Value, s ssa.Instruction) Value {
		return Or(Eq(T(a[0]), mkBV(32, ' ')), rng(T(a[0]), '\t', '\r'))
	})
	reg("unicode.ToLower", func(e *Engine, fn *ssa.Function, a []Value, s ssa.Instruction) Value {
		r := T(a[0])
		return Ite(rng(r, 'A', 'Z'), bvBin("bvadd", r, mkBV(32, 32)), r)
	})
	reg("unicode.ToUpper", func(e *Engine, fn *ssa.Function, a []Value, s ssa.Instruction) Value {
		r := T(a[0])
		return Ite(rng(r, 'a', 'z'), bvBin("bvsub", r, mkBV(32, 32)), r)
	})

	// ---------- strconv ----------
	reg("strconv.Itoa", func(e *Engine, fn *ssa.Function, a []Value, s ssa.Instruction) Value { return intToStr(T(a[0]), true) })
	reg("strconv.Quote", func(e *Engine, fn *ssa.Function, a []Value, s ssa.Instruction) Value {
		x := T(a[0])
		if x.Const {
			return mkStr(strconv.Quote(x.SVal))
		}
		return strConcat(strConcat(mkStr(`"`), x), mkStr(`"`))
	})
	reg("strconv.FormatInt", func(e *Engine, fn *ssa.Function, a []Value, s ssa.Instruction) Value {
		if b := T(a[1]); !b.Const || b.UVal != 10 {
			e.abort("unsupported", "FormatInt base != 10")
		}
		return intToStr(T(a[0]), true)
	})
	reg("strconv.FormatUint", func(e *Engine, fn *ssa.Function, a []Value, s ssa.Instruction) Value {
		if b := T(a[1]); !b.Const || b.UVal != 10 {
			e.abort("unsupported", "FormatUint base != 10")
		}
		return intToStr(T(a[0]), false)
	})
	reg("strconv.FormatBool", func(e *Engine, fn *ssa.Function, a []Value, s ssa.Instruction) Value {
		return Ite(T(a[0]), mkStr("true"), mkStr("false"))
	})

	// ---------- fmt / errors ----------
	reg("fmt.Sprintf", func(e *Engine, fn *ssa.Function, a []Value, s ssa.Instruction) Value {
		r, _ := e.sprintf(constStr(e, a[0], "format", s), argSlice(a[1]), s)
		return r
	})
	reg("fmt.Sprint", func(e *Engine, fn *ssa.Function, a []Value, s ssa.Instruction) Value {
		return e.sprint(argSlice(a[0]), s, false)
	})
	reg("fmt.Sprintln", func(e *Engine, fn *ssa.Function, a []Value, s ssa.Instruction) Value {
		return strConcat(e.sprint(argSlice(a[0]), s, true), mkStr("\n"))
	})
	reg("fmt.Errorf", func(e *Engine, fn *ssa.Function, a []Value, s ssa.Instruction) Value {
		msg, wrapped := e.sprintf(constStr(e, a[0], "format", s), argSlice(a[1]), s)
		if wrapped != nil {
			return e.newWrapError(msg, wrapped)
		}
		return e.newErrorString(msg)
	})
	noop := func(e *Engine, fn *ssa.Function, a []Value, s ssa.Instruction) Value {
		return Tuple{mkBV(64, 0), Iface{}}
	}
	reg("(*os.File).Write", func(e *Engine, fn *ssa.Function, a []Value, s ssa.Instruction) Value {
		return Tuple{e.lenOf(a[1]), Iface{}}
	})
	reg("(*os.File).WriteString", func(e *Engine, fn *ssa.Function, a []Value, s ssa.Instruction) Value {
		return Tuple{e.lenOf(a[1]), Iface{}}
	})
	reg("fmt.Fprintf", noop)
	reg("fmt.Fprintln", noop)
	reg("fmt.Fprint", noop)
	reg("fmt.Printf", noop)
	reg("fmt.Println", noop)
	reg("errors.New", func(e *Engine, fn *ssa.Function, a []Value, s ssa.Instruction) Value {
		return e.newErrorString(T(a[0]))
	})
	reg("errors.As", func(e *Engine, fn *ssa.Function, a []Value, s ssa.Instruction) Value {
		cur := a[0].(Iface)
		tgt := a[1].(Iface)
		if tgt.T == nil {
			e.goPanicf(s, "errors.As: target cannot be nil")
		}
		pt, ok := tgt.T.Underlying().(*types.Pointer)
		if !ok {
			e.goPanicf(s, "errors.As: target must be a non-nil pointer")
		}
		elem := pt.Elem()
		cell := e.deref(tgt.V, s)
		for n := 0; cur.T != nil && n < 8; n++ {
			if it, isI := elem.Underlying().(*types.Interface); isI {
				if types.Implements(cur.T, it) {
					*cell = cur
					return tTrue
				}
			} else if types.Identical(cur.T, elem) {
				*cell = cur.V
				return tTrue
			}
			cur = e.unwrapErr(cur, s)
		}
		return tFalse
	})
	reg("errors.Is", func(e *Engine, fn *ssa.Function, a []Value, s ssa.Instruction) Value {
		cur := a[0].(Iface)
		tgt := a[1].(Iface)
		for n := 0; n < 8; n++ {
			if cur.T == nil || tgt.T == nil {
				return mkBool(cur.T == nil && tgt.T == nil)
			}
			if types.Identical(cur.T, tgt.T) && types.Comparable(cur.T) {
				if e.decide(e.eqValues(cur, tgt)) {
					return tTrue
				}
			}
			cur = e.unwrapErr(cur, s)
			if cur.T == nil {
				return tFalse
			}
		}
		return tFalse
	})
	reg("errors.Unwrap", func(e *Engine, fn *ssa.Function, a []Value, s ssa.Instruction) Value {
		cur := a[0].(Iface)
		if cur.T == nil {
			return Iface{}
		}
		return e.unwrapErr(cur, s)
	})

	// ---------- sort ----------
	sortTerms := func(e *Engine, sl Slice) {
		all := true
		for _, x := range sl {
			if !T(x).Const {
				all = false
			}
		}
		if all {
			ss := make([]string, len(sl))
			for i, x := range sl {
				ss[i] = T(x).SVal
			}
			sort.Strings(ss)
			for i := range sl {
				sl[i] = mkStr(ss[i])
			}
			return
		}
		if len(sl) <= 4 {
			// few elements: decide each comparison (forking) so that the elements stay
			// the original terms (cheap map lookups and equalities afterwards)
			for i := 1; i < len(sl); i++ {
				for j := i; j > 0; j-- {
					if !e.decide(strLt(T(sl[j]), T(sl[j-1]))) {
						break
					}
					sl[j], sl[j-1] = sl[j-1], sl[j]
				}
			}
			return
		}
		if len(sl) > 6 {
			e.abort("bound", "sort of %d symbolic strings", len(sl))
		}
		// compare-exchange network (bubble), no forking
		for i := 0; i < len(sl); i++ {
			for j := 0; j+1 < len(sl)-i; j++ {
				x, y := T(sl[j]), T(sl[j+1])
				le := strLe(x, y)
				lo, hi := Ite(le, x, y), Ite(le, y, x)
				sl[j], sl[j+1] = lo, hi
			}
		}
	}
	reg("sort.Strings", func(e *Engine, fn *ssa.Function, a []Value, s ssa.Instruction) Value {
		if sl, ok := a[0].(Slice); ok {
			sortTerms(e, sl)
		}
		return nil
	})
	reg("slices.Sort", func(e *Engine, fn *ssa.Function, a []Value, s ssa.Instruction) Value {
		if sl, ok := a[0].(Slice); ok && len(sl) > 0 {
			if t, ok := sl[0].(*Term); ok && t.K == KStr {
				sortTerms(e, sl)
				return nil
			}
			e.abort("unsupported", "slices.Sort on non-string slice")
		}
		return nil
	})
	sortSlice := func(e *Engine, fn *ssa.Function, a []Value, s ssa.Instruction) Value {
		ifc := a[0].(Iface)
		sl, _ := ifc.V.(Slice)
		less := a[1]
		// insertion sort, comparisons decided (forking) through the real less closure
		for i := 1; i < len(sl); i++ {
			for j := i; j > 0; j-- {
				r := T(e.call(less, []Value{mkBV(64, uint64(j)), mkBV(64, uint64(j-1))}, s))
				if !e.decide(r) {
					break
				}
				sl[j], sl[j-1] = sl[j-1], sl[j]
			}
		}
		return nil
	}
	reg("sort.Slice", sortSlice)
	reg("sort.SliceStable", sortSlice)
	reg("slices.Contains", func(e *Engine, fn *ssa.Function, a []Value, s ssa.Instruction) Value {
		sl, _ := a[0].(Slice)
		r := tFalse
		for _, x := range sl {
			r = Or(r, e.eqValues(x, a[1]))
		}
		return r
	})

	// ---------- unicode/utf8 ----------
	reg("unicode/utf8.ValidString", func(e *Engine, fn *ssa.Function, a []Value, s ssa.Instruction) Value {
		x := T(a[0])
		if x.Const {
			return mkBool(validUTF8(x.SVal))
		}
		if allBelow(x, 0x80) {
			return tTrue
		}
		// symbolic strings are ASCII unless a harness widens the alphabet; ASCII is valid UTF-8.
		ascii := &Term{Op: "raw", K: KBool, Args: []*Term{x}, MaxLen: -1,
			text: fmt.Sprintf(`(str.in_re %s (re.* (re.range "\u{0}" "\u{7f}")))`, x.String())}
		if e.decide(ascii) {
			return tTrue
		}
		// non-ASCII bytes: validity left unconstrained (both outcomes explored)
		return e.freshBool("utf8valid")
	})
	reg("unicode/utf8.RuneCountInString", func(e *Engine, fn *ssa.Function, a []Value, s ssa.Instruction) Value {
		x := T(a[0])
		if x.Const {
			return mkBV(64, uint64(len([]rune(x.SVal))))
		}
		return strLen(x) // ASCII model
	})

	// ---------- os / io ----------
	reg("os.Exit", func(e *Engine, fn *ssa.Function, a []Value, s ssa.Instruction) Value {
		e.events = append(e.events, Event{Kind: "os.Exit", Msg: e.posOf(s)})
		e.abort("stop", "os.Exit")
		return nil
	})
}

func validUTF8(s string) bool {
	for _, r := range s {
		if r == 0xFFFD {
			// may be a genuine U+FFFD; check by re-encoding
			return strings.ToValidUTF8(s, "") == s
		}
	}
	return true
}

// allBelow reports that every byte of s is syntactically known to be < lim.
func allBelow(s *Term, lim int) bool {
	switch {
	case s.Const:
		for i := 0; i < len(s.SVal); i++ {
			if int(s.SVal[i]) >= lim {
				return false
			}
		}
		return true
	case s.Op == "var":
		if s.Alpha == nil {
			return false
		}
		for c := lim; c < 256; c++ {
			if s.Alpha[c] {
				return false
			}
		}
		return true
	case s.Op == "str.++":
		for _, a := range s.Args {
			if !allBelow(a, lim) {
				return false
			}
		}
		return true
	case s.Op == "str.substr" || s.Op == "str.at":
		return allBelow(s.Args[0], lim)
	case s.Op == "ite":
		return allBelow(s.Args[1], lim) && allBelow(s.Args[2], lim)
	}
	return false
}
