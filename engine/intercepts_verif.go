package main

// Models for the harness API (package zzverif), protobuf extension lookup,
// protogen emission (recording stubs) and regexp use in scope.

import (
	"fmt"
	"go/types"
	"regexp"
	"strings"

	"golang.org/x/tools/go/ssa"
)

func regVerif(name string, f Intercept) { intercepts["zzverif."+name] = f }

// lookupIntercept resolves harness-API functions regardless of module path.
func verifKey(key string) string {
	if i := strings.LastIndex(key, "/zzverif."); i >= 0 {
		return key[i+1:]
	}
	return key
}

func (e *Engine) extName(xt Value, site ssa.Instruction) (string, Value) {
	// xt: interface holding *protoimpl.ExtensionInfo
	ifc, ok := xt.(Iface)
	var p Ptr
	if ok {
		p, _ = ifc.V.(Ptr)
	} else {
		p, _ = xt.(Ptr)
	}
	if p.P == nil {
		e.abort("unsupported", "extension descriptor is nil at %s (package init not executed?)", e.posOf(site))
	}
	if n, ok := e.extTokens[p.P]; ok {
		return n, nil
	}
	// real ExtensionInfo struct built by the package's var initialisers
	st, ok := (*p.P).(Struct)
	if !ok {
		e.abort("unsupported", "extension descriptor of unexpected shape")
	}
	named := e.namedType("google.golang.org/protobuf/internal/impl", "ExtensionInfo").Underlying().(*types.Struct)
	name, ext := "", Value(nil)
	for i := 0; i < named.NumFields(); i++ {
		switch named.Field(i).Name() {
		case "Name":
			name = T(st[i]).SVal
		case "ExtensionType":
			ext = st[i]
		}
	}
	if name == "" {
		e.abort("unsupported", "extension descriptor without name (init of its package not executed)")
	}
	return name, ext
}

func msgCell(e *Engine, m Value, site ssa.Instruction) *Value {
	ifc, ok := m.(Iface)
	if !ok {
		panic("msgCell: not an interface")
	}
	if ifc.T == nil {
		return nil
	}
	p, ok := ifc.V.(Ptr)
	if !ok {
		e.abort("unsupported", "options message of kind %T", ifc.V)
	}
	return p.P
}

func init() {
	nondetInt := func(w int, goType string, signed bool) Intercept {
		return func(e *Engine, fn *ssa.Function, a []Value, s ssa.Instruction) Value {
			return e.newVar(constStr(e, a[0], "nondet name", s), KBV, w, goType)
		}
	}
	regVerif("Bool", func(e *Engine, fn *ssa.Function, a []Value, s ssa.Instruction) Value {
		return e.newVar(constStr(e, a[0], "nondet name", s), KBool, 0, "bool")
	})
	regVerif("Int32", nondetInt(32, "int32", true))
	regVerif("Int64", nondetInt(64, "int64", true))
	regVerif("Int", nondetInt(64, "int", true))
	regVerif("Uint32", nondetInt(32, "uint32", false))
	regVerif("Uint64", nondetInt(64, "uint64", false))
	regVerif("Byte", nondetInt(8, "uint8", false))
	regVerif("Float64", func(e *Engine, fn *ssa.Function, a []Value, s ssa.Instruction) Value {
		return e.newVar(constStr(e, a[0], "nondet name", s), KFP, 64, "float64")
	})
	regVerif("Float32", func(e *Engine, fn *ssa.Function, a []Value, s ssa.Instruction) Value {
		return e.newVar(constStr(e, a[0], "nondet name", s), KFP, 32, "float32")
	})
	regVerif("String", func(e *Engine, fn *ssa.Function, a []Value, s ssa.Instruction) Value {
		n := e.concreteInt(a[1], s, "maxLen")
		return e.newString(constStr(e, a[0], "nondet name", s), int(n), "")
	})
	regVerif("StringIn", func(e *Engine, fn *ssa.Function, a []Value, s ssa.Instruction) Value {
		n := e.concreteInt(a[1], s, "maxLen")
		return e.newString(constStr(e, a[0], "nondet name", s), int(n), constStr(e, a[2], "alphabet", s))
	})
	regVerif("StringN", func(e *Engine, fn *ssa.Function, a []Value, s ssa.Instruction) Value {
		n := e.concreteInt(a[1], s, "len")
		return e.newStringN(constStr(e, a[0], "nondet name", s), int(n), int(n), constStr(e, a[2], "alphabet", s))
	})
	regVerif("Choice", func(e *Engine, fn *ssa.Function, a []Value, s ssa.Instruction) Value {
		n := e.concreteInt(a[1], s, "choice n")
		v := e.newVar(constStr(e, a[0], "nondet name", s), KBV, 64, "int")
		// choices select shapes: concretise immediately. The variable is fresh, so
		// every value is feasible and the fork needs no solver call (decideSimple).
		for k := int64(0); k < n-1; k++ {
			if e.decide(Eq2(v, mkBV(64, uint64(k)))) {
				return mkBV(64, uint64(k))
			}
		}
		e.addPC(Eq2(v, mkBV(64, uint64(n-1))))
		return mkBV(64, uint64(n-1))
	})
	regVerif("Assume", func(e *Engine, fn *ssa.Function, a []Value, s ssa.Instruction) Value {
		c := T(a[0])
		if c.Const {
			if !c.BVal {
				e.abort("infeasible", "assume false")
			}
			return nil
		}
		r := e.feasible(c)
		if r == "unsat" {
			e.abort("infeasible", "assumption unsatisfiable")
		}
		e.addPC(c)
		return nil
	})
	regVerif("Assert", func(e *Engine, fn *ssa.Function, a []Value, s ssa.Instruction) Value {
		id := constStr(e, a[0], "assert id", s)
		c := T(a[1])
		res := e.checkObligation(id, "assert", c, e.posOf(s))
		// continue under the assumption that the assertion held
		if c.Const {
			if !c.BVal {
				e.abort("stop", "assertion constant false")
			}
			return nil
		}
		if res == "unsat" {
			return nil // implied by the path condition: nothing to add
		}
		if e.feasible(c) == "unsat" {
			e.abort("stop", "assertion fails on every input of this path")
		}
		e.addPC(c)
		return nil
	})
	regVerif("Expect", func(e *Engine, fn *ssa.Function, a []Value, s ssa.Instruction) Value {
		id := constStr(e, a[0], "expect id", s)
		e.checkObligation(id, "expect", T(a[1]), e.posOf(s))
		return nil
	})
	regVerif("Reach", func(e *Engine, fn *ssa.Function, a []Value, s ssa.Instruction) Value {
		e.reach[constStr(e, a[0], "reach id", s)]++
		return nil
	})
	regVerif("Show", func(e *Engine, fn *ssa.Function, a []Value, s ssa.Instruction) Value {
		label := constStr(e, a[0], "label", s)
		if ifc, ok := a[1].(Iface); ok {
			if t, ok := ifc.V.(*Term); ok {
				e.shown = append(e.shown, shownTerm{label, t})
			}
		}
		return nil
	})
	regVerif("And", func(e *Engine, fn *ssa.Function, a []Value, s ssa.Instruction) Value {
		r := tTrue
		for _, x := range argSlice(a[0]) {
			r = And(r, T(x))
		}
		return r
	})
	regVerif("Or", func(e *Engine, fn *ssa.Function, a []Value, s ssa.Instruction) Value {
		r := tFalse
		for _, x := range argSlice(a[0]) {
			r = Or(r, T(x))
		}
		return r
	})
	regVerif("Implies", func(e *Engine, fn *ssa.Function, a []Value, s ssa.Instruction) Value {
		return Or(Not(T(a[0])), T(a[1]))
	})
	// CmpIntFloat(v int64, f float64) int: exact comparison of an integer with a float64 (-1, 0, 1)
	regVerif("CmpIntFloat", func(e *Engine, fn *ssa.Function, a []Value, s ssa.Instruction) Value {
		v, f := T(a[0]), T(a[1])
		if f.OfBV != nil && f.K == KFP {
			var fx *Term
			if f.OfBVS {
				fx = bvSext(f.OfBV, 64)
			} else {
				fx = bvZext(f.OfBV, 64)
			}
			return Ite(bvCmp("bvslt", v, fx), mkBV(64, ^uint64(0)), Ite(Eq(v, fx), mkBV(64, 0), mkBV(64, 1)))
		}
		if f.FromI != nil || f.Const && fpVal(f) == float64(int64(fpVal(f))) && fpVal(f) > -1e15 && fpVal(f) < 1e15 {
			fi := f.FromI
			if fi == nil {
				fi = mkInt(int64(fpVal(f)))
			}
			vi := intOf(v, true)
			return Ite(intLt(vi, fi), mkBV(64, ^uint64(0)), Ite(Eq(vi, fi), mkBV(64, 0), mkBV(64, 1)))
		}
		rv := app("to_real", KInt, 0, intOf(v, true))
		rf := app("fp.to_real", KInt, 0, f)
		lt := app("<", KBool, 0, rv, rf)
		eq := app("=", KBool, 0, rv, rf)
		return Ite(lt, mkBV(64, ^uint64(0)), Ite(eq, mkBV(64, 0), mkBV(64, 1)))
	})
	// Budget(id, maxSteps, maxMillis, f): f must finish within maxSteps executed SSA
	// instructions and without exceeding the call-depth bound (natively: maxMillis).
	regVerif("Budget", func(e *Engine, fn *ssa.Function, a []Value, s ssa.Instruction) Value {
		id := constStr(e, a[0], "budget id", s)
		limit := e.concreteInt(a[1], s, "budget steps")
		saved := e.stepCap
		start := e.steps
		e.stepCap = e.steps + int(limit)
		depth, stack := e.depth, len(e.stack)
		exceeded := ""
		func() {
			defer func() {
				if r := recover(); r != nil {
					if pe, ok := r.(pathEnd); ok && pe.kind == "budget" {
						exceeded = pe.msg
						e.depth = depth
						e.stack = e.stack[:stack]
						return
					}
					panic(r)
				}
			}()
			e.call(a[3], nil, s)
		}()
		e.stepCap = saved
		o := e.obl(id, "assert")
		o.Checks++
		if exceeded == "" {
			o.Unsat++
			e.notes = append(e.notes, fmt.Sprintf("%s: %d steps", id, e.steps-start))
			return nil
		}
		o.Sat++
		if len(o.Witnesses) < e.cfg.MaxWitness {
			w := e.witness(e.pc)
			w.Msg = exceeded
			w.Where = e.posOf(s)
			o.Witnesses = append(o.Witnesses, w)
		}
		e.abort("stop", "budget exceeded")
		return nil
	})
	regVerif("ExpectBudget", func(e *Engine, fn *ssa.Function, a []Value, s ssa.Instruction) Value {
		id := constStr(e, a[0], "budget id", s)
		limit := e.concreteInt(a[1], s, "budget steps")
		saved := e.stepCap
		start := e.steps
		e.stepCap = e.steps + int(limit)
		depth, stack := e.depth, len(e.stack)
		exceeded := ""
		func() {
			defer func() {
				if r := recover(); r != nil {
					if pe, ok := r.(pathEnd); ok && pe.kind == "budget" {
						exceeded = pe.msg
						e.depth = depth
						e.stack = e.stack[:stack]
						return
					}
					panic(r)
				}
			}()
			e.call(a[3], nil, s)
		}()
		e.stepCap = saved
		o := e.obl(id, "expect")
		o.Checks++
		if exceeded == "" {
			o.Unsat++
			e.notes = append(e.notes, fmt.Sprintf("%s: %d steps", id, e.steps-start))
			return nil
		}
		o.Sat++
		if len(o.Witnesses) < e.cfg.MaxWitness {
			w := e.witness(e.pc)
			w.Msg = exceeded
			w.Where = e.posOf(s)
			o.Witnesses = append(o.Witnesses, w)
		}
		return nil
	})
	regVerif("Symbolic", func(e *Engine, fn *ssa.Function, a []Value, s ssa.Instruction) Value { return tTrue })
	regVerif("Thorough", func(e *Engine, fn *ssa.Function, a []Value, s ssa.Instruction) Value { return mkBool(e.cfg.Thorough) })

	// SetExt(msg proto.Message, xt protoreflect.ExtensionType, v any)
	regVerif("SetExt", func(e *Engine, fn *ssa.Function, a []Value, s ssa.Instruction) Value {
		cell := msgCell(e, a[0], s)
		if cell == nil {
			e.goPanicf(s, "SetExt on nil message")
		}
		name, _ := e.extName(a[1], s)
		tab := e.extTable[cell]
		if tab == nil {
			tab = map[string]Value{}
			e.extTable[cell] = tab
		}
		tab[name] = a[2]
		return nil
	})
	getExt := func(e *Engine, fn *ssa.Function, a []Value, s ssa.Instruction) Value {
		cell := msgCell(e, a[0], s)
		name, extType := e.extName(a[1], s)
		if cell != nil {
			if v, ok := e.extTable[cell][name]; ok {
				return v
			}
		}
		// default: zero of the extension's Go type (typed nil pointer for messages)
		if ifc, ok := extType.(Iface); ok && ifc.T != nil {
			return Iface{T: ifc.T, V: zero(ifc.T)}
		}
		e.abort("unsupported", "default value of extension %s unknown", name)
		return nil
	}
	reg("google.golang.org/protobuf/proto.GetExtension", getExt)
	reg("google.golang.org/protobuf/proto.HasExtension", func(e *Engine, fn *ssa.Function, a []Value, s ssa.Instruction) Value {
		cell := msgCell(e, a[0], s)
		if cell == nil {
			return tFalse
		}
		name, _ := e.extName(a[1], s)
		_, ok := e.extTable[cell][name]
		return mkBool(ok)
	})

	// protogen.Options.New: documented to return (plugin, error); arbitrary outcome
	reg("(google.golang.org/protobuf/compiler/protogen.Options).New", func(e *Engine, fn *ssa.Function, a []Value, s ssa.Instruction) Value {
		if e.decide(e.freshBool("options_new_fails")) {
			return Tuple{Ptr{}, e.newErrorString(mkStr("protogen: request rejected"))}
		}
		t := e.namedType("google.golang.org/protobuf/compiler/protogen", "Plugin")
		c := new(Value)
		*c = zero(t)
		return Tuple{Ptr{P: c}, Iface{}}
	})
	// ---------- protogen recording stubs ----------
	reg("(*google.golang.org/protobuf/compiler/protogen.Plugin).NewGeneratedFile", func(e *Engine, fn *ssa.Function, a []Value, s ssa.Instruction) Value {
		t := e.namedType("google.golang.org/protobuf/compiler/protogen", "GeneratedFile")
		c := new(Value)
		*c = zero(t)
		gf := &genFile{name: T(a[1]), cell: c}
		if pp, ok := a[0].(Ptr); ok {
			gf.plugin = pp.P
		}
		e.genFiles = append(e.genFiles, gf)
		return Ptr{P: c}
	})
	findGF := func(e *Engine, recv Value, s ssa.Instruction) *genFile {
		p := recv.(Ptr)
		for _, g := range e.genFiles {
			if g.cell == p.P {
				return g
			}
		}
		e.abort("unsupported", "GeneratedFile not created through NewGeneratedFile at %s", e.posOf(s))
		return nil
	}
	goIdentText := func(e *Engine, v Value) *Term {
		st := v.(Struct) // GoIdent{GoName string; GoImportPath GoImportPath}
		return T(st[0])
	}
	isGoIdent := func(t types.Type) bool {
		n, ok := t.(*types.Named)
		return ok && n.Obj().Name() == "GoIdent" && n.Obj().Pkg() != nil && strings.HasSuffix(n.Obj().Pkg().Path(), "compiler/protogen")
	}
	reg("(*google.golang.org/protobuf/compiler/protogen.GeneratedFile).P", func(e *Engine, fn *ssa.Function, a []Value, s ssa.Instruction) Value {
		gf := findGF(e, a[0], s)
		line := mkStr("")
		for _, x := range argSlice(a[1]) {
			ifc := x.(Iface)
			if ifc.T != nil && isGoIdent(ifc.T) {
				// QualifiedGoIdent: rendered as <importpath>.<GoName> marker unless same package
				st := ifc.V.(Struct)
				line = strConcat(line, strConcat(strConcat(mkStr("«"), T(st[1])), strConcat(mkStr("».") , T(st[0]))))
				continue
			}
			line = strConcat(line, e.sprintValue(x, 'v', s))
		}
		gf.lines = append(gf.lines, line)
		return nil
	})
	reg("(*google.golang.org/protobuf/compiler/protogen.GeneratedFile).QualifiedGoIdent", func(e *Engine, fn *ssa.Function, a []Value, s ssa.Instruction) Value {
		st := a[1].(Struct)
		return strConcat(strConcat(mkStr("«"), T(st[1])), strConcat(mkStr("»."), T(st[0])))
	})
	reg("(*google.golang.org/protobuf/compiler/protogen.GeneratedFile).Import", func(e *Engine, fn *ssa.Function, a []Value, s ssa.Instruction) Value {
		return nil
	})
	reg("(*google.golang.org/protobuf/compiler/protogen.GeneratedFile).Skip", func(e *Engine, fn *ssa.Function, a []Value, s ssa.Instruction) Value {
		gf := findGF(e, a[0], s)
		gf.lines = append(gf.lines, mkStr("«SKIP»"))
		return nil
	})
	reg("(*google.golang.org/protobuf/compiler/protogen.GeneratedFile).Write", func(e *Engine, fn *ssa.Function, a []Value, s ssa.Instruction) Value {
		gf := findGF(e, a[0], s)
		bt, _ := bytesOf(a[1])
		gf.lines = append(gf.lines, bt)
		return Tuple{strLen(bt), Iface{}}
	})
	_ = goIdentText
	// zzverif.Trace(plugin) []TraceFile{Name string; Lines []string}
	regVerif("Trace", func(e *Engine, fn *ssa.Function, a []Value, s ssa.Instruction) Value {
		var want *Value
		if pp, ok := a[0].(Ptr); ok {
			want = pp.P
		}
		out := Slice{}
		for _, g := range e.genFiles {
			if want != nil && g.plugin != want {
				continue
			}
			lines := make(Slice, len(g.lines))
			for j, l := range g.lines {
				lines[j] = l
			}
			out = append(out, Struct{g.name, lines})
		}
		return out
	})

	// ---------- regexp (only the shapes in scope) ----------
	reg("regexp.MustCompile", func(e *Engine, fn *ssa.Function, a []Value, s ssa.Instruction) Value {
		pat := constStr(e, a[0], "regexp pattern", s)
		c := new(Value)
		*c = &Native{Kind: "regexp", Data: pat}
		return Ptr{P: c}
	})
	rePat := func(e *Engine, v Value, s ssa.Instruction) string {
		p := e.deref(v, s)
		n, ok := (*p).(*Native)
		if !ok || n.Kind != "regexp" {
			e.abort("unsupported", "regexp object without model")
		}
		return n.Data.(string)
	}
	reg("(*regexp.Regexp).FindAllStringSubmatch", func(e *Engine, fn *ssa.Function, a []Value, s ssa.Instruction) Value {
		pat := rePat(e, a[0], s)
		x := T(a[1])
		if x.Const {
			re := regexp.MustCompile(pat)
			ms := re.FindAllStringSubmatch(x.SVal, -1)
			if ms == nil {
				return Slice(nil)
			}
			out := make(Slice, len(ms))
			for i, m := range ms {
				var ts []*Term
				for _, g := range m {
					ts = append(ts, mkStr(g))
				}
				out[i] = mkStrSlice(ts)
			}
			return out
		}
		if pat != `\{([^}]+)\}` {
			e.abort("unsupported", "regexp %q on symbolic input has no model", pat)
		}
		// bounded hand-written extractor for \{([^}]+)\} (leftmost, non-overlapping):
		// a match starts at the first '{' that is followed by at least one non-'}'
		// character and a later '}'. Because [^}] may itself contain '{', the
		// leftmost match for a given start extends to the first '}' after it,
		// provided that '}' is not immediately after the '{'.
		var out Slice
		rest := x
		limit := 4
		for k := 0; k < limit; k++ {
			// find leftmost i with rest[i]=='{' and first '}' after i at j>i+1
			// search: iterate candidate '{' positions
			found := false
			scan := rest
			consumed := mkInt(0)
			_ = consumed
			for tries := 0; tries < limit+2; tries++ {
				i := strIndexOf(scan, mkStr("{"), mkInt(0))
				if !e.decide(intLe(mkInt(0), i)) {
					break
				}
				after := strSubstr(scan, intAdd(i, mkInt(1)), intSub(strLenInt(scan), intAdd(i, mkInt(1))))
				after.MaxLen = scan.MaxLen
				j := strIndexOf(after, mkStr("}"), mkInt(0))
				if !e.decide(intLe(mkInt(0), j)) {
					// no closing brace at all after this '{': no further match anywhere
					break
				}
				if e.decide(Eq(j, mkInt(0))) {
					// "{}": this '{' cannot start a match; continue scanning after it
					scan = after
					continue
				}
				inner := strSubstr(after, mkInt(0), j)
				inner.MaxLen = after.MaxLen
				full := strConcat(strConcat(mkStr("{"), inner), mkStr("}"))
				out = append(out, mkStrSlice([]*Term{full, inner}))
				nrest := strSubstr(after, intAdd(j, mkInt(1)), intSub(strLenInt(after), intAdd(j, mkInt(1))))
				nrest.MaxLen = after.MaxLen
				rest = nrest
				found = true
				break
			}
			if !found {
				return out
			}
		}
		if e.decide(strContains(rest, mkStr("{"))) && e.decide(strContains(rest, mkStr("}"))) {
			e.abort("bound", "more than %d path variables", limit)
		}
		return out
	})
}

func (e *Engine) dumpTrace() string {
	var b strings.Builder
	for _, g := range e.genFiles {
		fmt.Fprintf(&b, "== %s\n", describe(g.name))
		for _, l := range g.lines {
			fmt.Fprintf(&b, "%s\n", describe(l))
		}
	}
	return b.String()
}
