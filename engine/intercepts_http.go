package main

// Models of the net/http pieces the emitted runtime touches.

import (
	"go/types"
	"net/textproto"

	"golang.org/x/tools/go/ssa"
)

func canonKey(e *Engine, v Value, s ssa.Instruction) *Term {
	k := T(v)
	if !k.Const {
		e.abort("unsupported", "header name must be concrete at %s", e.posOf(s))
	}
	return mkStr(textproto.CanonicalMIMEHeaderKey(k.SVal))
}

func init() {
	get := func(e *Engine, fn *ssa.Function, a []Value, s ssa.Instruction) Value {
		m, _ := a[0].(*Map)
		v, ok := e.mapLookup(m, canonKey(e, a[1], s))
		if !ok {
			return mkStr("")
		}
		sl, _ := v.(Slice)
		if len(sl) == 0 {
			return mkStr("")
		}
		return sl[0]
	}
	set := func(e *Engine, fn *ssa.Function, a []Value, s ssa.Instruction) Value {
		m, _ := a[0].(*Map)
		if m == nil {
			e.goPanicf(s, "assignment to entry in nil map (Header.Set)")
		}
		e.mapUpdate(m, canonKey(e, a[1], s), Slice{a[2]})
		return nil
	}
	add := func(e *Engine, fn *ssa.Function, a []Value, s ssa.Instruction) Value {
		m, _ := a[0].(*Map)
		if m == nil {
			e.goPanicf(s, "assignment to entry in nil map (Header.Add)")
		}
		k := canonKey(e, a[1], s)
		old, _ := e.mapLookup(m, k)
		sl, _ := old.(Slice)
		e.mapUpdate(m, k, append(append(Slice{}, sl...), a[2]))
		return nil
	}
	del := func(e *Engine, fn *ssa.Function, a []Value, s ssa.Instruction) Value {
		m, _ := a[0].(*Map)
		e.mapDelete(m, canonKey(e, a[1], s))
		return nil
	}
	values := func(e *Engine, fn *ssa.Function, a []Value, s ssa.Instruction) Value {
		m, _ := a[0].(*Map)
		v, ok := e.mapLookup(m, canonKey(e, a[1], s))
		if !ok {
			return Slice(nil)
		}
		return v
	}
	for _, recv := range []string{"net/http.Header", "net/textproto.MIMEHeader"} {
		reg("("+recv+").Get", get)
		reg("("+recv+").Set", set)
		reg("("+recv+").Add", add)
		reg("("+recv+").Del", del)
		reg("("+recv+").Values", values)
	}
	reg("net/http.CanonicalHeaderKey", func(e *Engine, fn *ssa.Function, a []Value, s ssa.Instruction) Value {
		return canonKey(e, a[0], s)
	})
	reg("net/textproto.CanonicalMIMEHeaderKey", func(e *Engine, fn *ssa.Function, a []Value, s ssa.Instruction) Value {
		return canonKey(e, a[0], s)
	})
	// request bodies: zzverif.Body(b) yields an io.ReadCloser the engine recognises
	regVerif("Body", func(e *Engine, fn *ssa.Function, a []Value, s ssa.Instruction) Value {
		c := new(Value)
		*c = &Native{Kind: "body", Data: a[0]}
		e.side["bodyreads"] = 0
		return Iface{T: e.bodyType(), V: Ptr{P: c}}
	})
	readAll := func(e *Engine, fn *ssa.Function, a []Value, s ssa.Instruction) Value {
		ifc := a[0].(Iface)
		if ifc.T == nil {
			e.goPanicf(s, "io.ReadAll(nil)")
		}
		p, ok := ifc.V.(Ptr)
		if ok && p.P != nil {
			if n, ok := (*p.P).(*Native); ok && (n.Kind == "body" || n.Kind == "reader") {
				if n.Kind == "body" {
					e.side["bodyreads"] = e.side["bodyreads"].(int) + 1
				}
				data := n.Data.(Value)
				n.Data = Value(Slice(nil)) // drained
				if data == nil {
					data = Slice{}
				}
				if sl, ok := data.(Slice); ok && sl == nil {
					data = Slice{}
				}
				return Tuple{data, Iface{}}
			}
		}
		e.abort("unsupported", "io.ReadAll on a reader without model (%v)", ifc.T)
		return nil
	}
	reg("io.ReadAll", readAll)
	reg("bytes.NewReader", func(e *Engine, fn *ssa.Function, a []Value, s ssa.Instruction) Value {
		c := new(Value)
		*c = &Native{Kind: "reader", Data: a[0]}
		return Ptr{P: c}
	})
	reg("bytes.NewBuffer", func(e *Engine, fn *ssa.Function, a []Value, s ssa.Instruction) Value {
		c := new(Value)
		*c = &Native{Kind: "reader", Data: a[0]}
		return Ptr{P: c}
	})
	reg("io.NopCloser", func(e *Engine, fn *ssa.Function, a []Value, s ssa.Instruction) Value {
		ifc := a[0].(Iface)
		return Iface{T: e.bodyType(), V: ifc.V}
	})
	regVerif("SetQuery", func(e *Engine, fn *ssa.Function, a []Value, s ssa.Instruction) Value {
		r := e.deref(a[0], s)
		e.side["query"] = a[1]
		_ = r
		return nil
	})
	reg("(*net/url.URL).Query", func(e *Engine, fn *ssa.Function, a []Value, s ssa.Instruction) Value {
		if q, ok := e.side["query"]; ok {
			return q
		}
		return &Map{}
	})
	regVerif("AtoiRef", func(e *Engine, fn *ssa.Function, a []Value, s ssa.Instruction) Value {
		res := e.parseIntModel(T(a[0]), 64, true, "AtoiRef").(Tuple)
		return Tuple{res[0], mkBool(res[1].(Iface).T == nil)}
	})
	// sync.Once (sequential model): the function runs at the first Do of this Once
	reg("(*sync.Once).Do", func(e *Engine, fn *ssa.Function, a []Value, s ssa.Instruction) Value {
		cell := e.deref(a[0], s)
		done, _ := e.side["once"].(map[*Value]bool)
		if done == nil {
			done = map[*Value]bool{}
			e.side["once"] = done
		}
		if !done[cell] {
			done[cell] = true
			e.call(a[1], nil, s)
		}
		return nil
	})
	// sync.Pool, sequentially: Put stores the object; Get hands back either a stored object
	// (any of them; both outcomes are explored) or a fresh one from New
	poolItems := func(e *Engine, cell *Value) *[]Value {
		m, _ := e.side["pools"].(map[*Value]*[]Value)
		if m == nil {
			m = map[*Value]*[]Value{}
			e.side["pools"] = m
		}
		if m[cell] == nil {
			m[cell] = &[]Value{}
		}
		return m[cell]
	}
	reg("(*sync.Pool).Put", func(e *Engine, fn *ssa.Function, a []Value, s ssa.Instruction) Value {
		items := poolItems(e, e.deref(a[0], s))
		*items = append(*items, a[1])
		return nil
	})
	reg("(*sync.Pool).Get", func(e *Engine, fn *ssa.Function, a []Value, s ssa.Instruction) Value {
		cell := e.deref(a[0], s)
		items := poolItems(e, cell)
		if n := len(*items); n > 0 && e.decide(e.freshBool("pool_reuses")) {
			v := (*items)[n-1]
			*items = (*items)[:n-1]
			return v
		}
		st, ok := (*cell).(Struct)
		if ok {
			newFn := getStructField(st, e.namedType("sync", "Pool"), "New")
			switch newFn.(type) {
			case *ssa.Function, *Closure:
				return e.call(newFn, nil, s)
			}
		}
		return Iface{}
	})
	// sync.Map, sequentially: an association list per map cell; keys are compared by value
	type smEntry struct{ k, v Value }
	smEntries := func(e *Engine, cell *Value) *[]smEntry {
		m, _ := e.side["syncmaps"].(map[*Value]*[]smEntry)
		if m == nil {
			m = map[*Value]*[]smEntry{}
			e.side["syncmaps"] = m
		}
		if m[cell] == nil {
			m[cell] = &[]smEntry{}
		}
		return m[cell]
	}
	smFind := func(e *Engine, items *[]smEntry, k Value) int {
		for i, it := range *items {
			if e.decide(e.eqValues(it.k, k)) {
				return i
			}
		}
		return -1
	}
	reg("(*sync.Map).Load", func(e *Engine, fn *ssa.Function, a []Value, s ssa.Instruction) Value {
		items := smEntries(e, e.deref(a[0], s))
		if i := smFind(e, items, a[1]); i >= 0 {
			return Tuple{(*items)[i].v, tTrue}
		}
		return Tuple{Iface{}, tFalse}
	})
	reg("(*sync.Map).Store", func(e *Engine, fn *ssa.Function, a []Value, s ssa.Instruction) Value {
		items := smEntries(e, e.deref(a[0], s))
		if i := smFind(e, items, a[1]); i >= 0 {
			(*items)[i].v = a[2]
		} else {
			*items = append(*items, smEntry{a[1], a[2]})
		}
		return nil
	})
	reg("(*sync.Map).LoadOrStore", func(e *Engine, fn *ssa.Function, a []Value, s ssa.Instruction) Value {
		items := smEntries(e, e.deref(a[0], s))
		if i := smFind(e, items, a[1]); i >= 0 {
			return Tuple{(*items)[i].v, tTrue}
		}
		*items = append(*items, smEntry{a[1], a[2]})
		return Tuple{a[2], tFalse}
	})
	reg("(*sync.Map).Delete", func(e *Engine, fn *ssa.Function, a []Value, s ssa.Instruction) Value {
		items := smEntries(e, e.deref(a[0], s))
		if i := smFind(e, items, a[1]); i >= 0 {
			*items = append((*items)[:i:i], (*items)[i+1:]...)
		}
		return nil
	})
	noopv := func(e *Engine, fn *ssa.Function, a []Value, s ssa.Instruction) Value { return nil }
	for _, m := range []string{"(*sync.Mutex).Lock", "(*sync.Mutex).Unlock", "(*sync.RWMutex).Lock", "(*sync.RWMutex).Unlock", "(*sync.RWMutex).RLock", "(*sync.RWMutex).RUnlock"} {
		reg(m, noopv)
	}
	// context.WithValue: the real body inspects the key through reflection
	reg("context.WithValue", func(e *Engine, fn *ssa.Function, a []Value, s ssa.Instruction) Value {
		t := e.namedType("context", "valueCtx")
		c := new(Value)
		*c = Struct{a[0], a[1], a[2]}
		return Iface{T: types.NewPointer(t), V: Ptr{P: c}}
	})
	// math/rand.Intn: an arbitrary index in range
	randIntn := func(e *Engine, fn *ssa.Function, a []Value, s ssa.Instruction) Value {
		n := e.concreteInt(a[len(a)-1], s, "rand bound")
		if n <= 0 {
			e.goPanicf(s, "invalid argument to Intn")
		}
		e.usedFresh = true
		return mkBV(64, uint64(e.chooseN(int(n))))
	}
	reg("math/rand.Intn", randIntn)
	reg("(*math/rand.Rand).Intn", randIntn)
	reg("math/rand.Seed", noopv)
	regVerif("BodyReads", func(e *Engine, fn *ssa.Function, a []Value, s ssa.Instruction) Value {
		n, _ := e.side["bodyreads"].(int)
		return mkBV(64, uint64(n))
	})
}

// bodyType: a named type standing for "some io.ReadCloser"; it has no methods
// in the engine (Close is modelled below through the interface dispatch).
func (e *Engine) bodyType() types.Type {
	return types.NewPointer(e.namedType("bytes", "Reader"))
}
