package main

// Model of the parts of package time and of google.protobuf.Timestamp that the emitted
// timestamp_format codecs use. A time.Time value is represented by its struct with
// field 0 holding the Unix seconds and field 1 the nanoseconds within the second (both as
// 64-bit vectors); locations are ignored (everything is UTC, as in the emitted code).
//
// Formatting is an injective function of the instant (layout class "rfc3339") or of the
// day (layout "2006-01-02"): the result is a string variable named after its key and tagged
// with TimeOf, string equality between two tagged strings of one class is equality of the
// keys, and parsing a tagged string returns the instant exactly (inverse pair). Untagged
// text parses to an arbitrary outcome. Instants are assumed to lie in the range of valid
// Timestamps (years 1..9999) wherever Int arithmetic replaces wrapping arithmetic; UnixNano
// wraps like the real one.

import (
	"crypto/sha1"
	"fmt"
	"go/types"
	"math/big"
	"time"

	"golang.org/x/tools/go/ssa"
)

type TimeKey struct {
	Class string // "rfc3339" | "date"
	Sec   *Term  // KInt: seconds (rfc3339) or day number (date)
	Nsec  *Term  // KInt (rfc3339 only)
}

func intMulC(a *Term, c int64) *Term {
	if a.Const {
		return mkIntBig(new(big.Int).Mul(a.IVal, big.NewInt(c)))
	}
	return app("*", KInt, 0, mkInt(c), a)
}

// intDivC / intModC: floor division by a positive constant (SMT-LIB div/mod are floor for positive divisors).
func intDivC(a *Term, c int64) *Term {
	if a.Const {
		q := new(big.Int)
		m := new(big.Int)
		q.DivMod(a.IVal, big.NewInt(c), m) // Euclidean: floor for positive c
		return mkIntBig(q)
	}
	return app("div", KInt, 0, a, mkInt(c))
}

func intModC(a *Term, c int64) *Term {
	if a.Const {
		q := new(big.Int)
		m := new(big.Int)
		q.DivMod(a.IVal, big.NewInt(c), m)
		return mkIntBig(m)
	}
	return app("mod", KInt, 0, a, mkInt(c))
}

func timeStr(class string, sec, nsec *Term) *Term {
	key := class + "|" + sec.String()
	if nsec != nil {
		key += "|" + nsec.String()
	}
	h := sha1.Sum([]byte(key))
	t := mkVar(fmt.Sprintf("tfmt_%s_%x", class, h[:8]), KStr, 0)
	var alpha [256]bool
	for c := '0'; c <= '9'; c++ {
		alpha[c] = true
	}
	alpha['-'] = true
	if class == "date" {
		t.Exact = 10
		t.MaxLen = 10
	} else {
		for _, c := range "T:Z." {
			alpha[c] = true
		}
		t.MaxLen = 30
	}
	t.Alpha = &alpha
	t.TimeOf = &TimeKey{Class: class, Sec: sec, Nsec: nsec}
	return t
}

func timeKeyEq(a, b *TimeKey) *Term {
	r := Eq(a.Sec, b.Sec)
	if a.Nsec != nil && b.Nsec != nil {
		r = And(r, Eq(a.Nsec, b.Nsec))
	}
	return r
}

func (e *Engine) timeType() types.Type { return e.namedType("time", "Time") }

func (e *Engine) mkTime(sec, nsec *Term) Value {
	s := zero(e.timeType()).(Struct)
	s[0], s[1] = sec, nsec
	return s
}

func timeParts(v Value) (sec, nsec *Term) {
	s := v.(Struct)
	return T(s[0]), T(s[1])
}

func layoutClass(layout string) string {
	switch layout {
	case "2006-01-02":
		return "date"
	case "2006-01-02T15:04:05.999999999Z07:00", "2006-01-02T15:04:05Z07:00":
		return "rfc3339"
	}
	return ""
}

func init() {
	reg("time.Unix", func(e *Engine, fn *ssa.Function, a []Value, s ssa.Instruction) Value {
		sec, nsec := T(a[0]), T(a[1])
		if nsec.Const && signExt(nsec.UVal, 64) >= 0 && signExt(nsec.UVal, 64) < 1e9 {
			return e.mkTime(sec, nsec)
		}
		// normalise: nsec outside [0, 1e9) carries into the seconds
		ni := intOf(nsec, true)
		si := intAdd(intOf(sec, true), intDivC(ni, 1e9))
		return e.mkTime(bvOfInt(si, 64), bvOfInt(intModC(ni, 1e9), 64))
	})
	reg("time.UnixMilli", func(e *Engine, fn *ssa.Function, a []Value, s ssa.Instruction) Value {
		mi := intOf(T(a[0]), true)
		return e.mkTime(bvOfInt(intDivC(mi, 1000), 64), bvOfInt(intMulC(intModC(mi, 1000), 1e6), 64))
	})
	reg("time.Now", func(e *Engine, fn *ssa.Function, a []Value, s ssa.Instruction) Value {
		e.usedFresh = true
		return e.mkTime(e.freshBV("now_sec", 64), mkBV(64, 0))
	})
	reg("(time.Time).UTC", func(e *Engine, fn *ssa.Function, a []Value, s ssa.Instruction) Value { return a[0] })
	reg("(time.Time).Unix", func(e *Engine, fn *ssa.Function, a []Value, s ssa.Instruction) Value {
		sec, _ := timeParts(a[0])
		return sec
	})
	reg("(time.Time).Nanosecond", func(e *Engine, fn *ssa.Function, a []Value, s ssa.Instruction) Value {
		_, nsec := timeParts(a[0])
		return nsec
	})
	reg("(time.Time).UnixMilli", func(e *Engine, fn *ssa.Function, a []Value, s ssa.Instruction) Value {
		sec, nsec := timeParts(a[0])
		return bvOfInt(intAdd(intMulC(intOf(sec, true), 1000), intDivC(intOf(nsec, true), 1e6)), 64)
	})
	reg("(time.Time).UnixNano", func(e *Engine, fn *ssa.Function, a []Value, s ssa.Instruction) Value {
		sec, nsec := timeParts(a[0])
		if sec.Op == "var" && len(sec.Name) > 7 && sec.Name[:7] == "now_sec" {
			return e.freshBV("now", 64)
		}
		// wraps outside 1677..2262 like the real method (int2bv reduces modulo 2^64)
		i := intAdd(intMulC(intOf(sec, true), 1e9), intOf(nsec, true))
		if i.Const {
			return bvOfInt(i, 64)
		}
		return app("(_ int2bv 64)", KBV, 64, i)
	})
	reg("(time.Time).IsZero", func(e *Engine, fn *ssa.Function, a []Value, s ssa.Instruction) Value {
		return tFalse
	})
	reg("(time.Time).Format", func(e *Engine, fn *ssa.Function, a []Value, s ssa.Instruction) Value {
		layout := constStr(e, a[1], "time layout", s)
		sec, nsec := timeParts(a[0])
		switch layoutClass(layout) {
		case "date":
			return timeStr("date", intDivC(intOf(sec, true), 86400), nil)
		case "rfc3339":
			return timeStr("rfc3339", intOf(sec, true), intOf(nsec, true))
		}
		e.abort("unsupported", "time.Format layout %q", layout)
		return nil
	})
	reg("time.Parse", func(e *Engine, fn *ssa.Function, a []Value, s ssa.Instruction) Value {
		tt := e.timeType()
		x := T(a[1])
		lt := T(a[0])
		if lt.Const && x.TimeOf != nil && layoutClass(lt.SVal) == x.TimeOf.Class {
			k := x.TimeOf
			if k.Class == "date" {
				return Tuple{e.mkTime(bvOfInt(intMulC(k.Sec, 86400), 64), mkBV(64, 0)), Iface{}}
			}
			return Tuple{e.mkTime(bvOfInt(k.Sec, 64), bvOfInt(k.Nsec, 64)), Iface{}}
		}
		if lt.Const && x.Const {
			t, err := time.Parse(lt.SVal, x.SVal)
			if err != nil {
				return Tuple{zero(tt), e.newErrorString(mkStr("parsing time: invalid"))}
			}
			return Tuple{e.mkTime(mkBV(64, uint64(t.Unix())), mkBV(64, uint64(t.Nanosecond()))), Iface{}}
		}
		if lt.Const && layoutClass(lt.SVal) == "date" {
			// necessary condition of the date layout: ten characters dddd-dd-dd
			if !e.decide(mustInRe(e, x, `[0-9]{4}-[0-9]{2}-[0-9]{2}`)) {
				return Tuple{zero(tt), e.newErrorString(mkStr("parsing time: invalid"))}
			}
		}
		// arbitrary text: either outcome; a successful parse yields an arbitrary instant
		if e.decide(e.freshBool("timeparse_ok")) {
			e.usedFresh = true
			sec := e.freshBV("parsed_sec", 64)
			if lt.Const && layoutClass(lt.SVal) == "date" {
				// a date without time of day is midnight UTC
				d := intDivC(intOf(sec, true), 86400)
				return Tuple{e.mkTime(bvOfInt(intMulC(d, 86400), 64), mkBV(64, 0)), Iface{}}
			}
			return Tuple{e.mkTime(sec, mkBV(64, 0)), Iface{}}
		}
		return Tuple{zero(tt), e.newErrorString(mkStr("parsing time: invalid"))}
	})
	regVerif("TimeRFC3339", func(e *Engine, fn *ssa.Function, a []Value, s ssa.Instruction) Value {
		return timeStr("rfc3339", intOf(T(a[0]), true), intOf(bvSext(T(a[1]), 64), true))
	})
	regVerif("TimeDate", func(e *Engine, fn *ssa.Function, a []Value, s ssa.Instruction) Value {
		return timeStr("date", intDivC(intOf(T(a[0]), true), 86400), nil)
	})
	// IntRange: an arbitrary integer in [lo, hi] as a mathematical integer (no bit-vector
	// reasoning is needed for arithmetic that stays in range)
	regVerif("IntRange", func(e *Engine, fn *ssa.Function, a []Value, s ssa.Instruction) Value {
		lo, hi := T(a[1]), T(a[2])
		if !lo.Const || !hi.Const {
			e.abort("unsupported", "IntRange needs constant bounds")
		}
		v := e.newVar(constStr(e, a[0], "nondet name", s), KInt, 0, "int64")
		e.addPC(And(intLe(mkInt(signExt(lo.UVal, 64)), v), intLe(v, mkInt(signExt(hi.UVal, 64)))))
		return bvOfInt(v, 64)
	})
	regVerif("IntRange32", func(e *Engine, fn *ssa.Function, a []Value, s ssa.Instruction) Value {
		lo, hi := T(a[1]), T(a[2])
		if !lo.Const || !hi.Const {
			e.abort("unsupported", "IntRange32 needs constant bounds")
		}
		v := e.newVar(constStr(e, a[0], "nondet name", s), KInt, 0, "int32")
		e.addPC(And(intLe(mkInt(signExt(lo.UVal, 32)), v), intLe(v, mkInt(signExt(hi.UVal, 32)))))
		return bvOfInt(v, 32)
	})
	// MulC: a*c for a constant c, as a mathematical product (the caller states that it does not overflow)
	regVerif("MulC", func(e *Engine, fn *ssa.Function, a []Value, s ssa.Instruction) Value {
		c := T(a[1])
		if !c.Const {
			e.abort("unsupported", "MulC needs a constant factor")
		}
		return bvOfInt(intMulC(intOf(T(a[0]), true), signExt(c.UVal, 64)), 64)
	})
	regVerif("FloorDiv", func(e *Engine, fn *ssa.Function, a []Value, s ssa.Instruction) Value {
		c := T(a[1])
		if !c.Const || signExt(c.UVal, 64) <= 0 {
			e.abort("unsupported", "FloorDiv needs a positive constant divisor")
		}
		return bvOfInt(intDivC(intOf(T(a[0]), true), signExt(c.UVal, 64)), 64)
	})
}
