package main

import (
	"encoding/json"
	"fmt"
	"go/types"
	"math"
	"os"
	"regexp"
	"sort"
	"strconv"
	"strings"
	"time"

	"golang.org/x/tools/go/ssa"
)

type Config struct {
	MaxDecisions int
	MaxDepth     int
	MaxSteps     int
	MaxPaths     int
	MapPerm      bool
	InitPkgs     []string // package paths whose init() is executed at the start of each path
	MaxWitness   int
	Verbose      bool
	TimeBudget   time.Duration
	Thorough     bool
	Samples      int // validation samples: models of completed paths with their shown values
	Seed         int64
	PartI, PartN int
}

type Event struct {
	Kind string `json:"kind"`
	Msg  string `json:"msg"`
}

type Witness struct {
	Model     map[string]interface{} `json:"model"`
	Shown     map[string]string      `json:"shown,omitempty"`
	Decisions string                 `json:"decisions"`
	PathCond  []string               `json:"path_condition,omitempty"`
	Where     string                 `json:"where,omitempty"`
	Msg       string                 `json:"msg,omitempty"`
}

type Obligation struct {
	ID        string    `json:"id"`
	Kind      string    `json:"kind"` // assert | expect | no-panic
	Checks    int       `json:"checks"`
	Trivial   int       `json:"trivial"`
	Unsat     int       `json:"unsat"`
	Sat       int       `json:"sat"`
	Unknown   int       `json:"unknown"`
	Witnesses []Witness `json:"witnesses,omitempty"`
	SamplePC  string    `json:"sample_query,omitempty"`
}

type Stats struct {
	Paths           int            `json:"paths"`
	Completed       int            `json:"paths_completed"`
	Aborted         map[string]int `json:"paths_aborted"`
	AbortSamples    map[string]string
	Branches        int `json:"symbolic_branches"`
	UnknownBranches int `json:"unknown_branches"`
	Steps           int `json:"ssa_instructions_executed"`
	Panics          int `json:"panic_paths"`
}

type nondetVar struct {
	Name string // harness-level name with occurrence suffix
	T    *Term
	Go   string // go type name
}

type Engine struct {
	discardUnknown bool // protojson.UnmarshalOptions.DiscardUnknown of the Unmarshal call being modelled
	prog   *ssa.Program
	solver *Solver
	cfg    Config

	// exploration
	work  [][]bool
	stats Stats
	obls  map[string]*Obligation
	reach map[string]int
	funcs map[string]int // function -> instr count (0: intercepted model)
	model map[string]bool
	notes []string

	// per path
	globals    map[*ssa.Global]*Value
	pc         []*Term
	prefix     []bool
	dpos       int
	decided    []bool
	depth      int
	steps      int
	events     []Event
	nondetSeen map[string]int
	vars       []nondetVar
	shown      []shownTerm
	freshCount int
	recovering **goPanic
	initDone   map[*ssa.Package]bool
	extTokens  map[*Value]string
	extTable   map[*Value]map[string]Value // options message cell -> ext name -> value
	genFiles   []*genFile
	side       map[string]interface{} // per-path scratch for models
	stack      []string
	stepCap    int
	seeded     bool
	cur        ssa.Instruction
	bugStack   []string
	usedFresh  bool // a stub made a nondeterministic choice on this path
	doms       map[string]*simpleDom
	pcSet      map[string]bool
	storeLog   []string

	allEvents []Event
	samples   []Witness
}

type shownTerm struct {
	label string
	t     *Term
}

type genFile struct {
	name   *Term
	plugin *Value
	cell   *Value
	lines []*Term
	imps  []string
}

func NewEngine(prog *ssa.Program, solver *Solver, cfg Config) *Engine {
	return &Engine{prog: prog, solver: solver, cfg: cfg,
		obls: map[string]*Obligation{}, reach: map[string]int{}, funcs: map[string]int{}, model: map[string]bool{},
		stats: Stats{Aborted: map[string]int{}, AbortSamples: map[string]string{}}}
}

func (e *Engine) noteFunc(key string, intercepted bool, n int) {
	if intercepted {
		e.model[key] = true
		return
	}
	e.funcs[key] = n
}

func (e *Engine) noteStore(p Ptr, in ssa.Instruction) {}

func (e *Engine) resetPath(prefix []bool) {
	e.globals = map[*ssa.Global]*Value{}
	e.pc = nil
	e.prefix = prefix
	e.dpos = 0
	e.decided = nil
	e.depth = 0
	e.steps = 0
	e.events = nil
	e.nondetSeen = map[string]int{}
	e.vars = nil
	e.shown = nil
	e.freshCount = 0
	e.initDone = map[*ssa.Package]bool{}
	e.extTokens = map[*Value]string{}
	e.extTable = map[*Value]map[string]Value{}
	e.genFiles = nil
	e.side = map[string]interface{}{}
	e.storeLog = nil
	e.stack = nil
	e.doms = map[string]*simpleDom{}
	e.pcSet = map[string]bool{}
	e.usedFresh = false
	e.bugStack = nil
	e.stepCap = 0
}

func (e *Engine) obl(id, kind string) *Obligation {
	o, ok := e.obls[id]
	if !ok {
		o = &Obligation{ID: id, Kind: kind}
		e.obls[id] = o
	}
	return o
}

func decisionsText(d []bool) string {
	var b strings.Builder
	for _, x := range d {
		if x {
			b.WriteByte('1')
		} else {
			b.WriteByte('0')
		}
	}
	return b.String()
}

// Explore runs the harness on every feasible path (DFS by re-execution).
func (e *Engine) Explore(fn *ssa.Function) {
	start := time.Now()
	e.work = [][]bool{{}}
	seededLen := 0
	if e.cfg.PartN > 1 {
		// partition i of n=2^d: the first d decisions are fixed to the bits of i
		var bits []bool
		for n, i := e.cfg.PartN, e.cfg.PartI; n > 1; n, i = n/2, i/2 {
			bits = append(bits, i%2 == 1)
		}
		e.work = [][]bool{bits}
		seededLen = len(bits)
	}
	for len(e.work) > 0 {
		if e.cfg.MaxPaths > 0 && e.stats.Paths >= e.cfg.MaxPaths {
			e.stats.Aborted["path-budget"] += len(e.work)
			e.stats.AbortSamples["path-budget"] = fmt.Sprintf("path budget %d exhausted with %d paths pending", e.cfg.MaxPaths, len(e.work))
			break
		}
		if e.cfg.TimeBudget > 0 && time.Since(start) > e.cfg.TimeBudget {
			e.stats.Aborted["time-budget"] += len(e.work)
			e.stats.AbortSamples["time-budget"] = fmt.Sprintf("time budget %v exhausted with %d paths pending", e.cfg.TimeBudget, len(e.work))
			break
		}
		prefix := e.work[len(e.work)-1]
		e.work = e.work[:len(e.work)-1]
		e.seeded = seededLen > 0 && len(prefix) == seededLen && e.stats.Paths == 0
		e.runPath(fn, prefix)
	}
}

func (e *Engine) runPath(fn *ssa.Function, prefix []bool) {
	e.resetPath(prefix)
	e.stats.Paths++
	defer func() {
		e.stats.Steps += e.steps
		e.allEvents = append(e.allEvents, e.events...)
		r := recover()
		if r == nil {
			e.stats.Completed++
			e.maybeSample()
			return
		}
		switch x := r.(type) {
		case pathEnd:
			if x.kind == "infeasible" || x.kind == "stop" {
				e.stats.Completed++
				return
			}
			e.stats.Aborted[x.kind]++
			if _, ok := e.stats.AbortSamples[x.kind+":"+x.msg]; !ok && len(e.stats.AbortSamples) < 40 {
				e.stats.AbortSamples[x.kind+":"+x.msg] = decisionsText(e.decided)
			}
			if e.cfg.Verbose {
				fmt.Fprintf(os.Stderr, "path %d aborted: %s: %s\n", e.stats.Paths, x.kind, x.msg)
			}
		case *goPanic:
			// an uncaught Go panic in the code under test on a feasible path
			e.stats.Panics++
			e.stats.Completed++
			o := e.obl("no-panic", "no-panic")
			o.Checks++
			o.Sat++
			if len(o.Witnesses) < e.cfg.MaxWitness {
				w := e.witness(e.pc)
				w.Msg = x.msg
				w.Where = x.where
				o.Witnesses = append(o.Witnesses, w)
			}
			if e.cfg.Verbose {
				fmt.Fprintf(os.Stderr, "path %d: Go panic: %s at %s\n", e.stats.Paths, x.msg, x.where)
			}
		default:
			fmt.Fprintf(os.Stderr, "ENGINE BUG at %s: %v\n  stack: %s\n", e.posOf(e.cur), r, strings.Join(e.bugStack, " > "))
			panic(r)
		}
	}()
	for _, p := range e.cfg.InitPkgs {
		pkg := e.prog.ImportedPackage(p)
		if pkg == nil {
			continue // not part of this harness's import closure
		}
		e.runInit(pkg)
	}
	e.callFunction(fn, nil, nil, nil)
}

// maybeSample records a model of the completed path together with the values
// the engine predicts for the harness's Show() calls (translator validation:
// the driver re-executes the model natively and compares).
func (e *Engine) maybeSample() {
	if len(e.samples) >= e.cfg.Samples || len(e.shown) == 0 || e.usedFresh {
		return // paths through nondeterministic stubs are not comparable with one native run
	}
	// spread samples over the exploration: take paths whose index hits a stride
	stride := 1 + int((e.cfg.Seed%7+7)%7)
	if e.stats.Completed%stride != 0 {
		return
	}
	w := e.witness(e.pc)
	if w.Msg != "" {
		return
	}
	w.PathCond = nil
	e.samples = append(e.samples, w)
}

func (e *Engine) runInit(pkg *ssa.Package) {
	if e.initDone[pkg] {
		return
	}
	e.initDone[pkg] = true
	if f := pkg.Func("init"); f != nil && f.Blocks != nil {
		e.callFunction(f, nil, nil, nil)
	}
}

func (e *Engine) initAllowed(pkg *ssa.Package) bool {
	if pkg == nil {
		return false
	}
	for _, p := range e.cfg.InitPkgs {
		if p == pkg.Pkg.Path() {
			return true
		}
	}
	return false
}

// globalInit supplies models for particular package-level variables.
func (e *Engine) globalInit(g *ssa.Global, elem types.Type) (Value, bool) {
	// protobuf extension descriptors: unique tokens identified by name
	if p, ok := elem.(*types.Pointer); ok {
		if n, ok := p.Elem().(*types.Named); ok && n.Obj().Name() == "ExtensionInfo" {
			c := new(Value)
			*c = zero(n)
			e.extTokens[c] = g.Name()
			return Ptr{P: c}, true
		}
	}
	if strings.HasPrefix(g.Name(), "init$guard") {
		return nil, false
	}
	if g.Pkg != nil && g.Pkg.Pkg.Path() == "os" && (g.Name() == "Stderr" || g.Name() == "Stdout" || g.Name() == "Stdin") {
		c := new(Value)
		*c = &Native{Kind: "osfile", Data: g.Name()}
		return Ptr{P: c}, true // writes to it are modelled as no-ops (fmt.Fprint*)
	}
	if g.Pkg != nil && g.Pkg.Pkg.Path() == "encoding/base64" {
		kinds := map[string]string{"StdEncoding": "base64", "RawStdEncoding": "base64raw", "URLEncoding": "base64url", "RawURLEncoding": "base64urlraw"}
		if k, ok := kinds[g.Name()]; ok {
			c := new(Value)
			*c = &Native{Kind: "base64enc", Data: k}
			return Ptr{P: c}, true
		}
	}
	if g.Pkg != nil && g.Pkg.Pkg.Path() == "net/http" && (g.Name() == "DefaultServeMux" || g.Name() == "DefaultClient") {
		if p, ok := elem.(*types.Pointer); ok {
			c := new(Value)
			*c = zero(p.Elem())
			return Ptr{P: c}, true // a fresh default mux / client (no real network in the model)
		}
	}
	if g.Pkg != nil && !e.initAllowed(g.Pkg) && initAssigned(g) {
		e.abort("unsupported", "read of package variable %s whose initialiser is not executed (add a model or -init %s)", g.String(), g.Pkg.Pkg.Path())
	}
	return nil, false
}

var initAssignedCache = map[*ssa.Package]map[*ssa.Global]bool{}

func initAssigned(g *ssa.Global) bool {
	m, ok := initAssignedCache[g.Pkg]
	if !ok {
		m = map[*ssa.Global]bool{}
		var scan func(f *ssa.Function)
		seen := map[*ssa.Function]bool{}
		scan = func(f *ssa.Function) {
			if f == nil || seen[f] {
				return
			}
			seen[f] = true
			for _, b := range f.Blocks {
				for _, in := range b.Instrs {
					switch x := in.(type) {
					case *ssa.Store:
						if gl, ok := x.Addr.(*ssa.Global); ok {
							m[gl] = true
						}
						// stores into fields/elements of a global
						if fa, ok := x.Addr.(*ssa.FieldAddr); ok {
							if gl, ok := fa.X.(*ssa.Global); ok {
								m[gl] = true
							}
						}
						if ia, ok := x.Addr.(*ssa.IndexAddr); ok {
							if gl, ok := ia.X.(*ssa.Global); ok {
								m[gl] = true
							}
						}
					case *ssa.Call:
						if callee, ok := x.Call.Value.(*ssa.Function); ok && callee.Pkg == g.Pkg && strings.HasPrefix(callee.Name(), "init#") {
							scan(callee)
						}
					}
				}
			}
		}
		scan(g.Pkg.Func("init"))
		initAssignedCache[g.Pkg] = m
	}
	return m[g]
}

// ---- nondeterministic inputs ----

var nonIdent = regexp.MustCompile(`[^A-Za-z0-9_]`)

func (e *Engine) newVar(name string, k Kind, w int, goType string) *Term {
	e.nondetSeen[name]++
	full := name
	if n := e.nondetSeen[name]; n > 1 {
		full = fmt.Sprintf("%s#%d", name, n)
	}
	sym := "v_" + nonIdent.ReplaceAllString(full, "_")
	// distinct harness names must map to distinct symbols
	t := mkVar(sym, k, w)
	e.vars = append(e.vars, nondetVar{Name: full, T: t, Go: goType})
	return t
}

// charClassRe turns "a-z0-9_/" into an SMT regular expression for one character.
func charClassRe(spec string) string {
	var parts []string
	b := []byte(spec)
	for i := 0; i < len(b); i++ {
		if i+2 < len(b) && b[i+1] == '-' {
			parts = append(parts, fmt.Sprintf("(re.range %s %s)", smtString(string(b[i])), smtString(string(b[i+2]))))
			i += 2
			continue
		}
		parts = append(parts, fmt.Sprintf("(str.to_re %s)", smtString(string(b[i]))))
	}
	if len(parts) == 1 {
		return parts[0]
	}
	return "(re.union " + strings.Join(parts, " ") + ")"
}

func rawBool(text string) *Term {
	return &Term{Op: "raw", K: KBool, text: text, MaxLen: -1}
}

func (e *Engine) newString(name string, maxLen int, alphabet string) *Term {
	return e.newStringN(name, 0, maxLen, alphabet)
}

func (e *Engine) newStringN(name string, minLen, maxLen int, alphabet string) *Term {
	t := e.newVar(name, KStr, 0, "string")
	t.MaxLen = maxLen
	if minLen == maxLen && minLen > 0 {
		t.Exact = minLen
	}
	cls := `(re.range " " "~")`
	var al [256]bool
	if alphabet != "" {
		cls = charClassRe(alphabet)
		b := []byte(alphabet)
		for i := 0; i < len(b); i++ {
			if i+2 < len(b) && b[i+1] == '-' {
				for c := int(b[i]); c <= int(b[i+2]); c++ {
					al[c] = true
				}
				i += 2
				continue
			}
			al[b[i]] = true
		}
	} else {
		for c := 0x20; c <= 0x7e; c++ {
			al[c] = true
		}
	}
	t.Alpha = &al
	c := &Term{Op: "raw", K: KBool, Args: []*Term{t}, MaxLen: -1,
		text: fmt.Sprintf("(str.in_re %s ((_ re.loop %d %d) %s))", t.Name, minLen, maxLen, cls)}
	e.addPC(c)
	return t
}

// ---- obligations ----

func (e *Engine) witness(asserts []*Term) Witness {
	var want []*Term
	for _, v := range e.vars {
		want = append(want, v.T)
	}
	// shown terms are evaluated through auxiliary equalities
	var extra []*Term
	var shownVars []*Term
	for i, s := range e.shown {
		sv := mkVar(fmt.Sprintf("show!%d", i), s.t.K, s.t.W)
		extra = append(extra, Eq2(sv, s.t))
		shownVars = append(shownVars, sv)
	}
	res, model := e.solver.Check(append(append([]*Term{}, asserts...), extra...), append(append([]*Term{}, want...), shownVars...))
	w := Witness{Model: map[string]interface{}{}, Decisions: decisionsText(e.decided)}
	if res != "sat" {
		w.Msg = "model extraction returned " + res
		return w
	}
	for _, v := range e.vars {
		w.Model[v.Name] = decodeModelValue(model[v.T.Name], v.T, v.Go)
	}
	if len(e.shown) > 0 {
		w.Shown = map[string]string{}
		for i, s := range e.shown {
			w.Shown[s.label] = fmt.Sprint(decodeModelValue(model[shownVars[i].Name], s.t, ""))
		}
	}
	for _, p := range asserts {
		s := p.String()
		if len(s) > 300 {
			s = s[:300] + "…"
		}
		w.PathCond = append(w.PathCond, s)
	}
	if len(w.PathCond) > 30 {
		w.PathCond = append(w.PathCond[:30], fmt.Sprintf("… %d more", len(w.PathCond)-30))
	}
	return w
}

// Eq2 is Eq without Int-form shortcuts (used to bind show variables).
func Eq2(a, b *Term) *Term {
	if a.K == KFP {
		return app("=", KBool, 0, a, b)
	}
	return app("=", KBool, 0, a, b)
}

func decodeModelValue(raw string, t *Term, goType string) interface{} {
	raw = strings.TrimSpace(raw)
	switch t.K {
	case KBool:
		return raw == "true"
	case KStr:
		return decodeSMTString(raw)
	case KInt:
		raw = strings.NewReplacer("(", "", ")", "", " ", "").Replace(raw)
		return raw
	case KBV:
		var u uint64
		if strings.HasPrefix(raw, "#x") {
			u, _ = strconv.ParseUint(raw[2:], 16, 64)
		} else if strings.HasPrefix(raw, "#b") {
			u, _ = strconv.ParseUint(raw[2:], 2, 64)
		} else if strings.HasPrefix(raw, "(_ bv") {
			f := strings.Fields(raw[5:])
			u, _ = strconv.ParseUint(f[0], 10, 64)
		}
		signed := !strings.HasPrefix(goType, "uint")
		if signed {
			return strconv.FormatInt(signExt(u, t.W), 10)
		}
		return strconv.FormatUint(u, 10)
	case KFP:
		return decodeFP(raw, t.W)
	}
	return raw
}

func decodeFP(raw string, w int) interface{} {
	// (fp #b0 #b10000000000 #x0000000000000) | (_ +zero 11 53) | (_ NaN 11 53) ...
	raw = strings.TrimSpace(raw)
	if strings.HasPrefix(raw, "(_ ") {
		switch {
		case strings.Contains(raw, "+zero"):
			return "0"
		case strings.Contains(raw, "-zero"):
			return "-0"
		case strings.Contains(raw, "NaN"):
			return "NaN"
		case strings.Contains(raw, "+oo"):
			return "+Inf"
		case strings.Contains(raw, "-oo"):
			return "-Inf"
		}
	}
	if strings.HasPrefix(raw, "(fp ") {
		f := strings.Fields(strings.TrimSuffix(raw[4:], ")"))
		if len(f) == 3 {
			bits := ""
			for _, p := range f {
				if strings.HasPrefix(p, "#b") {
					bits += p[2:]
				} else if strings.HasPrefix(p, "#x") {
					for _, c := range p[2:] {
						v, _ := strconv.ParseUint(string(c), 16, 8)
						bits += fmt.Sprintf("%04b", v)
					}
				}
			}
			u, _ := strconv.ParseUint(bits, 2, 64)
			if w == 32 {
				return strconv.FormatFloat(float64(math.Float32frombits(uint32(u))), 'g', -1, 32)
			}
			return strconv.FormatFloat(math.Float64frombits(u), 'g', -1, 64)
		}
	}
	return raw
}

// checkObligation decides pc ∧ ¬cond.
func (e *Engine) checkObligation(id, kind string, cond *Term, where string) string {
	o := e.obl(id, kind)
	o.Checks++
	cond = e.simp(cond)
	if cond.Const && cond.BVal {
		o.Trivial++
		o.Unsat++
		return "unsat"
	}
	as := append(append([]*Term{}, e.pc...), Not(cond))
	res, _ := e.solver.Check(as, nil)
	if o.SamplePC == "" {
		var parts []string
		for _, a := range as {
			s := a.String()
			if len(s) > 200 {
				s = s[:200] + "…"
			}
			parts = append(parts, s)
		}
		if len(parts) > 12 {
			parts = append(parts[:6], parts[len(parts)-6:]...)
		}
		o.SamplePC = strings.Join(parts, " ∧ ")
	}
	switch res {
	case "unsat":
		o.Unsat++
	case "sat":
		o.Sat++
		if len(o.Witnesses) < e.cfg.MaxWitness {
			w := e.witness(as)
			w.Where = where
			o.Witnesses = append(o.Witnesses, w)
		}
	default:
		o.Unknown++
	}
	return res
}

// ---- result ----

type Result struct {
	Harness     string                 `json:"harness"`
	Stats       Stats                  `json:"stats"`
	Obligations []*Obligation          `json:"obligations"`
	Reach       map[string]int         `json:"reach"`
	Functions   map[string]int         `json:"functions_encoded"`
	Models      []string               `json:"models_used"`
	Events      []Event                `json:"events,omitempty"`
	Samples     []Witness              `json:"validation_samples,omitempty"`
	Solver      map[string]interface{} `json:"solver"`
	Config      map[string]interface{} `json:"bounds"`
	WallS       float64                `json:"wall_s"`
	AbortInfo   map[string]string      `json:"abort_samples,omitempty"`
}

func (e *Engine) Result(name string, wall time.Duration) *Result {
	r := &Result{Harness: name, Stats: e.stats, Reach: e.reach, Functions: e.funcs, WallS: wall.Seconds()}
	ids := make([]string, 0, len(e.obls))
	for id := range e.obls {
		ids = append(ids, id)
	}
	sort.Strings(ids)
	for _, id := range ids {
		r.Obligations = append(r.Obligations, e.obls[id])
	}
	for m := range e.model {
		r.Models = append(r.Models, m)
	}
	sort.Strings(r.Models)
	seen := map[string]bool{}
	for _, ev := range e.allEvents {
		k := ev.Kind + ev.Msg
		if !seen[k] && len(r.Events) < 50 {
			seen[k] = true
			r.Events = append(r.Events, ev)
		}
	}
	r.Solver = map[string]interface{}{
		"cmd": strings.Join(e.solver.cmdline, " "), "queries": e.solver.Queries, "sat": e.solver.Sat, "unsat": e.solver.Unsat,
		"unknown": e.solver.Unknown, "errors": e.solver.Errors, "cache_hits": e.solver.CacheHits, "time_s": e.solver.Time.Seconds(),
	}
	be := map[string]interface{}{}
	for _, b := range e.solver.backends {
		be[b.name] = map[string]interface{}{"queries": b.Queries, "decided": b.Decided, "time_s": b.Time.Seconds()}
	}
	r.Solver["backends"] = be
	r.Config = map[string]interface{}{
		"max_decisions_per_path": e.cfg.MaxDecisions, "max_call_depth": e.cfg.MaxDepth, "max_steps_per_path": e.cfg.MaxSteps,
		"max_paths": e.cfg.MaxPaths, "map_iteration_order_symbolic": e.cfg.MapPerm,
	}
	r.AbortInfo = e.stats.AbortSamples
	r.Samples = e.samples
	return r
}

func writeJSON(path string, v interface{}) error {
	b, err := json.MarshalIndent(v, "", " ")
	if err != nil {
		return err
	}
	return os.WriteFile(path, b, 0o644)
}
