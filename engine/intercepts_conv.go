package main

// Models of strconv parsers, time.Parse (arbitrary result) and a translator from
// Go regular expressions (regexp/syntax) to SMT-LIB regular expressions, used by
// the harness oracle function zzverif.Matches.

import (
	"fmt"
	"go/types"
	"math/big"
	"regexp"
	"regexp/syntax"
	"strconv"
	"strings"
	"unicode/utf8"

	"golang.org/x/tools/go/ssa"
)

func reChar(r rune) string {
	if r < 0x80 {
		return smtString(string([]byte{byte(r)}))
	}
	return fmt.Sprintf("\"\\u{%x}\"", r)
}

func reToSMT(re *syntax.Regexp) (string, error) {
	switch re.Op {
	case syntax.OpEmptyMatch, syntax.OpBeginText, syntax.OpEndText, syntax.OpBeginLine, syntax.OpEndLine:
		return `(str.to_re "")`, nil
	case syntax.OpLiteral:
		fold := re.Flags&syntax.FoldCase != 0
		if !fold {
			return "(str.to_re " + smtString(string(re.Rune)) + ")", nil
		}
		var parts []string
		for _, r := range re.Rune {
			lo, up := strings.ToLower(string(r)), strings.ToUpper(string(r))
			if lo == up {
				parts = append(parts, "(str.to_re "+smtString(lo)+")")
			} else {
				parts = append(parts, "(re.union (str.to_re "+smtString(lo)+") (str.to_re "+smtString(up)+"))")
			}
		}
		if len(parts) == 1 {
			return parts[0], nil
		}
		return "(re.++ " + strings.Join(parts, " ") + ")", nil
	case syntax.OpCharClass:
		var parts []string
		for i := 0; i+1 < len(re.Rune); i += 2 {
			lo, hi := re.Rune[i], re.Rune[i+1]
			if hi > 0xff {
				hi = 0xff // byte-string model
			}
			if lo > hi {
				continue
			}
			if lo == hi {
				parts = append(parts, "(str.to_re "+reChar(lo)+")")
			} else {
				parts = append(parts, "(re.range "+reChar(lo)+" "+reChar(hi)+")")
			}
		}
		if len(parts) == 0 {
			return "re.none", nil
		}
		if len(parts) == 1 {
			return parts[0], nil
		}
		return "(re.union " + strings.Join(parts, " ") + ")", nil
	case syntax.OpAnyChar, syntax.OpAnyCharNotNL:
		return "re.allchar", nil
	case syntax.OpCapture:
		return reToSMT(re.Sub[0])
	case syntax.OpStar, syntax.OpPlus, syntax.OpQuest:
		s, err := reToSMT(re.Sub[0])
		if err != nil {
			return "", err
		}
		op := map[syntax.Op]string{syntax.OpStar: "re.*", syntax.OpPlus: "re.+", syntax.OpQuest: "re.opt"}[re.Op]
		return "(" + op + " " + s + ")", nil
	case syntax.OpRepeat:
		s, err := reToSMT(re.Sub[0])
		if err != nil {
			return "", err
		}
		if re.Max < 0 {
			return fmt.Sprintf("(re.++ ((_ re.loop %d %d) %s) (re.* %s))", re.Min, re.Min, s, s), nil
		}
		return fmt.Sprintf("((_ re.loop %d %d) %s)", re.Min, re.Max, s), nil
	case syntax.OpConcat, syntax.OpAlternate:
		var parts []string
		for _, sub := range re.Sub {
			s, err := reToSMT(sub)
			if err != nil {
				return "", err
			}
			parts = append(parts, s)
		}
		op := "re.++"
		if re.Op == syntax.OpAlternate {
			op = "re.union"
		}
		if len(parts) == 1 {
			return parts[0], nil
		}
		return "(" + op + " " + strings.Join(parts, " ") + ")", nil
	}
	return "", fmt.Errorf("regexp operator %v has no SMT translation", re.Op)
}

// inRe builds (str.in_re s <pattern>) for a Go (RE2) pattern with full-match semantics.
func inRe(s *Term, pattern string) (*Term, error) {
	re, err := syntax.Parse(pattern, syntax.Perl)
	if err != nil {
		return nil, err
	}
	if r, ok := inReStructural(s, re); ok {
		return r, nil
	}
	smt, err := reToSMT(re)
	if err != nil {
		return nil, err
	}
	return &Term{Op: "raw", K: KBool, Args: []*Term{s}, MaxLen: -1, text: fmt.Sprintf("(str.in_re %s %s)", s.String(), smt)}, nil
}

// reAtoms expands a regexp into a sequence of single-character atoms when every
// match has the same fixed length.
func reAtoms(re *syntax.Regexp) ([]*syntax.Regexp, bool) {
	switch re.Op {
	case syntax.OpEmptyMatch, syntax.OpBeginText, syntax.OpEndText:
		return nil, true
	case syntax.OpLiteral:
		if re.Flags&syntax.FoldCase != 0 {
			return nil, false
		}
		var out []*syntax.Regexp
		for _, r := range re.Rune {
			out = append(out, &syntax.Regexp{Op: syntax.OpLiteral, Rune: []rune{r}})
		}
		return out, true
	case syntax.OpCharClass, syntax.OpAnyChar, syntax.OpAnyCharNotNL:
		return []*syntax.Regexp{re}, true
	case syntax.OpCapture:
		return reAtoms(re.Sub[0])
	case syntax.OpConcat:
		var out []*syntax.Regexp
		for _, sub := range re.Sub {
			a, ok := reAtoms(sub)
			if !ok {
				return nil, false
			}
			out = append(out, a...)
		}
		return out, true
	case syntax.OpRepeat:
		if re.Min != re.Max || re.Min > 64 {
			return nil, false
		}
		a, ok := reAtoms(re.Sub[0])
		if !ok {
			return nil, false
		}
		var out []*syntax.Regexp
		for i := 0; i < re.Min; i++ {
			out = append(out, a...)
		}
		return out, true
	}
	return nil, false
}

// inReStructural splits a fixed-length regular expression over the parts of a
// concatenation whose lengths are known.
func inReStructural(s *Term, re *syntax.Regexp) (*Term, bool) {
	ps := partsOf(s)
	if len(ps) < 2 {
		return nil, false
	}
	atoms, ok := reAtoms(re)
	if !ok {
		return nil, false
	}
	total := 0
	lens := make([]int, len(ps))
	for i, p := range ps {
		n := strLenInt(p)
		if !n.Const {
			return nil, false
		}
		lens[i] = int(n.IVal.Int64())
		total += lens[i]
	}
	if total != len(atoms) {
		return tFalse, true
	}
	r := tTrue
	off := 0
	for i, p := range ps {
		sub := &syntax.Regexp{Op: syntax.OpConcat, Sub: atoms[off : off+lens[i]]}
		off += lens[i]
		if p.Const {
			smtPat := sub.String()
			r = And(r, mkBool(goFullMatch(smtPat, p.SVal)))
			continue
		}
		if lens[i] == 1 && sub.Sub[0].Op == syntax.OpLiteral {
			r = And(r, Eq(p, mkStr(string(sub.Sub[0].Rune))))
			continue
		}
		smt, err := reToSMT(sub)
		if err != nil {
			return nil, false
		}
		r = And(r, &Term{Op: "raw", K: KBool, Args: []*Term{p}, MaxLen: -1, text: fmt.Sprintf("(str.in_re %s %s)", p.String(), smt)})
	}
	return r, true
}

func mustInRe(e *Engine, s *Term, pattern string) *Term {
	t, err := inRe(s, pattern)
	if err != nil {
		e.abort("unsupported", "regexp translation: %v", err)
	}
	return t
}

func (e *Engine) numError(fn string, num *Term) Value {
	t := e.namedType("strconv", "NumError")
	c := new(Value)
	*c = Struct{mkStr(fn), num, e.newErrorString(mkStr("invalid syntax or value out of range"))}
	return Iface{T: types.NewPointer(t), V: Ptr{P: c}}
}

// parseIntModel: contract of strconv.ParseInt/ParseUint for base 10:
// succeeds iff s matches [+-]?[0-9]+ (unsigned: [0-9]+) and the value is in range.
func (e *Engine) parseIntModel(s *Term, bits int, signed bool, fname string) Value {
	if s.Const {
		// concrete: use the real contract directly
		var ok bool
		var v *big.Int
		str := s.SVal
		neg := false
		if signed && len(str) > 0 && (str[0] == '+' || str[0] == '-') {
			neg = str[0] == '-'
			str = str[1:]
		}
		ok = len(str) > 0
		for i := 0; i < len(str); i++ {
			if str[i] < '0' || str[i] > '9' {
				ok = false
			}
		}
		if ok {
			v, _ = new(big.Int).SetString(str, 10)
			if neg {
				v.Neg(v)
			}
			lo, hi := new(big.Int), new(big.Int)
			if signed {
				hi.Lsh(big.NewInt(1), uint(bits-1))
				lo.Neg(hi)
				hi.Sub(hi, big.NewInt(1))
			} else {
				hi.Lsh(big.NewInt(1), uint(bits))
				hi.Sub(hi, big.NewInt(1))
			}
			if v.Cmp(lo) < 0 || v.Cmp(hi) > 0 {
				ok = false
			}
		}
		if !ok {
			return Tuple{mkBV(64, 0), e.numError(fname, s)}
		}
		m := new(big.Int).And(v, new(big.Int).SetUint64(^uint64(0)))
		if signed {
			return Tuple{mkBV(64, m.Uint64()), Iface{}}
		}
		return Tuple{mkBVU(64, m.Uint64()), Iface{}}
	}
	if s.OfBV != nil && s.OfBV.K == KBV && (s.OfBVS == signed || !s.OfBVS) && s.OfBV.W <= bits && !(signed && !s.OfBVS && s.OfBV.W == bits) {
		// Parse(Format(v)) = v and a W-bit value always fits: stay in bit-vectors
		if s.OfBVS {
			return Tuple{bvSext(s.OfBV, 64), Iface{}}
		}
		return Tuple{bvZext(s.OfBV, 64), Iface{}}
	}
	if s.OfInt != nil {
		// Parse(Format(v)) = v (documented inverse pair); only the range can fail
		if e.decide(intRangeOK(s.OfInt, bits, signed)) {
			r := app("(_ int2bv 64)", KBV, 64, s.OfInt)
			r.I = s.OfInt
			return Tuple{r, Iface{}}
		}
		return Tuple{mkBV(64, 0), e.numError(fname, s)}
	}
	pat := `[0-9]+`
	if signed {
		pat = `[+-]?[0-9]+`
	}
	syn := mustInRe(e, s, pat)
	var digits *Term
	neg := tFalse
	if signed {
		first := strAt(s, mkInt(0))
		hasSign := Or(Eq(first, mkStr("+")), Eq(first, mkStr("-")))
		neg = Eq(first, mkStr("-"))
		rest := strSubstr(s, mkInt(1), intSub(strLenInt(s), mkInt(1)))
		digits = Ite(hasSign, rest, s)
	} else {
		digits = s
	}
	mag := app("str.to_int", KInt, 0, digits)
	val := mag
	if signed {
		val = app("ite", KInt, 0, neg, app("-", KInt, 0, mag), mag)
	}
	lo, hi := new(big.Int), new(big.Int)
	if signed {
		hi.Lsh(big.NewInt(1), uint(bits-1))
		lo.Neg(hi)
		hi.Sub(hi, big.NewInt(1))
	} else {
		hi.Lsh(big.NewInt(1), uint(bits))
		hi.Sub(hi, big.NewInt(1))
	}
	inRange := And(app("<=", KBool, 0, mkIntBig(lo), val), app("<=", KBool, 0, val, mkIntBig(hi)))
	// with at most d digits the magnitude is below 10^d: no range check needed
	if s.MaxLen >= 0 {
		lim := new(big.Int).Exp(big.NewInt(10), big.NewInt(int64(s.MaxLen)), nil)
		if lim.Cmp(hi) <= 0 {
			inRange = tTrue
		}
	}
	ok := And(syn, inRange)
	if e.decide(ok) {
		r := app("(_ int2bv 64)", KBV, 64, val)
		r.I = val
		return Tuple{r, Iface{}}
	}
	return Tuple{mkBV(64, 0), e.numError(fname, s)}
}

const floatSurePattern = `[+-]?[0-9]{1,15}(\.[0-9]{1,15})?`
const floatBroadPattern = `[+-]?(([0-9_]+\.?[0-9_]*|\.[0-9_]+)([eE][+-]?[0-9_]+)?|0[xX][0-9a-fA-F_]*\.?[0-9a-fA-F_]*([pP][+-]?[0-9_]+)?|[iI][nN][fF]|[iI][nN][fF][iI][nN][iI][tT][yY]|[nN][aA][nN])`

func init() {
	reg("strconv.ParseInt", func(e *Engine, fn *ssa.Function, a []Value, s ssa.Instruction) Value {
		base, bits := T(a[1]), T(a[2])
		if !base.Const || base.UVal != 10 || !bits.Const {
			e.abort("unsupported", "ParseInt with base/bitSize other than constant 10/n")
		}
		b := int(bits.UVal)
		if b == 0 {
			b = 64
		}
		return e.parseIntModel(T(a[0]), b, true, "ParseInt")
	})
	reg("strconv.ParseUint", func(e *Engine, fn *ssa.Function, a []Value, s ssa.Instruction) Value {
		base, bits := T(a[1]), T(a[2])
		if !base.Const || base.UVal != 10 || !bits.Const {
			e.abort("unsupported", "ParseUint with base/bitSize other than constant 10/n")
		}
		b := int(bits.UVal)
		if b == 0 {
			b = 64
		}
		return e.parseIntModel(T(a[0]), b, false, "ParseUint")
	})
	reg("strconv.Atoi", func(e *Engine, fn *ssa.Function, a []Value, s ssa.Instruction) Value {
		return e.parseIntModel(T(a[0]), 64, true, "Atoi")
	})
	reg("strconv.ParseBool", func(e *Engine, fn *ssa.Function, a []Value, s ssa.Instruction) Value {
		x := T(a[0])
		trues := []string{"1", "t", "T", "TRUE", "true", "True"}
		falses := []string{"0", "f", "F", "FALSE", "false", "False"}
		isT, isF := tFalse, tFalse
		for _, v := range trues {
			isT = Or(isT, Eq(x, mkStr(v)))
		}
		for _, v := range falses {
			isF = Or(isF, Eq(x, mkStr(v)))
		}
		if e.decide(Or(isT, isF)) {
			return Tuple{isT, Iface{}}
		}
		return Tuple{tFalse, e.numError("ParseBool", x)}
	})
	reg("strconv.FormatFloat", func(e *Engine, fn *ssa.Function, a []Value, s ssa.Instruction) Value {
		f, fm, prec, bs := T(a[0]), T(a[1]), T(a[2]), T(a[3])
		if !f.Const || !fm.Const || !prec.Const || !bs.Const {
			e.abort("unsupported", "strconv.FormatFloat on symbolic arguments")
		}
		return mkStr(strconv.FormatFloat(fpVal(f), byte(fm.UVal), int(signExt(prec.UVal, 64)), int(bs.UVal)))
	})
	reg("strconv.ParseFloat", func(e *Engine, fn *ssa.Function, a []Value, s ssa.Instruction) Value {
		x := T(a[0])
		bits := T(a[1])
		w := 64
		if x.Const {
			bs := 64
			if bits.Const && bits.UVal == 32 {
				bs = 32
			}
			f, err := strconv.ParseFloat(x.SVal, bs)
			if err != nil {
				return Tuple{mkFP(64, 0), e.numError("ParseFloat", x)}
			}
			return Tuple{mkFPVal(w, f), Iface{}}
		}
		_ = bits
		sure := mustInRe(e, x, floatSurePattern)
		if e.decide(sure) {
			return Tuple{e.newVarFresh("parsefloat", KFP, 64), Iface{}}
		}
		broad := mustInRe(e, x, floatBroadPattern)
		if !e.decide(broad) {
			return Tuple{mkFP(64, 0), e.numError("ParseFloat", x)}
		}
		// syntactically plausible but not in the sure set (exponents, hex, inf/nan,
		// underscores, very long mantissas): either outcome (range errors, malformed
		// underscores) — both explored
		if e.decide(e.freshBool("parsefloat_ok")) {
			return Tuple{e.newVarFresh("parsefloat", KFP, 64), Iface{}}
		}
		return Tuple{mkFP(64, 0), e.numError("ParseFloat", x)}
	})
	regVerif("Matches", func(e *Engine, fn *ssa.Function, a []Value, s ssa.Instruction) Value {
		x := T(a[0])
		pat := constStr(e, a[1], "pattern", s)
		if x.Const {
			re, err := syntax.Parse(pat, syntax.Perl)
			_ = re
			if err != nil {
				e.abort("unsupported", "bad pattern %q", pat)
			}
			return mkBool(goFullMatch(pat, x.SVal))
		}
		return mustInRe(e, x, pat)
	})
	regVerif("ValidUTF8", func(e *Engine, fn *ssa.Function, a []Value, s ssa.Instruction) Value {
		x := T(a[0])
		if x.Const {
			return mkBool(utf8.ValidString(x.SVal))
		}
		return tTrue // symbolic strings are ASCII (stated alphabet)
	})
}

func (e *Engine) newVarFresh(prefix string, k Kind, w int) *Term {
	e.usedFresh = true
	e.freshCount++
	return mkVar(fmt.Sprintf("%s!%d", prefix, e.freshCount), k, w)
}

func goFullMatch(pat, s string) bool {
	return regexp.MustCompile("^(?:" + pat + ")$").MatchString(s)
}
