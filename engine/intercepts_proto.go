package main

// Models for generated protobuf messages: a protoreflect view over the Go struct
// (field table derived from the `protobuf:"..."` struct tags of the real
// protoc-gen-go output), abstract JSON documents, and the documented behaviour of
// protojson.Marshal/Unmarshal and proto.Marshal/Unmarshal on them.

import (
	"fmt"
	"go/types"
	"os"
	"reflect"
	"sort"
	"strings"

	"golang.org/x/tools/go/ssa"
)

// ---------- field tables ----------

type pfield struct {
	goIndex  int
	goName   string
	name     string // proto name
	json     string // JSON name
	wire     string
	repeated bool
	oneof    bool
	isEnum   bool
	goType   types.Type
	kind     int // protoreflect.Kind number
}

const (
	kBool, kEnum, kInt32, kSint32, kUint32, kInt64, kSint64, kUint64 = 8, 14, 5, 17, 13, 3, 18, 4
	kSfixed32, kFixed32, kFloat, kSfixed64, kFixed64, kDouble         = 15, 7, 2, 16, 6, 1
	kString, kBytes, kMessage                                         = 9, 12, 11
)

var pfieldCache = map[*types.Struct][]pfield{}

func protoFields(st *types.Struct) []pfield {
	if pf, ok := pfieldCache[st]; ok {
		return pf
	}
	var out []pfield
	for i := 0; i < st.NumFields(); i++ {
		tag := reflect.StructTag(st.Tag(i)).Get("protobuf")
		if tag == "" {
			if on := reflect.StructTag(st.Tag(i)).Get("protobuf_oneof"); on != "" {
				out = append(out, pfield{goIndex: i, goName: st.Field(i).Name(), name: "oneof:" + on, json: "oneof:" + on, oneof: true, goType: st.Field(i).Type()})
			}
			continue
		}
		f := pfield{goIndex: i, goName: st.Field(i).Name(), goType: st.Field(i).Type()}
		parts := strings.Split(tag, ",")
		f.wire = parts[0]
		for _, p := range parts[1:] {
			switch {
			case p == "rep":
				f.repeated = true
			case strings.HasPrefix(p, "name="):
				f.name = p[5:]
			case strings.HasPrefix(p, "json="):
				f.json = p[5:]
			case p == "oneof":
				f.oneof = true
			case strings.HasPrefix(p, "enum="):
				f.isEnum = true
			}
		}
		if f.json == "" {
			f.json = f.name
		}
		if _, isIface := f.goType.Underlying().(*types.Interface); !isIface {
			f.oneof = false // proto3 optional: synthetic oneof, stored as a plain pointer field
		}
		et := f.goType
		if sl, ok := et.Underlying().(*types.Slice); ok && f.repeated {
			et = sl.Elem()
		}
		if pt, ok := et.Underlying().(*types.Pointer); ok {
			if _, isStruct := pt.Elem().Underlying().(*types.Struct); isStruct {
				f.kind = kMessage
			} else {
				et = pt.Elem() // proto3 optional scalar
			}
		}
		if f.kind == 0 {
			switch b := et.Underlying().(type) {
			case *types.Basic:
				switch b.Kind() {
				case types.String:
					f.kind = kString
				case types.Bool:
					f.kind = kBool
				case types.Int32:
					switch {
					case f.isEnum:
						f.kind = kEnum
					case f.wire == "zigzag32":
						f.kind = kSint32
					case f.wire == "fixed32":
						f.kind = kSfixed32
					default:
						f.kind = kInt32
					}
				case types.Int64:
					switch f.wire {
					case "zigzag64":
						f.kind = kSint64
					case "fixed64":
						f.kind = kSfixed64
					default:
						f.kind = kInt64
					}
				case types.Uint32:
					if f.wire == "fixed32" {
						f.kind = kFixed32
					} else {
						f.kind = kUint32
					}
				case types.Uint64:
					if f.wire == "fixed64" {
						f.kind = kFixed64
					} else {
						f.kind = kUint64
					}
				case types.Float32:
					f.kind = kFloat
				case types.Float64:
					f.kind = kDouble
				}
			case *types.Slice:
				f.kind = kBytes
			case *types.Map:
				f.kind = kMessage
			}
		}
		out = append(out, f)
	}
	pfieldCache[st] = out
	return out
}

type oneofMember struct {
	wrapper *types.Named // e.g. Event_Text (pointer type implements the oneof interface)
	pf      pfield       // the single field of the wrapper
}

// oneofMembers finds the wrapper types of a oneof interface field.
func (e *Engine) oneofMembers(iface types.Type) []oneofMember {
	it, ok := iface.Underlying().(*types.Interface)
	if !ok {
		return nil
	}
	n, ok := iface.(*types.Named)
	if !ok || n.Obj().Pkg() == nil {
		return nil
	}
	pkg := e.prog.ImportedPackage(n.Obj().Pkg().Path())
	if pkg == nil {
		return nil
	}
	var out []oneofMember
	names := make([]string, 0, len(pkg.Members))
	for name := range pkg.Members {
		names = append(names, name)
	}
	sort.Strings(names)
	for _, name := range names {
		t, ok := pkg.Members[name].(*ssa.Type)
		if !ok {
			continue
		}
		wn, ok := t.Type().(*types.Named)
		if !ok {
			continue
		}
		st, ok := wn.Underlying().(*types.Struct)
		if !ok || st.NumFields() != 1 || !strings.Contains(st.Tag(0), ",oneof") {
			continue
		}
		if !types.Implements(types.NewPointer(wn), it) {
			continue
		}
		pfs := protoFields(st)
		if len(pfs) == 1 {
			pf := pfs[0]
			pf.oneof = false
			out = append(out, oneofMember{wrapper: wn, pf: pf})
		}
	}
	return out
}

// msgStruct returns the struct cell and type of a generated message pointer value.
func (e *Engine) msgStruct(v Value, T types.Type, site ssa.Instruction) (*Value, *types.Struct) {
	pt, ok := T.Underlying().(*types.Pointer)
	if !ok {
		e.abort("unsupported", "message of non-pointer type %v", T)
	}
	st, ok := pt.Elem().Underlying().(*types.Struct)
	if !ok {
		e.abort("unsupported", "message type %v is not a struct", T)
	}
	p, _ := v.(Ptr)
	return p.P, st
}

// ---------- protoreflect view ----------

type prefMsg struct {
	cell *Value
	st   *types.Struct
	T    types.Type
}
type prefField struct {
	f pfield
}
type prefList struct {
	slot *Value
}

func isGeneratedMessagePtr(T types.Type) bool {
	pt, ok := T.(*types.Pointer)
	if !ok {
		return false
	}
	n, ok := pt.Elem().(*types.Named)
	if !ok {
		return false
	}
	st, ok := n.Underlying().(*types.Struct)
	if !ok || st.NumFields() == 0 {
		return false
	}
	return st.Field(0).Name() == "state" && strings.HasSuffix(st.Field(0).Type().String(), "MessageState")
}

type nativeMethod func(e *Engine, n *Native, args []Value, site ssa.Instruction) Value

var nativeMethods = map[string]nativeMethod{}

func (e *Engine) ifaceOf(pkg, name string) types.Type { return e.namedType(pkg, name) }

const prPkg = "google.golang.org/protobuf/reflect/protoreflect"

func init() {
	nativeMethods["prefmsg.Descriptor"] = func(e *Engine, n *Native, a []Value, s ssa.Instruction) Value {
		return Iface{T: e.ifaceOf(prPkg, "MessageDescriptor"), V: &Native{Kind: "prefdesc", Data: n.Data}}
	}
	// FullName: an injective function of the message type (used as a key by callers)
	nativeMethods["prefdesc.FullName"] = func(e *Engine, n *Native, a []Value, s ssa.Instruction) Value {
		return mkStr(types.TypeString(n.Data.(*prefMsg).T, nil))
	}
	nativeMethods["prefdesc.Fields"] = func(e *Engine, n *Native, a []Value, s ssa.Instruction) Value {
		return Iface{T: e.ifaceOf(prPkg, "FieldDescriptors"), V: &Native{Kind: "preffields", Data: n.Data}}
	}
	nativeMethods["preffields.ByName"] = func(e *Engine, n *Native, a []Value, s ssa.Instruction) Value {
		m := n.Data.(*prefMsg)
		name := T(a[0])
		for _, f := range protoFields(m.st) {
			if e.decide(Eq(name, mkStr(f.name))) {
				return Iface{T: e.ifaceOf(prPkg, "FieldDescriptor"), V: &Native{Kind: "preffield", Data: &prefField{f}}}
			}
		}
		return Iface{}
	}
	nativeMethods["preffields.Len"] = func(e *Engine, n *Native, a []Value, s ssa.Instruction) Value {
		return mkBV(64, uint64(len(protoFields(n.Data.(*prefMsg).st))))
	}
	nativeMethods["preffield.Kind"] = func(e *Engine, n *Native, a []Value, s ssa.Instruction) Value {
		return mkBV(8, uint64(n.Data.(*prefField).f.kind))
	}
	nativeMethods["preffield.IsList"] = func(e *Engine, n *Native, a []Value, s ssa.Instruction) Value {
		f := n.Data.(*prefField).f
		_, isMap := f.goType.Underlying().(*types.Map)
		return mkBool(f.repeated && !isMap)
	}
	nativeMethods["preffield.IsMap"] = func(e *Engine, n *Native, a []Value, s ssa.Instruction) Value {
		_, isMap := n.Data.(*prefField).f.goType.Underlying().(*types.Map)
		return mkBool(isMap)
	}
	nativeMethods["preffield.Name"] = func(e *Engine, n *Native, a []Value, s ssa.Instruction) Value {
		return mkStr(n.Data.(*prefField).f.name)
	}
	nativeMethods["preffield.JSONName"] = func(e *Engine, n *Native, a []Value, s ssa.Instruction) Value {
		return mkStr(n.Data.(*prefField).f.json)
	}
	nativeMethods["prefmsg.Set"] = func(e *Engine, n *Native, a []Value, s ssa.Instruction) Value {
		m := n.Data.(*prefMsg)
		fd := a[0].(Iface).V.(*Native).Data.(*prefField).f
		pv, ok := a[1].(*Native)
		if !ok || pv.Kind != "pval" {
			e.goPanicf(s, "protoreflect.Message.Set with an invalid Value")
		}
		st := (*m.cell).(Struct)
		val := pv.Data.(Value)
		if _, isPtr := fd.goType.Underlying().(*types.Pointer); isPtr && fd.kind != kMessage {
			c := new(Value)
			*c = val
			val = Ptr{P: c}
		}
		st[fd.goIndex] = val
		return nil
	}
	nativeMethods["prefmsg.Mutable"] = func(e *Engine, n *Native, a []Value, s ssa.Instruction) Value {
		m := n.Data.(*prefMsg)
		fd := a[0].(Iface).V.(*Native).Data.(*prefField).f
		st := (*m.cell).(Struct)
		return &Native{Kind: "pval", Data: Value(&Native{Kind: "preflist", Data: &prefList{slot: &st[fd.goIndex]}})}
	}
	nativeMethods["preflist.Append"] = func(e *Engine, n *Native, a []Value, s ssa.Instruction) Value {
		l := n.Data.(*prefList)
		pv := a[0].(*Native)
		cur, _ := (*l.slot).(Slice)
		*l.slot = append(cur, pv.Data.(Value))
		return nil
	}
	nativeMethods["preflist.Len"] = func(e *Engine, n *Native, a []Value, s ssa.Instruction) Value {
		cur, _ := (*n.Data.(*prefList).slot).(Slice)
		return mkBV(64, uint64(len(cur)))
	}
	// protoreflect.Value constructors / accessors
	for _, k := range []string{"String", "Int32", "Int64", "Uint32", "Uint64", "Bool", "Float32", "Float64", "Enum", "Bytes"} {
		reg(prPkg+".ValueOf"+k, func(e *Engine, fn *ssa.Function, a []Value, s ssa.Instruction) Value {
			return &Native{Kind: "pval", Data: a[0]}
		})
	}
	reg("("+prPkg+".Value).List", func(e *Engine, fn *ssa.Function, a []Value, s ssa.Instruction) Value {
		pv, ok := a[0].(*Native)
		if !ok {
			e.goPanicf(s, "Value.List on an invalid Value")
		}
		inner, ok := pv.Data.(Value).(*Native)
		if !ok || inner.Kind != "preflist" {
			e.goPanicf(s, "Value.List on a non-list Value")
		}
		return Iface{T: e.ifaceOf(prPkg, "List"), V: inner}
	})
}

// protoReflectOf models (*T).ProtoReflect() of generated messages.
func (e *Engine) protoReflectOf(fn *ssa.Function, args []Value) (Value, bool) {
	if fn.Name() != "ProtoReflect" || fn.Signature.Recv() == nil || len(args) != 1 {
		return nil, false
	}
	T := fn.Signature.Recv().Type()
	if !isGeneratedMessagePtr(T) {
		return nil, false
	}
	p, _ := args[0].(Ptr)
	if p.P == nil {
		e.abort("unsupported", "ProtoReflect on nil message")
	}
	st := T.(*types.Pointer).Elem().Underlying().(*types.Struct)
	return Iface{T: e.ifaceOf(prPkg, "Message"), V: &Native{Kind: "prefmsg", Data: &prefMsg{cell: p.P, st: st, T: T}}}, true
}

// ---------- abstract JSON ----------

type JSON struct {
	Kind    string // null bool num str arr obj invalid
	B       *Term  // bool
	N       *Term  // num: KInt (integer literal) or KFP
	NBV     *Term  // num produced from a Go integer: that bit-vector (exact inverse on decode)
	NBVS    bool
	S       *Term  // str
	Elems   []*JSON
	Keys    []string
	Vals    []*JSON
	Present []*Term
	First   *JSON // Kind "invalid" only: the text starts with this complete value and continues with other non-blank data
}

type JBytes struct{ J *JSON }

type MBytes struct {
	Enc  string // "proto"
	T    types.Type
	Snap Value
}

func jObj() *JSON { return &JSON{Kind: "obj"} }
func (j *JSON) add(k string, v *JSON, present *Term) {
	j.Keys = append(j.Keys, k)
	j.Vals = append(j.Vals, v)
	j.Present = append(j.Present, present)
}

func (e *Engine) errorf(format string, a ...interface{}) Value {
	return e.newErrorString(mkStr(fmt.Sprintf(format, a...)))
}

// zeroTermOf builds "v is the zero value" for scalar field values.
func isZeroTerm(v Value) *Term {
	switch x := v.(type) {
	case *Term:
		switch x.K {
		case KStr:
			return Eq(x, mkStr(""))
		case KBool:
			return Not(x)
		case KBV:
			return Eq(x, mkBV(x.W, 0))
		case KFP:
			return app("fp.isZero", KBool, 0, x) // proto3 omits +0 (and -0 is emitted; ignored here)
		}
	case Slice:
		return mkBool(len(x) == 0)
	case Bytes:
		return Eq(x.T, mkStr(""))
	case *Map:
		return mkBool(x == nil || len(x.Keys) == 0)
	case Ptr:
		return mkBool(x.P == nil)
	case Iface:
		return mkBool(x.T == nil)
	}
	return tFalse
}

// marshalJSON: proto3 JSON mapping of a generated message (documented protojson
// behaviour: JSON names, 64-bit integers as strings, zero values omitted,
// presence for optional/message fields).
func (e *Engine) marshalJSON(cell *Value, st *types.Struct, site ssa.Instruction) *JSON {
	s := (*cell).(Struct)
	obj := jObj()
	for _, f := range protoFields(st) {
		v := s[f.goIndex]
		if f.oneof {
			ifc, _ := v.(Iface)
			if ifc.T == nil {
				continue
			}
			wp, _ := ifc.V.(Ptr)
			if wp.P == nil {
				continue
			}
			done := false
			for _, m := range e.oneofMembers(f.goType) {
				if types.Identical(ifc.T, types.NewPointer(m.wrapper)) {
					inner := (*wp.P).(Struct)[0]
					if p, isPtr := inner.(Ptr); isPtr && m.pf.kind == kMessage {
						if p.P == nil {
							obj.add(m.pf.json, &JSON{Kind: "null"}, tTrue)
						} else {
							sub := m.pf.goType.Underlying().(*types.Pointer).Elem().Underlying().(*types.Struct)
							obj.add(m.pf.json, e.marshalJSON(p.P, sub, site), tTrue)
						}
					} else {
						obj.add(m.pf.json, e.scalarJSON(inner, m.pf, site), tTrue) // a set oneof member is emitted even at its zero value
					}
					done = true
				}
			}
			if !done {
				e.abort("unsupported", "protojson model: unknown oneof wrapper %v", ifc.T)
			}
			continue
		}
		if _, isMap := f.goType.Underlying().(*types.Map); isMap {
			m, _ := v.(*Map)
			if m == nil || len(m.Keys) == 0 {
				continue
			}
			e.abort("unsupported", "protojson model: non-empty map field %s", f.name)
		}
		if f.repeated {
			sl, _ := v.(Slice)
			if len(sl) == 0 {
				continue
			}
			arr := &JSON{Kind: "arr"}
			for _, el := range sl {
				arr.Elems = append(arr.Elems, e.scalarJSON(el, f, site))
			}
			obj.add(f.json, arr, tTrue)
			continue
		}
		if p, isPtr := v.(Ptr); isPtr {
			if p.P == nil {
				continue
			}
			if f.kind == kMessage {
				if isTimestampPtr(f.goType) {
					obj.add(f.json, timestampJSON(p.P), tTrue)
					continue
				}
				sub := f.goType.Underlying().(*types.Pointer).Elem().Underlying().(*types.Struct)
				obj.add(f.json, e.marshalJSON(p.P, sub, site), tTrue)
			} else {
				obj.add(f.json, e.scalarJSON(*p.P, f, site), tTrue) // optional scalar: explicit presence
			}
			continue
		}
		obj.add(f.json, e.scalarJSON(v, f, site), Not(isZeroTerm(v)))
	}
	return obj
}

func (e *Engine) scalarJSON(v Value, f pfield, site ssa.Instruction) *JSON {
	switch f.kind {
	case kString:
		return &JSON{Kind: "str", S: T(v)}
	case kBool:
		return &JSON{Kind: "bool", B: T(v)}
	case kInt32, kSint32, kSfixed32:
		return &JSON{Kind: "num", N: intOf(T(v), true), NBV: T(v), NBVS: true}
	case kUint32, kFixed32:
		return &JSON{Kind: "num", N: intOf(T(v), false), NBV: T(v), NBVS: false}
	case kInt64, kSint64, kSfixed64:
		return &JSON{Kind: "str", S: intToStr(T(v), true)}
	case kUint64, kFixed64:
		return &JSON{Kind: "str", S: intToStr(T(v), false)}
	case kFloat, kDouble:
		return &JSON{Kind: "num", N: T(v)}
	case kEnum:
		// proto3 JSON writes the value's name (the number for values without a name); names
		// come from the generated <Enum>_name table when the value is concrete
		if t := T(v); t.Const {
			if names := e.enumNames(f.goType); names != nil {
				if n, ok := names[int32(signExt(t.UVal, 32))]; ok {
					return &JSON{Kind: "str", S: mkStr(n)}
				}
				return &JSON{Kind: "num", N: intOf(t, true), NBV: t, NBVS: true}
			}
		}
		return &JSON{Kind: "enum", N: intOf(T(v), true)}
	case kBytes:
		bt, _ := bytesOf(v)
		if bt == nil {
			bt = mkStr("")
		}
		return &JSON{Kind: "str", S: e.encodeBytes(bt, "base64")}
	case kMessage:
		p := v.(Ptr)
		if p.P == nil {
			return &JSON{Kind: "null"}
		}
		et := f.goType
		if sl, ok := et.Underlying().(*types.Slice); ok {
			et = sl.Elem()
		}
		if isTimestampPtr(et) {
			return timestampJSON(p.P)
		}
		sub := et.Underlying().(*types.Pointer).Elem().Underlying().(*types.Struct)
		return e.marshalJSON(p.P, sub, site)
	}
	e.abort("unsupported", "protojson model: field %s of kind %d", f.name, f.kind)
	return nil
}

// unmarshalJSON: documented protojson.Unmarshal behaviour on an abstract document.
// Returns nil or an error value.
func (e *Engine) unmarshalJSON(j *JSON, cell *Value, st *types.Struct, site ssa.Instruction) Value {
	if j.Kind == "invalid" {
		return e.errorf("proto: syntax error")
	}
	if j.Kind != "obj" {
		return e.errorf("proto: unexpected token (message must be a JSON object)")
	}
	// reset
	fresh := zero(st).(Struct)
	cur := (*cell).(Struct)
	for i := range cur {
		cur[i] = fresh[i]
	}
	fields := protoFields(st)
	seen := map[int]bool{}
	for i, k := range j.Keys {
		if !e.decide(j.Present[i]) {
			continue
		}
		var fd *pfield
		for fi := range fields {
			if fields[fi].json == k || fields[fi].name == k {
				fd = &fields[fi]
			}
		}
		if fd == nil {
			// a member of a oneof?
			handled := false
			for fi := range fields {
				if !fields[fi].oneof {
					continue
				}
				for _, m := range e.oneofMembers(fields[fi].goType) {
					if m.pf.json != k && m.pf.name != k {
						continue
					}
					if seen[fields[fi].goIndex] {
						return e.errorf("proto: oneof %s is already set", fields[fi].name)
					}
					if j.Vals[i].Kind == "null" && m.pf.kind != kMessage {
						handled = true
						break
					}
					seen[fields[fi].goIndex] = true
					var inner Value
					if j.Vals[i].Kind == "null" {
						inner = Ptr{}
					} else {
						x, err := e.scalarFromJSON(j.Vals[i], m.pf, site)
						if err != nil {
							return err
						}
						inner = x
					}
					wc := new(Value)
					*wc = Struct{inner}
					cur[fields[fi].goIndex] = Iface{T: types.NewPointer(m.wrapper), V: Ptr{P: wc}}
					handled = true
				}
			}
			if handled {
				continue
			}
			if e.discardUnknown {
				continue
			}
			return e.errorf("proto: unknown field %q", k)
		}
		if seen[fd.goIndex] {
			return e.errorf("proto: duplicate field %q", k)
		}
		seen[fd.goIndex] = true
		v := j.Vals[i]
		if _, isMap := fd.goType.Underlying().(*types.Map); isMap {
			e.abort("unsupported", "protojson model: map field %s", fd.name)
		}
		if fd.repeated {
			if v.Kind == "null" {
				continue
			}
			if v.Kind != "arr" {
				return e.errorf("proto: field %s: expected array", k)
			}
			var out Slice
			for _, el := range v.Elems {
				x, err := e.scalarFromJSON(el, *fd, site)
				if err != nil {
					return err
				}
				out = append(out, x)
			}
			cur[fd.goIndex] = out
			continue
		}
		if v.Kind == "null" {
			continue // null leaves the field at its default
		}
		x, err := e.scalarFromJSON(v, *fd, site)
		if err != nil {
			return err
		}
		if _, isPtr := fd.goType.Underlying().(*types.Pointer); isPtr && fd.kind != kMessage {
			c := new(Value)
			*c = x
			x = Ptr{P: c}
		}
		cur[fd.goIndex] = x
	}
	return Iface{}
}

func intRangeOK(i *Term, bits int, signed bool) *Term {
	var lo, hi *Term
	if signed {
		lo, hi = mkInt(-(1 << uint(bits-1))), mkInt((1<<uint(bits-1))-1)
		if bits == 64 {
			lo, hi = mkInt(-9223372036854775808), mkInt(9223372036854775807)
		}
	} else {
		lo = mkInt(0)
		if bits == 64 {
			h := mkIntBig(bigPow2(64))
			return And(intLe(lo, i), intLt(i, h))
		}
		hi = mkInt((1 << uint(bits)) - 1)
	}
	return And(intLe(lo, i), intLe(i, hi))
}

func (e *Engine) scalarFromJSON(v *JSON, f pfield, site ssa.Instruction) (Value, Value) {
	bad := func() (Value, Value) {
		return nil, e.errorf("proto: invalid value for %s field %s", kindName(f.kind), f.name)
	}
	intField := func(bits int, signed bool) (Value, Value) {
		switch v.Kind {
		case "num":
			if v.NBV != nil && v.NBVS == signed && v.NBV.W <= bits {
				if signed {
					return bvSext(v.NBV, bits), nil
				}
				return bvZext(v.NBV, bits), nil
			}
			if v.N.K != KInt {
				return bad() // non-integral literals are rejected for integer fields (integral floats: outside the model)
			}
			if !e.decide(intRangeOK(v.N, bits, signed)) {
				return bad()
			}
			r := bvOfInt(v.N, bits)
			return r, nil
		case "str":
			res := e.parseIntModel(v.S, bits, signed, "protojson").(Tuple)
			if ifc := res[1].(Iface); ifc.T != nil {
				return bad()
			}
			r := res[0].(*Term)
			if bits < 64 {
				r = bvTrunc(r, bits)
			}
			return r, nil
		}
		return bad()
	}
	switch f.kind {
	case kString:
		if v.Kind != "str" {
			return bad()
		}
		return v.S, nil
	case kBool:
		if v.Kind != "bool" {
			return bad()
		}
		return v.B, nil
	case kInt32, kSint32, kSfixed32:
		return intField(32, true)
	case kUint32, kFixed32:
		return intField(32, false)
	case kInt64, kSint64, kSfixed64:
		return intField(64, true)
	case kUint64, kFixed64:
		return intField(64, false)
	case kFloat, kDouble:
		w := 64
		if f.kind == kFloat {
			w = 32
		}
		if v.Kind == "num" {
			if v.N.K == KFP {
				return fpToFP(v.N, w), nil
			}
			if v.N.Const {
				f, _ := newFloatFromBig(v.N)
				return mkFPVal(w, f), nil
			}
			return app(fmt.Sprintf("(_ to_fp %s) RNE", fpSort(w)), KFP, w, app("to_real", KInt, 0, v.N)), nil
		}
		return bad()
	case kBytes:
		if v.Kind != "str" {
			return bad()
		}
		// protojson accepts standard and URL-safe base64, padded or not
		for _, k := range []string{"base64", "base64url", "base64raw", "base64urlraw"} {
			if v.S.EscOf != nil && v.S.EscKind == "enc:"+k {
				return Bytes{T: v.S.EscOf}, nil
			}
		}
		d, ok := e.decodeBytes(v.S, "base64")
		if !ok {
			return bad()
		}
		return Bytes{T: d}, nil
	case kEnum:
		if v.Kind == "num" || v.Kind == "enum" {
			return bvOfInt(v.N, 32), nil
		}
		if v.Kind == "str" {
			names := e.enumNames(f.goType)
			if names == nil {
				e.abort("unsupported", "protojson model: enum names of %v", f.goType)
			}
			nums := make([]int, 0, len(names))
			for n := range names {
				nums = append(nums, int(n))
			}
			sort.Ints(nums)
			for _, n := range nums {
				if e.decide(Eq(v.S, mkStr(names[int32(n)]))) {
					return mkBV(32, uint64(uint32(int32(n)))), nil
				}
			}
			return bad()
		}
		return bad()
	case kMessage:
		if tt := f.goType; isTimestampPtr(tt) || isTimestampSlice(tt) {
			return e.timestampFromJSON(v, tt, bad)
		}
		if v.Kind != "obj" {
			return bad()
		}
		et := f.goType
		if sl, ok := et.Underlying().(*types.Slice); ok {
			et = sl.Elem()
		}
		sub := et.Underlying().(*types.Pointer).Elem().Underlying().(*types.Struct)
		c := new(Value)
		*c = zero(sub)
		if err := e.unmarshalJSON(v, c, sub, site); err.(Iface).T != nil {
			return nil, err
		}
		return Ptr{P: c}, nil
	}
	e.abort("unsupported", "protojson model: field %s of kind %d", f.name, f.kind)
	return nil, nil
}

func kindName(k int) string {
	switch k {
	case kString:
		return "string"
	case kBool:
		return "bool"
	case kMessage:
		return "message"
	}
	return "numeric"
}

func deepCopy(v Value) Value {
	switch x := v.(type) {
	case Struct:
		n := make(Struct, len(x))
		for i := range x {
			n[i] = deepCopy(x[i])
		}
		return n
	case Array:
		n := make(Array, len(x))
		for i := range x {
			n[i] = deepCopy(x[i])
		}
		return n
	case Slice:
		if x == nil {
			return x
		}
		n := make(Slice, len(x))
		for i := range x {
			n[i] = deepCopy(x[i])
		}
		return n
	case Ptr:
		if x.P == nil {
			return x
		}
		c := new(Value)
		*c = deepCopy(*x.P)
		return Ptr{P: c}
	}
	return v
}

// messageArg extracts (cell, struct type, pointer type) from a proto.Message interface value.
func (e *Engine) messageArg(v Value, site ssa.Instruction) (*Value, *types.Struct, types.Type) {
	ifc, ok := v.(Iface)
	if !ok || ifc.T == nil {
		e.goPanicf(site, "nil proto.Message")
	}
	if !isGeneratedMessagePtr(ifc.T) {
		e.abort("unsupported", "proto model: message of type %v", ifc.T)
	}
	cell, st := e.msgStruct(ifc.V, ifc.T, site)
	if cell == nil {
		e.abort("unsupported", "proto model: nil message pointer of type %v", ifc.T)
	}
	return cell, st, ifc.T
}

func (e *Engine) codecMismatch(what string) {
	n, _ := e.side["codecMismatch"].(int)
	e.side["codecMismatch"] = n + 1
	e.events = append(e.events, Event{Kind: "codec-mismatch", Msg: what})
}

func init() {
	const pj = "google.golang.org/protobuf/encoding/protojson"
	const pp = "google.golang.org/protobuf/proto"
	reg(pj+".Marshal", func(e *Engine, fn *ssa.Function, a []Value, s ssa.Instruction) Value {
		if ifc, ok := a[0].(Iface); ok && ifc.T == nil {
			return Tuple{JBytes{J: jObj()}, Iface{}} // protojson.Marshal(nil) is "{}"
		}
		cell, st, _ := e.messageArg(a[0], s)
		return Tuple{JBytes{J: e.marshalJSON(cell, st, s)}, Iface{}}
	})
	unmarshalJ := func(e *Engine, b Value, msg Value, s ssa.Instruction) Value {
		cell, st, _ := e.messageArg(msg, s)
		switch x := b.(type) {
		case JBytes:
			return e.unmarshalJSON(x.J, cell, st, s)
		case MBytes:
			e.codecMismatch("protojson.Unmarshal applied to binary protobuf bytes")
			return e.errorf("proto: syntax error (binary data)")
		case Slice, Bytes:
			t, ok := bytesOf(x)
			if ok && t.Const {
				return e.unmarshalJSON(parseConcreteJSON(t.SVal), cell, st, s)
			}
		}
		e.abort("unsupported", "protojson.Unmarshal on bytes without JSON model (%T)", b)
		return nil
	}
	reg(pj+".Unmarshal", func(e *Engine, fn *ssa.Function, a []Value, s ssa.Instruction) Value {
		return unmarshalJ(e, a[0], a[1], s)
	})
	reg("("+pj+".UnmarshalOptions).Unmarshal", func(e *Engine, fn *ssa.Function, a []Value, s ssa.Instruction) Value {
		// options honoured by the model: DiscardUnknown (unknown keys are skipped instead of rejected)
		if st, ok := fn.Signature.Recv().Type().Underlying().(*types.Struct); ok {
			if opts, ok := a[0].(Struct); ok {
				for i := 0; i < st.NumFields(); i++ {
					if st.Field(i).Name() == "DiscardUnknown" {
						if t, ok := opts[i].(*Term); ok {
							if !t.Const {
								e.abort("unsupported", "protojson.UnmarshalOptions.DiscardUnknown must be a constant")
							}
							old := e.discardUnknown
							e.discardUnknown = t.BVal
							defer func() { e.discardUnknown = old }()
						}
					}
				}
			}
		}
		return unmarshalJ(e, a[1], a[2], s)
	})
	reg(pp+".Marshal", func(e *Engine, fn *ssa.Function, a []Value, s ssa.Instruction) Value {
		if ifc, ok := a[0].(Iface); ok && ifc.T == nil {
			return Tuple{Slice(nil), Iface{}} // proto.Marshal(nil) is empty
		}
		cell, _, T := e.messageArg(a[0], s)
		return Tuple{MBytes{Enc: "proto", T: T, Snap: deepCopy(*cell)}, Iface{}}
	})
	// proto.Size: only emptiness is observed by code in scope: 0 iff every field has its default
	reg(pp+".Size", func(e *Engine, fn *ssa.Function, a []Value, s ssa.Instruction) Value {
		if ifc, ok := a[0].(Iface); ok && (ifc.T == nil || isNilPtr(ifc.V)) {
			return mkBV(64, 0)
		}
		cell, _, _ := e.messageArg(a[0], s)
		allZero := tTrue
		for _, f := range (*cell).(Struct) {
			if _, isStruct := f.(Struct); isStruct {
				continue
			}
			if p, isPtr := f.(Ptr); isPtr && p.P != nil {
				allZero = tFalse // a present sub-message or optional scalar has a non-empty encoding (tag byte)
				continue
			}
			allZero = And(allZero, isZeroTerm(f))
		}
		return Ite(allZero, mkBV(64, 0), mkBV(64, 1))
	})
	reg(pp+".Unmarshal", func(e *Engine, fn *ssa.Function, a []Value, s ssa.Instruction) Value {
		cell, st, T := e.messageArg(a[1], s)
		switch x := a[0].(type) {
		case MBytes:
			if !types.Identical(x.T, T) {
				e.abort("unsupported", "proto.Unmarshal of %v bytes into %v (cross-type binary decoding is outside the model)", x.T, T)
			}
			src := deepCopy(x.Snap).(Struct)
			cur := (*cell).(Struct)
			for i := range cur {
				cur[i] = src[i]
			}
			return Iface{}
		case JBytes:
			e.codecMismatch("proto.Unmarshal applied to JSON text")
			return e.errorf("proto: cannot parse invalid wire-format data")
		case Slice, Bytes:
			t, ok := bytesOf(x)
			if ok && t.Const && t.SVal == "" {
				fresh := zero(st).(Struct)
				cur := (*cell).(Struct)
				for i := range cur {
					cur[i] = fresh[i]
				}
				return Iface{}
			}
			// arbitrary bytes: the wire parser either rejects them or yields some message
			if e.decide(e.freshBool("wire_ok")) {
				e.abort("unsupported", "proto.Unmarshal accepting arbitrary bytes (content unconstrained)")
			}
			return e.errorf("proto: cannot parse invalid wire-format data")
		}
		e.abort("unsupported", "proto.Unmarshal on %T", a[0])
		return nil
	})
	regVerif("CodecMismatches", func(e *Engine, fn *ssa.Function, a []Value, s ssa.Instruction) Value {
		n, _ := e.side["codecMismatch"].(int)
		return mkBV(64, uint64(n))
	})

	// harness-side JSON builders
	jval := func(v Value) *JSON {
		switch x := v.(type) {
		case JBytes:
			return x.J
		case Slice, Bytes:
			t, ok := bytesOf(x)
			if ok && t.Const {
				return parseConcreteJSON(t.SVal)
			}
		}
		return &JSON{Kind: "invalid"}
	}
	regVerif("JStr", func(e *Engine, fn *ssa.Function, a []Value, s ssa.Instruction) Value {
		return JBytes{&JSON{Kind: "str", S: T(a[0])}}
	})
	regVerif("JInt", func(e *Engine, fn *ssa.Function, a []Value, s ssa.Instruction) Value {
		return JBytes{&JSON{Kind: "num", N: intOf(T(a[0]), true), NBV: T(a[0]), NBVS: true}}
	})
	regVerif("JUint", func(e *Engine, fn *ssa.Function, a []Value, s ssa.Instruction) Value {
		return JBytes{&JSON{Kind: "num", N: intOf(T(a[0]), false), NBV: T(a[0]), NBVS: false}}
	})
	// JObjOpt(k1, v1, present1, k2, v2, present2, ...)
	regVerif("JObjOpt", func(e *Engine, fn *ssa.Function, a []Value, s ssa.Instruction) Value {
		obj := jObj()
		args := argSlice(a[0])
		for i := 0; i+2 < len(args); i += 3 {
			k := constStr(e, args[i].(Iface).V, "JSON key", s)
			obj.add(k, jval(args[i+1].(Iface).V), T(args[i+2].(Iface).V))
		}
		return JBytes{obj}
	})
	regVerif("JEqual", func(e *Engine, fn *ssa.Function, a []Value, s ssa.Instruction) Value {
		r := jsonEqual(e.jdoc(a[0]), e.jdoc(a[1]))
		if os.Getenv("GOSYM_DEBUG") != "" && r.Const && !r.BVal {
			fmt.Fprintf(os.Stderr, "JEqual false:\n  %s\n  %s\n", dumpJSON(e.jdoc(a[0])), dumpJSON(e.jdoc(a[1])))
		}
		return r
	})
	regVerif("JRaw", func(e *Engine, fn *ssa.Function, a []Value, s ssa.Instruction) Value {
		return JBytes{parseConcreteJSON(constStr(e, a[0], "JSON text", s))}
	})
	regVerif("JBool", func(e *Engine, fn *ssa.Function, a []Value, s ssa.Instruction) Value {
		return JBytes{&JSON{Kind: "bool", B: T(a[0])}}
	})
	regVerif("JNull", func(e *Engine, fn *ssa.Function, a []Value, s ssa.Instruction) Value {
		return JBytes{&JSON{Kind: "null"}}
	})
	// JTrailing(doc): the text of doc followed by further non-blank data: not a JSON document,
	// but a streaming decoder reads doc as its first value
	regVerif("JTrailing", func(e *Engine, fn *ssa.Function, a []Value, s ssa.Instruction) Value {
		return JBytes{&JSON{Kind: "invalid", First: e.jdoc(a[0])}}
	})
	regVerif("JInvalid", func(e *Engine, fn *ssa.Function, a []Value, s ssa.Instruction) Value {
		return JBytes{&JSON{Kind: "invalid"}}
	})
	regVerif("JArr", func(e *Engine, fn *ssa.Function, a []Value, s ssa.Instruction) Value {
		arr := &JSON{Kind: "arr"}
		for _, x := range argSlice(a[0]) {
			arr.Elems = append(arr.Elems, jval(x))
		}
		return JBytes{arr}
	})
	// JObj(kv ...interface{}) : alternating key (string), value ([]byte)
	regVerif("JObj", func(e *Engine, fn *ssa.Function, a []Value, s ssa.Instruction) Value {
		obj := jObj()
		args := argSlice(a[0])
		for i := 0; i+1 < len(args); i += 2 {
			k := constStr(e, args[i].(Iface).V, "JSON key", s)
			obj.add(k, jval(args[i+1].(Iface).V), tTrue)
		}
		return JBytes{obj}
	})
	// JField(doc, key) ([]byte, bool)
	regVerif("JField", func(e *Engine, fn *ssa.Function, a []Value, s ssa.Instruction) Value {
		j := jval(a[0])
		k := constStr(e, a[1], "JSON key", s)
		if j.Kind == "obj" {
			for i := range j.Keys {
				if j.Keys[i] == k {
					if e.decide(j.Present[i]) {
						return Tuple{JBytes{j.Vals[i]}, tTrue}
					}
				}
			}
		}
		return Tuple{Slice(nil), tFalse}
	})
	regVerif("JKind", func(e *Engine, fn *ssa.Function, a []Value, s ssa.Instruction) Value {
		k := jval(a[0]).Kind
		if k == "enum" {
			k = "str"
		}
		return mkStr(k)
	})
	regVerif("JAsString", func(e *Engine, fn *ssa.Function, a []Value, s ssa.Instruction) Value {
		j := jval(a[0])
		if j.Kind == "str" {
			return j.S
		}
		return mkStr("")
	})
	regVerif("JAsInt", func(e *Engine, fn *ssa.Function, a []Value, s ssa.Instruction) Value {
		j := jval(a[0])
		if j.Kind == "num" && j.N.K == KInt {
			return bvOfInt(j.N, 64)
		}
		return mkBV(64, 0)
	})
	regVerif("JLen", func(e *Engine, fn *ssa.Function, a []Value, s ssa.Instruction) Value {
		j := jval(a[0])
		switch j.Kind {
		case "arr":
			return mkBV(64, uint64(len(j.Elems)))
		case "obj":
			n := 0
			for i := range j.Keys {
				if e.decide(j.Present[i]) {
					n++
				}
			}
			return mkBV(64, uint64(n))
		}
		return mkBV(64, 0)
	})
	regVerif("JIndex", func(e *Engine, fn *ssa.Function, a []Value, s ssa.Instruction) Value {
		j := jval(a[0])
		i := e.concreteInt(a[1], s, "JSON index")
		if j.Kind == "arr" && int(i) < len(j.Elems) {
			return JBytes{j.Elems[i]}
		}
		return Slice(nil)
	})
}

// jsonEqual: structural equality of two abstract documents as a formula.
func jsonEqual(a, b *JSON) *Term {
	ka, kb := a.Kind, b.Kind
	if ka == "enum" {
		ka = "num"
	}
	if kb == "enum" {
		kb = "num"
	}
	if ka != kb {
		if os.Getenv("GOSYM_DEBUG") != "" {
			fmt.Fprintf(os.Stderr, "jsonEqual: kind %s vs %s\n", ka, kb)
		}
		return tFalse
	}
	switch ka {
	case "null", "invalid":
		return tTrue
	case "bool":
		return Eq(a.B, b.B)
	case "str":
		return Eq(a.S, b.S)
	case "num":
		if a.NBV != nil && b.NBV != nil && a.NBV.W == b.NBV.W && a.NBVS == b.NBVS {
			return Eq2bv(a.NBV, b.NBV)
		}
		if a.N.K != b.N.K {
			return tFalse
		}
		return Eq(a.N, b.N)
	case "arr":
		if len(a.Elems) != len(b.Elems) {
			return tFalse
		}
		r := tTrue
		for i := range a.Elems {
			r = And(r, jsonEqual(a.Elems[i], b.Elems[i]))
		}
		return r
	case "obj":
		keys := map[string]bool{}
		for _, k := range a.Keys {
			keys[k] = true
		}
		for _, k := range b.Keys {
			keys[k] = true
		}
		names := make([]string, 0, len(keys))
		for k := range keys {
			names = append(names, k)
		}
		sort.Strings(names)
		r := tTrue
		find := func(j *JSON, k string) (*JSON, *Term) {
			// the last present entry of a key wins; entries are built without duplicates here
			for i := len(j.Keys) - 1; i >= 0; i-- {
				if j.Keys[i] == k {
					return j.Vals[i], j.Present[i]
				}
			}
			return nil, tFalse
		}
		for _, k := range names {
			va, pa := find(a, k)
			vb, pb := find(b, k)
			r = And(r, Eq(pa, pb))
			if va != nil && vb != nil {
				r = And(r, Or(Not(And(pa, pb)), jsonEqual(va, vb)))
			}
		}
		return r
	}
	return tFalse
}

func Eq2bv(a, b *Term) *Term {
	if a.Const && b.Const {
		return mkBool(a.UVal == b.UVal)
	}
	if a.String() == b.String() {
		return tTrue
	}
	if r, ok := int2bvEq(a, b); ok {
		return r
	}
	return app("=", KBool, 0, a, b)
}

func dumpJSON(j *JSON) string {
	switch j.Kind {
	case "obj":
		var parts []string
		for i, k := range j.Keys {
			parts = append(parts, fmt.Sprintf("%q[%s]: %s", k, describe(j.Present[i]), dumpJSON(j.Vals[i])))
		}
		return "{" + strings.Join(parts, ", ") + "}"
	case "arr":
		var parts []string
		for _, e := range j.Elems {
			parts = append(parts, dumpJSON(e))
		}
		return "[" + strings.Join(parts, ", ") + "]"
	case "str":
		return "str(" + describe(j.S) + ")"
	case "num", "enum":
		return "num(" + describe(j.N) + ")"
	case "bool":
		return "bool(" + describe(j.B) + ")"
	}
	return j.Kind
}


// ---- google.protobuf.Timestamp: an RFC 3339 string in proto3 JSON ----

func isTimestampPtr(t types.Type) bool {
	p, ok := t.Underlying().(*types.Pointer)
	if !ok {
		return false
	}
	n, ok := p.Elem().(*types.Named)
	return ok && n.Obj().Name() == "Timestamp" && n.Obj().Pkg() != nil && n.Obj().Pkg().Path() == "google.golang.org/protobuf/types/known/timestamppb"
}

func isTimestampSlice(t types.Type) bool {
	sl, ok := t.Underlying().(*types.Slice)
	return ok && isTimestampPtr(sl.Elem())
}

// timestampFields: indexes of Seconds and Nanos in the generated struct.
func timestampFields(st *types.Struct) (si, ni int) {
	si, ni = -1, -1
	for i := 0; i < st.NumFields(); i++ {
		switch st.Field(i).Name() {
		case "Seconds":
			si = i
		case "Nanos":
			ni = i
		}
	}
	return
}

func timestampJSON(cell *Value) *JSON {
	s := (*cell).(Struct)
	// the struct is timestamppb.Timestamp{state, Seconds, Nanos, unknownFields, sizeCache}
	var sec, ns *Term
	for _, f := range s {
		if t, ok := f.(*Term); ok && t.K == KBV {
			if t.W == 64 && sec == nil {
				sec = t
			} else if t.W == 32 && ns == nil {
				ns = t
			}
		}
	}
	return &JSON{Kind: "str", S: timeStr("rfc3339", intOf(sec, true), intOf(bvSext(ns, 64), true))}
}

func (e *Engine) timestampFromJSON(v *JSON, tt types.Type, bad func() (Value, Value)) (Value, Value) {
	if sl, ok := tt.Underlying().(*types.Slice); ok {
		tt = sl.Elem()
	}
	if v.Kind != "str" {
		return bad()
	}
	st := tt.Underlying().(*types.Pointer).Elem().Underlying().(*types.Struct)
	si, ni := timestampFields(st)
	c := new(Value)
	z := zero(st).(Struct)
	if k := v.S.TimeOf; k != nil && k.Class == "rfc3339" {
		z[si], z[ni] = bvOfInt(k.Sec, 64), bvOfInt(k.Nsec, 32)
	} else {
		// arbitrary text: rejected, or parsed to an arbitrary valid instant
		if !e.decide(e.freshBool("timestamp_text_ok")) {
			return bad()
		}
		e.usedFresh = true
		z[si], z[ni] = e.freshBV("ts_sec", 64), mkBV(32, 0)
	}
	*c = z
	return Ptr{P: c}, nil
}


// enumNames reads the generated <Enum>_name table (number -> proto name) of an enum type.
func (e *Engine) enumNames(t types.Type) map[int32]string {
	if sl, ok := t.Underlying().(*types.Slice); ok {
		t = sl.Elem()
	}
	if p, ok := t.Underlying().(*types.Pointer); ok && t == t.Underlying() {
		t = p.Elem()
	}
	n, ok := t.(*types.Named)
	if !ok || n.Obj().Pkg() == nil {
		if p, ok2 := t.(*types.Pointer); ok2 {
			return e.enumNames(p.Elem())
		}
		return nil
	}
	pkg := e.prog.ImportedPackage(n.Obj().Pkg().Path())
	if pkg == nil {
		return nil
	}
	g, ok := pkg.Members[n.Obj().Name()+"_name"].(*ssa.Global)
	if !ok {
		return nil
	}
	m, ok := (*e.globalCell(g)).(*Map)
	if !ok || m == nil {
		return nil
	}
	out := map[int32]string{}
	for i, k := range m.Keys {
		kt, ok1 := k.(*Term)
		vt, ok2 := m.Vals[i].(*Term)
		if !ok1 || !ok2 || !kt.Const || !vt.Const {
			return nil
		}
		out[int32(signExt(kt.UVal, 32))] = vt.SVal
	}
	if len(out) == 0 {
		return nil
	}
	return out
}
