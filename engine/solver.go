package main

import (
	"bufio"
	"fmt"
	"io"
	"os"
	"os/exec"
	"path/filepath"
	"regexp"
	"sort"
	"strings"
	"time"
)

// Solver answers satisfiability queries with a chain of SMT back ends, each kept
// alive as one process: the first definitive answer (sat/unsat) decides; an
// unknown/timeout/error falls through to the next back end. Default chain:
// z3 4.8.12 (short timeout) -> cvc5 1.4 (Python bindings) -> z3 5.1.0.
type backend struct {
	name      string
	cmdline   []string
	prelude   string
	timeoutMs int
	cmd       *exec.Cmd
	in        io.WriteCloser
	out       *bufio.Reader
	Queries   int
	Decided   int
	Time      time.Duration
}

type Solver struct {
	cmdline  []string
	backends []*backend
	log      io.Writer
	last     *backend

	Queries   int
	Sat       int
	Unsat     int
	Unknown   int
	Errors    int
	Time      time.Duration
	cache     map[string]string
	CacheHits int
}

func cvc5ServerPath() string {
	if p := os.Getenv("GOSYM_CVC5"); p != "" {
		return p
	}
	exe, err := os.Executable()
	if err != nil {
		return "tools/cvc5srv.py"
	}
	return filepath.Join(filepath.Dir(exe), "..", "tools", "cvc5srv.py")
}

func NewSolver(cmdline []string, timeoutMs int, logPath string) (*Solver, error) {
	s := &Solver{cmdline: cmdline, cache: map[string]string{}}
	if logPath != "" {
		f, err := os.Create(logPath)
		if err != nil {
			return nil, err
		}
		s.log = f
	}
	if len(cmdline) == 1 && cmdline[0] == "chain" {
		first := 3000
		if timeoutMs < first {
			first = timeoutMs
		}
		s.backends = []*backend{
			{name: "z3-4.8.12", cmdline: []string{"z3", "-in"}, timeoutMs: first, prelude: "(set-option :produce-models true)\n(set-option :timeout %d)\n"},
			// cvc5 1.4 through its Python bindings: the packaged cvc5 1.0.3 binary answers unsat on
			// satisfiable regular-expression constraints (see tools/cvc5srv.py) and is not trusted
			{name: "cvc5-1.4", cmdline: []string{cvc5ServerPath()}, timeoutMs: timeoutMs, prelude: "(set-option :produce-models true)\n(set-option :tlimit-per %d)\n(set-logic ALL)\n"},
			{name: "z3-5.1.0", cmdline: []string{"z3-new", "-in"}, timeoutMs: timeoutMs, prelude: "(set-option :produce-models true)\n(set-option :timeout %d)\n"},
		}
	} else {
		s.backends = []*backend{{name: cmdline[0], cmdline: cmdline, timeoutMs: timeoutMs, prelude: "(set-option :produce-models true)\n(set-option :timeout %d)\n"}}
	}
	for _, b := range s.backends {
		if err := b.start(); err != nil {
			return nil, err
		}
	}
	return s, nil
}

func (b *backend) start() error {
	b.cmd = exec.Command(b.cmdline[0], b.cmdline[1:]...)
	in, err := b.cmd.StdinPipe()
	if err != nil {
		return err
	}
	out, err := b.cmd.StdoutPipe()
	if err != nil {
		return err
	}
	b.cmd.Stderr = nil
	if err := b.cmd.Start(); err != nil {
		return err
	}
	b.in = in
	b.out = bufio.NewReaderSize(out, 1<<20)
	return nil
}

func (b *backend) restart() {
	if b.cmd != nil && b.cmd.Process != nil {
		b.cmd.Process.Kill()
		b.cmd.Wait()
	}
	if err := b.start(); err != nil {
		panic(err)
	}
}

func (s *Solver) Close() {
	for _, b := range s.backends {
		if b.cmd != nil && b.cmd.Process != nil {
			b.in.Close()
			b.cmd.Process.Kill()
			b.cmd.Wait()
		}
	}
}

func (s *Solver) sendTo(b *backend, line string) {
	if s.log != nil {
		fmt.Fprintln(s.log, "; ->", b.name)
		fmt.Fprintln(s.log, line)
	}
	io.WriteString(b.in, line)
	io.WriteString(b.in, "\n")
}

func (b *backend) readLine() string {
	l, err := b.out.ReadString('\n')
	if err != nil {
		return "(error \"solver died: " + err.Error() + "\")"
	}
	return strings.TrimSpace(l)
}

// readSexp reads one balanced s-expression (possibly multi-line).
func (s *backend) readSexp() string {
	var b strings.Builder
	depth := 0
	started := false
	inStr := false
	for {
		l, err := s.out.ReadString('\n')
		if err != nil {
			return b.String()
		}
		for i := 0; i < len(l); i++ {
			c := l[i]
			if inStr {
				if c == '"' {
					inStr = false
				}
				continue
			}
			switch c {
			case '"':
				inStr = true
			case '(':
				depth++
				started = true
			case ')':
				depth--
			}
		}
		b.WriteString(l)
		if started && depth <= 0 && !inStr {
			return b.String()
		}
		if !started && strings.TrimSpace(l) != "" {
			return b.String()
		}
	}
}

var aliasRef = regexp.MustCompile(`t!\d+`)

// neededAliases returns the alias definitions referenced (transitively) by texts, in creation order.
func neededAliases(texts []string) []aliasDef {
	need := map[int]bool{}
	var visit func(txt string)
	visit = func(txt string) {
		for _, m := range aliasRef.FindAllString(txt, -1) {
			var n int
			fmt.Sscanf(m, "t!%d", &n)
			if n >= 1 && n <= len(aliasDefs) && !need[n] {
				need[n] = true
				visit(aliasDefs[n-1].def)
			}
		}
	}
	for _, t := range texts {
		visit(t)
	}
	var out []aliasDef
	for i := range aliasDefs {
		if need[i+1] {
			out = append(out, aliasDefs[i])
		}
	}
	return out
}

// readLineDeadline reads one response line, killing the solver when it does not
// answer within the deadline.
func (b *backend) readLineDeadline(d time.Duration, cancel <-chan struct{}) (string, bool) {
	ch := make(chan string, 1)
	go func() { ch <- b.readLine() }()
	select {
	case l := <-ch:
		return l, true
	case <-time.After(d):
		b.cmd.Process.Kill()
		<-ch
		return "", false
	case <-cancel:
		b.cmd.Process.Kill()
		<-ch
		return "", false
	}
}

// Check answers "sat"/"unsat"/"unknown" for the conjunction of asserts.
// Every query is sent after (reset) so that the solver runs in its
// non-incremental configuration; the process itself stays alive.
// When wantModel lists variables and the answer is sat, their values are returned.
func (s *Solver) Check(asserts []*Term, wantModel []*Term) (string, map[string]string) {
	texts := make([]string, 0, len(asserts))
	for _, a := range asserts {
		if a.Const {
			if !a.BVal {
				return "unsat", nil
			}
			continue
		}
		texts = append(texts, a.String())
	}
	if len(texts) == 0 && len(wantModel) == 0 {
		return "sat", nil
	}
	key := ""
	if len(wantModel) == 0 {
		st := append([]string{}, texts...)
		sort.Strings(st)
		key = strings.Join(st, "\n")
		if r, ok := s.cache[key]; ok {
			s.CacheHits++
			return r, nil
		}
	}
	start := time.Now()
	s.Queries++
	vars := map[string]*Term{}
	seen := map[*Term]bool{}
	for _, t := range asserts {
		collectVars(t, seen, vars)
	}
	for _, t := range wantModel {
		collectVars(t, seen, vars)
	}
	aliases := neededAliases(texts)
	for _, a := range aliases {
		collectVars(a.t, seen, vars)
	}
	names := make([]string, 0, len(vars))
	for n := range vars {
		names = append(names, n)
	}
	sort.Strings(names)
	var decl strings.Builder
	for _, n := range names {
		v := vars[n]
		fmt.Fprintf(&decl, "(declare-const %s %s)\n", n, sortText(v.K, v.W))
	}
	for _, a := range aliases {
		decl.WriteString(a.def)
		decl.WriteByte('\n')
	}
	for _, t := range texts {
		decl.WriteString("(assert " + t + ")\n")
	}
	decl.WriteString("(check-sat)")
	res := "unknown"
	var model map[string]string
	query := decl.String()
	// ask runs one back end; it returns the verdict (sat/unsat/unknown) and the model
	ask := func(be *backend, done <-chan struct{}) (string, map[string]string) {
		t0 := time.Now()
		be.Queries++
		defer func() { be.Time += time.Since(t0) }()
		s.sendTo(be, "(reset)\n"+fmt.Sprintf(be.prelude, be.timeoutMs)+query)
		r, ok := be.readLineDeadline(time.Duration(be.timeoutMs)*time.Millisecond+8*time.Second, done)
		if !ok {
			be.restart()
			return "unknown", nil
		}
		if strings.HasPrefix(r, "(error") {
			// an (error line means the query was not understood by this back end: inconclusive there
			if s.log != nil {
				fmt.Fprintln(s.log, "; <-", r)
			}
			s.Errors++
			be.restart()
			return "unknown", nil
		}
		if r != "sat" && r != "unsat" {
			return "unknown", nil
		}
		be.Decided++
		var m map[string]string
		if r == "sat" && len(wantModel) > 0 {
			mn := make([]string, 0, len(wantModel))
			for _, v := range wantModel {
				mn = append(mn, v.Name)
			}
			s.sendTo(be, "(get-value ("+strings.Join(mn, " ")+"))")
			m = parseGetValue(be.readSexp())
		}
		return r, m
	}
	// stage 1: primary back end alone
	res, model = ask(s.backends[0], nil)
	// stage 2: the remaining back ends race; the first definitive answer wins
	if res == "unknown" && len(s.backends) > 1 {
		type ans struct {
			r string
			m map[string]string
		}
		rest := s.backends[1:]
		ch := make(chan ans, len(rest))
		done := make(chan struct{})
		for _, be := range rest {
			be := be
			go func() {
				r, m := ask(be, done)
				ch <- ans{r, m}
			}()
		}
		closed := false
		for range rest {
			a := <-ch
			if !closed && (a.r == "sat" || a.r == "unsat") {
				res, model = a.r, a.m
				close(done) // cancels the other back ends (killed and restarted)
				closed = true
			}
		}
		if !closed {
			close(done)
		}
	}
	s.Time += time.Since(start)
	switch res {
	case "sat":
		s.Sat++
	case "unsat":
		s.Unsat++
	default:
		s.Unknown++
		res = "unknown"
	}
	if key != "" && res != "unknown" {
		s.cache[key] = res
	}
	return res, model
}

// parseGetValue parses ((name value) (name value) ...) into raw value texts.
func parseGetValue(txt string) map[string]string {
	m := map[string]string{}
	txt = strings.TrimSpace(txt)
	if !strings.HasPrefix(txt, "(") {
		return m
	}
	// tokenise top-level pairs
	i := 1
	n := len(txt)
	for i < n {
		for i < n && (txt[i] == ' ' || txt[i] == '\n' || txt[i] == '\t' || txt[i] == '\r') {
			i++
		}
		if i >= n || txt[i] != '(' {
			break
		}
		// read pair
		j := i + 1
		for j < n && txt[j] != ' ' && txt[j] != '\n' {
			j++
		}
		name := txt[i+1 : j]
		// value: balanced until closing paren of pair
		k := j
		depth := 1
		inStr := false
		for k < n {
			c := txt[k]
			if inStr {
				if c == '"' {
					if k+1 < n && txt[k+1] == '"' {
						k++
					} else {
						inStr = false
					}
				}
			} else {
				if c == '"' {
					inStr = true
				} else if c == '(' {
					depth++
				} else if c == ')' {
					depth--
					if depth == 0 {
						break
					}
				}
			}
			k++
		}
		m[name] = strings.TrimSpace(txt[j:k])
		i = k + 1
	}
	return m
}

// decodeSMTString turns an SMT-LIB string literal into Go bytes.
func decodeSMTString(lit string) string {
	lit = strings.TrimSpace(lit)
	if len(lit) < 2 || lit[0] != '"' {
		return lit
	}
	body := lit[1 : len(lit)-1]
	var b strings.Builder
	for i := 0; i < len(body); i++ {
		c := body[i]
		if c == '"' && i+1 < len(body) && body[i+1] == '"' {
			b.WriteByte('"')
			i++
			continue
		}
		if c == '\\' && i+1 < len(body) {
			// \u{X...} or \uXXXX or \xXX
			if body[i+1] == 'u' && i+2 < len(body) && body[i+2] == '{' {
				j := strings.IndexByte(body[i:], '}')
				if j > 0 {
					var v int
					fmt.Sscanf(body[i+3:i+j], "%x", &v)
					if v < 256 {
						b.WriteByte(byte(v))
					} else {
						b.WriteString(string(rune(v)))
					}
					i += j
					continue
				}
			}
			if body[i+1] == 'u' && i+5 < len(body) {
				var v int
				if _, err := fmt.Sscanf(body[i+2:i+6], "%x", &v); err == nil {
					if v < 256 {
						b.WriteByte(byte(v))
					} else {
						b.WriteString(string(rune(v)))
					}
					i += 5
					continue
				}
			}
			if body[i+1] == 'x' && i+3 < len(body) {
				var v int
				if _, err := fmt.Sscanf(body[i+2:i+4], "%x", &v); err == nil {
					b.WriteByte(byte(v))
					i += 3
					continue
				}
			}
		}
		b.WriteByte(c)
	}
	return b.String()
}
