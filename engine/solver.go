package main

import (
	"bufio"
	"fmt"
	"io"
	"os"
	"os/exec"
	"regexp"
	"sort"
	"strings"
	"time"
)

// Solver keeps one SMT solver process alive (z3 -in) and answers
// satisfiability queries over a list of assertions with push/pop.
type Solver struct {
	cmdline   []string
	cmd       *exec.Cmd
	in        io.WriteCloser
	out       *bufio.Reader
	declared  map[string]bool
	aliasSent int
	timeoutMs int
	log       io.Writer

	Queries   int
	Sat       int
	Unsat     int
	Unknown   int
	Errors    int
	Time      time.Duration
	cache     map[string]string
	CacheHits int
}

func NewSolver(cmdline []string, timeoutMs int, logPath string) (*Solver, error) {
	s := &Solver{cmdline: cmdline, timeoutMs: timeoutMs, cache: map[string]string{}}
	if logPath != "" {
		f, err := os.Create(logPath)
		if err != nil {
			return nil, err
		}
		s.log = f
	}
	if err := s.start(); err != nil {
		return nil, err
	}
	return s, nil
}

func (s *Solver) start() error {
	s.cmd = exec.Command(s.cmdline[0], s.cmdline[1:]...)
	in, err := s.cmd.StdinPipe()
	if err != nil {
		return err
	}
	out, err := s.cmd.StdoutPipe()
	if err != nil {
		return err
	}
	s.cmd.Stderr = os.Stderr
	if err := s.cmd.Start(); err != nil {
		return err
	}
	s.in = in
	s.out = bufio.NewReaderSize(out, 1<<20)
	s.declared = map[string]bool{}
	s.aliasSent = 0
	return nil
}

func (s *Solver) restart() {
	if s.cmd != nil && s.cmd.Process != nil {
		s.cmd.Process.Kill()
		s.cmd.Wait()
	}
	if err := s.start(); err != nil {
		panic(err)
	}
}

func (s *Solver) Close() {
	if s.cmd != nil && s.cmd.Process != nil {
		s.in.Close()
		s.cmd.Process.Kill()
		s.cmd.Wait()
	}
}

func (s *Solver) send(line string) {
	if s.log != nil {
		fmt.Fprintln(s.log, line)
	}
	io.WriteString(s.in, line)
	io.WriteString(s.in, "\n")
}

func (s *Solver) readLine() string {
	l, err := s.out.ReadString('\n')
	if err != nil {
		return "(error \"solver died: " + err.Error() + "\")"
	}
	return strings.TrimSpace(l)
}

// readSexp reads one balanced s-expression (possibly multi-line).
func (s *Solver) readSexp() string {
	var b strings.Builder
	depth := 0
	started := false
	inStr := false
	for {
		l, err := s.out.ReadString('\n')
		if err != nil {
			return b.String()
		}
		for i := 0; i < len(l); i++ {
			c := l[i]
			if inStr {
				if c == '"' {
					inStr = false
				}
				continue
			}
			switch c {
			case '"':
				inStr = true
			case '(':
				depth++
				started = true
			case ')':
				depth--
			}
		}
		b.WriteString(l)
		if started && depth <= 0 && !inStr {
			return b.String()
		}
		if !started && strings.TrimSpace(l) != "" {
			return b.String()
		}
	}
}

var aliasRef = regexp.MustCompile(`t!\d+`)

// neededAliases returns the alias definitions referenced (transitively) by texts, in creation order.
func neededAliases(texts []string) []aliasDef {
	need := map[int]bool{}
	var visit func(txt string)
	visit = func(txt string) {
		for _, m := range aliasRef.FindAllString(txt, -1) {
			var n int
			fmt.Sscanf(m, "t!%d", &n)
			if n >= 1 && n <= len(aliasDefs) && !need[n] {
				need[n] = true
				visit(aliasDefs[n-1].def)
			}
		}
	}
	for _, t := range texts {
		visit(t)
	}
	var out []aliasDef
	for i := range aliasDefs {
		if need[i+1] {
			out = append(out, aliasDefs[i])
		}
	}
	return out
}

type lineResult struct {
	line string
}

// readWithDeadline reads one response line, killing the solver when it does not
// answer within the deadline (incremental string solving may ignore :timeout).
func (s *Solver) readLineDeadline(d time.Duration) (string, bool) {
	ch := make(chan string, 1)
	go func() { ch <- s.readLine() }()
	select {
	case l := <-ch:
		return l, true
	case <-time.After(d):
		s.cmd.Process.Kill()
		<-ch
		return "", false
	}
}

// Check answers "sat"/"unsat"/"unknown" for the conjunction of asserts.
// Every query is sent after (reset) so that the solver runs in its
// non-incremental configuration; the process itself stays alive.
// When wantModel lists variables and the answer is sat, their values are returned.
func (s *Solver) Check(asserts []*Term, wantModel []*Term) (string, map[string]string) {
	texts := make([]string, 0, len(asserts))
	for _, a := range asserts {
		if a.Const {
			if !a.BVal {
				return "unsat", nil
			}
			continue
		}
		texts = append(texts, a.String())
	}
	if len(texts) == 0 && len(wantModel) == 0 {
		return "sat", nil
	}
	key := ""
	if len(wantModel) == 0 {
		st := append([]string{}, texts...)
		sort.Strings(st)
		key = strings.Join(st, "\n")
		if r, ok := s.cache[key]; ok {
			s.CacheHits++
			return r, nil
		}
	}
	start := time.Now()
	s.Queries++
	vars := map[string]*Term{}
	seen := map[*Term]bool{}
	for _, t := range asserts {
		collectVars(t, seen, vars)
	}
	for _, t := range wantModel {
		collectVars(t, seen, vars)
	}
	aliases := neededAliases(texts)
	for _, a := range aliases {
		collectVars(a.t, seen, vars)
	}
	names := make([]string, 0, len(vars))
	for n := range vars {
		names = append(names, n)
	}
	sort.Strings(names)
	var b strings.Builder
	b.WriteString("(reset)\n(set-option :produce-models true)\n")
	if s.timeoutMs > 0 && strings.Contains(s.cmdline[0], "z3") {
		fmt.Fprintf(&b, "(set-option :timeout %d)\n", s.timeoutMs)
	}
	for _, n := range names {
		v := vars[n]
		fmt.Fprintf(&b, "(declare-const %s %s)\n", n, sortText(v.K, v.W))
	}
	for _, a := range aliases {
		b.WriteString(a.def)
		b.WriteByte('\n')
	}
	for _, t := range texts {
		b.WriteString("(assert " + t + ")\n")
	}
	b.WriteString("(check-sat)")
	s.send(b.String())
	res, ok := s.readLineDeadline(time.Duration(s.timeoutMs)*time.Millisecond + 10*time.Second)
	if !ok {
		fmt.Fprintln(os.Stderr, "SOLVER WATCHDOG: no answer, solver restarted")
		s.restart()
		s.Time += time.Since(start)
		s.Unknown++
		return "unknown", nil
	}
	if strings.HasPrefix(res, "(error") {
		// an (error line means the query was not understood: inconclusive
		fmt.Fprintln(os.Stderr, "SOLVER ERROR:", res)
		s.Errors++
		s.restart()
		s.Time += time.Since(start)
		s.Unknown++
		return "unknown", nil
	}
	var model map[string]string
	if res == "sat" && len(wantModel) > 0 {
		mn := make([]string, 0, len(wantModel))
		for _, v := range wantModel {
			mn = append(mn, v.Name)
		}
		s.send("(get-value (" + strings.Join(mn, " ") + "))")
		txt := s.readSexp()
		model = parseGetValue(txt)
	}
	s.Time += time.Since(start)
	switch res {
	case "sat":
		s.Sat++
	case "unsat":
		s.Unsat++
	default:
		s.Unknown++
		res = "unknown"
	}
	if key != "" && res != "unknown" {
		s.cache[key] = res
	}
	return res, model
}

// parseGetValue parses ((name value) (name value) ...) into raw value texts.
func parseGetValue(txt string) map[string]string {
	m := map[string]string{}
	txt = strings.TrimSpace(txt)
	if !strings.HasPrefix(txt, "(") {
		return m
	}
	// tokenise top-level pairs
	i := 1
	n := len(txt)
	for i < n {
		for i < n && (txt[i] == ' ' || txt[i] == '\n' || txt[i] == '\t' || txt[i] == '\r') {
			i++
		}
		if i >= n || txt[i] != '(' {
			break
		}
		// read pair
		j := i + 1
		for j < n && txt[j] != ' ' && txt[j] != '\n' {
			j++
		}
		name := txt[i+1 : j]
		// value: balanced until closing paren of pair
		k := j
		depth := 1
		inStr := false
		for k < n {
			c := txt[k]
			if inStr {
				if c == '"' {
					if k+1 < n && txt[k+1] == '"' {
						k++
					} else {
						inStr = false
					}
				}
			} else {
				if c == '"' {
					inStr = true
				} else if c == '(' {
					depth++
				} else if c == ')' {
					depth--
					if depth == 0 {
						break
					}
				}
			}
			k++
		}
		m[name] = strings.TrimSpace(txt[j:k])
		i = k + 1
	}
	return m
}

// decodeSMTString turns an SMT-LIB string literal into Go bytes.
func decodeSMTString(lit string) string {
	lit = strings.TrimSpace(lit)
	if len(lit) < 2 || lit[0] != '"' {
		return lit
	}
	body := lit[1 : len(lit)-1]
	var b strings.Builder
	for i := 0; i < len(body); i++ {
		c := body[i]
		if c == '"' && i+1 < len(body) && body[i+1] == '"' {
			b.WriteByte('"')
			i++
			continue
		}
		if c == '\\' && i+1 < len(body) {
			// \u{X...} or \uXXXX or \xXX
			if body[i+1] == 'u' && i+2 < len(body) && body[i+2] == '{' {
				j := strings.IndexByte(body[i:], '}')
				if j > 0 {
					var v int
					fmt.Sscanf(body[i+3:i+j], "%x", &v)
					if v < 256 {
						b.WriteByte(byte(v))
					} else {
						b.WriteString(string(rune(v)))
					}
					i += j
					continue
				}
			}
			if body[i+1] == 'u' && i+5 < len(body) {
				var v int
				if _, err := fmt.Sscanf(body[i+2:i+6], "%x", &v); err == nil {
					if v < 256 {
						b.WriteByte(byte(v))
					} else {
						b.WriteString(string(rune(v)))
					}
					i += 5
					continue
				}
			}
			if body[i+1] == 'x' && i+3 < len(body) {
				var v int
				if _, err := fmt.Sscanf(body[i+2:i+4], "%x", &v); err == nil {
					b.WriteByte(byte(v))
					i += 3
					continue
				}
			}
		}
		b.WriteByte(c)
	}
	return b.String()
}
