package main

import (
	"encoding/base64"
	"encoding/hex"
	"encoding/json"
	"math/big"
	"strings"
)

func bigPow2(n uint) *big.Int { return new(big.Int).Lsh(big.NewInt(1), n) }

func newFloatFromBig(t *Term) (float64, bool) {
	f, _ := new(big.Float).SetInt(t.IVal).Float64()
	return f, true
}

// parseConcreteJSON turns JSON text into an abstract document with constant leaves.
func parseConcreteJSON(text string) *JSON {
	dec := json.NewDecoder(strings.NewReader(text))
	dec.UseNumber()
	var v interface{}
	if err := dec.Decode(&v); err != nil {
		return &JSON{Kind: "invalid"}
	}
	if dec.More() {
		return &JSON{Kind: "invalid"}
	}
	return fromGoJSON(v)
}

func fromGoJSON(v interface{}) *JSON {
	switch x := v.(type) {
	case nil:
		return &JSON{Kind: "null"}
	case bool:
		return &JSON{Kind: "bool", B: mkBool(x)}
	case string:
		return &JSON{Kind: "str", S: mkStr(x)}
	case json.Number:
		if i, ok := new(big.Int).SetString(string(x), 10); ok {
			return &JSON{Kind: "num", N: mkIntBig(i)}
		}
		f, err := x.Float64()
		if err != nil {
			return &JSON{Kind: "invalid"}
		}
		return &JSON{Kind: "num", N: mkFPVal(64, f)}
	case []interface{}:
		a := &JSON{Kind: "arr"}
		for _, e := range x {
			a.Elems = append(a.Elems, fromGoJSON(e))
		}
		return a
	case map[string]interface{}:
		o := jObj()
		for k, e := range x {
			o.add(k, fromGoJSON(e), tTrue)
		}
		return o
	}
	return &JSON{Kind: "invalid"}
}

func encodeConcrete(b, kind string) string {
	switch kind {
	case "base64":
		return base64.StdEncoding.EncodeToString([]byte(b))
	case "base64raw":
		return base64.RawStdEncoding.EncodeToString([]byte(b))
	case "base64url":
		return base64.URLEncoding.EncodeToString([]byte(b))
	case "base64urlraw":
		return base64.RawURLEncoding.EncodeToString([]byte(b))
	case "hex":
		return hex.EncodeToString([]byte(b))
	}
	return b
}

func decodeConcrete(s, kind string) (string, bool) {
	var d []byte
	var err error
	switch kind {
	case "base64":
		d, err = base64.StdEncoding.DecodeString(s)
	case "base64raw":
		d, err = base64.RawStdEncoding.DecodeString(s)
	case "base64url":
		d, err = base64.URLEncoding.DecodeString(s)
	case "base64urlraw":
		d, err = base64.RawURLEncoding.DecodeString(s)
	case "hex":
		d, err = hex.DecodeString(s)
	}
	return string(d), err == nil
}

// renderConcreteJSON renders a document whose leaves are constants (ok=false otherwise).
func renderConcreteJSON(j *JSON) (string, bool) {
	switch j.Kind {
	case "null":
		return "null", true
	case "bool":
		if j.B.Const {
			if j.B.BVal {
				return "true", true
			}
			return "false", true
		}
	case "num":
		if j.N.Const && j.N.K == KInt {
			return j.N.IVal.String(), true
		}
	case "str":
		if j.S.Const {
			b, _ := json.Marshal(j.S.SVal)
			return string(b), true
		}
	case "arr":
		parts := []string{}
		for _, e := range j.Elems {
			s, ok := renderConcreteJSON(e)
			if !ok {
				return "", false
			}
			parts = append(parts, s)
		}
		return "[" + strings.Join(parts, ",") + "]", true
	case "obj":
		parts := []string{}
		for i, k := range j.Keys {
			if !j.Present[i].Const {
				return "", false
			}
			if !j.Present[i].BVal {
				continue
			}
			s, ok := renderConcreteJSON(j.Vals[i])
			if !ok {
				return "", false
			}
			kb, _ := json.Marshal(k)
			parts = append(parts, string(kb)+":"+s)
		}
		return "{" + strings.Join(parts, ",") + "}", true
	}
	return "", false
}
