package main

import (
	"encoding/json"
	"math/big"
	"strings"
)

func bigPow2(n uint) *big.Int { return new(big.Int).Lsh(big.NewInt(1), n) }

func newFloatFromBig(t *Term) (float64, bool) {
	f, _ := new(big.Float).SetInt(t.IVal).Float64()
	return f, true
}

// parseConcreteJSON turns JSON text into an abstract document with constant leaves.
func parseConcreteJSON(text string) *JSON {
	dec := json.NewDecoder(strings.NewReader(text))
	dec.UseNumber()
	var v interface{}
	if err := dec.Decode(&v); err != nil {
		return &JSON{Kind: "invalid"}
	}
	if dec.More() {
		return &JSON{Kind: "invalid"}
	}
	return fromGoJSON(v)
}

func fromGoJSON(v interface{}) *JSON {
	switch x := v.(type) {
	case nil:
		return &JSON{Kind: "null"}
	case bool:
		return &JSON{Kind: "bool", B: mkBool(x)}
	case string:
		return &JSON{Kind: "str", S: mkStr(x)}
	case json.Number:
		if i, ok := new(big.Int).SetString(string(x), 10); ok {
			return &JSON{Kind: "num", N: mkIntBig(i)}
		}
		f, err := x.Float64()
		if err != nil {
			return &JSON{Kind: "invalid"}
		}
		return &JSON{Kind: "num", N: mkFPVal(64, f)}
	case []interface{}:
		a := &JSON{Kind: "arr"}
		for _, e := range x {
			a.Elems = append(a.Elems, fromGoJSON(e))
		}
		return a
	case map[string]interface{}:
		o := jObj()
		for k, e := range x {
			o.add(k, fromGoJSON(e), tTrue)
		}
		return o
	}
	return &JSON{Kind: "invalid"}
}
