package main

// Model of encoding/json on abstract JSON documents (see intercepts_proto.go):
// json.Marshal / json.Unmarshal for the value shapes the emitted codecs use
// (map[string]json.RawMessage, scalars, slices, generated message structs through
// their `json:"..."` tags, json.Marshaler / json.Unmarshaler dispatch).

import (
	"fmt"
	"go/types"
	"reflect"
	"strings"

	"golang.org/x/tools/go/ssa"
)

func (e *Engine) jdoc(v Value) *JSON {
	switch x := v.(type) {
	case JBytes:
		return x.J
	case Slice, Bytes:
		t, ok := bytesOf(x)
		if ok && t.Const {
			return parseConcreteJSON(t.SVal)
		}
		if ok && t.JSONOf != nil {
			return t.JSONOf.(*JSON)
		}
	case nil:
		return &JSON{Kind: "invalid"}
	}
	return &JSON{Kind: "invalid"}
}

func (e *Engine) methodNamed(T types.Type, name string) *ssa.Function {
	sel := e.prog.MethodSets.MethodSet(T).Lookup(nil, name)
	if sel == nil {
		return nil
	}
	return e.prog.MethodValue(sel)
}

func isRawMessage(t types.Type) bool {
	n, ok := t.(*types.Named)
	return ok && n.Obj().Name() == "RawMessage" && n.Obj().Pkg() != nil && n.Obj().Pkg().Path() == "encoding/json"
}

type jsonField struct {
	idx       int
	name      string
	omitempty bool
	typ       types.Type
}

func jsonFieldsOf(st *types.Struct) []jsonField {
	var out []jsonField
	for i := 0; i < st.NumFields(); i++ {
		f := st.Field(i)
		if !f.Exported() {
			continue
		}
		tag := reflect.StructTag(st.Tag(i)).Get("json")
		if tag == "-" {
			continue
		}
		name, opts, _ := strings.Cut(tag, ",")
		if name == "" {
			name = f.Name()
		}
		out = append(out, jsonField{idx: i, name: name, omitempty: strings.Contains(opts, "omitempty"), typ: f.Type()})
	}
	return out
}

// jsonMarshalValue: encoding/json.Marshal of an engine value of static type T.
func (e *Engine) jsonMarshalValue(v Value, Tp types.Type, site ssa.Instruction, depth int) (*JSON, Value) {
	if depth > 8 {
		e.abort("bound", "json.Marshal nesting")
	}
	// json.Marshaler (value or pointer receiver)
	if _, isPtr := Tp.Underlying().(*types.Pointer); isPtr || types.IsInterface(Tp) == false {
		if m := e.methodNamed(Tp, "MarshalJSON"); m != nil && !isRawMessage(Tp) {
			if p, ok := v.(Ptr); ok && p.P == nil {
				return &JSON{Kind: "null"}, nil
			}
			res := e.call(m, []Value{v}, site).(Tuple)
			if ifc := res[1].(Iface); ifc.T != nil {
				return nil, res[1]
			}
			return e.jdoc(res[0]), nil
		}
	}
	if isRawMessage(Tp) {
		if s, ok := v.(Slice); ok && s == nil {
			return &JSON{Kind: "null"}, nil
		}
		return e.jdoc(v), nil
	}
	switch u := Tp.Underlying().(type) {
	case *types.Basic:
		t := T(v)
		switch {
		case u.Info()&types.IsString != 0:
			return &JSON{Kind: "str", S: t}, nil
		case u.Info()&types.IsBoolean != 0:
			return &JSON{Kind: "bool", B: t}, nil
		case u.Info()&types.IsInteger != 0:
			_, signed := bvWidthOf(u)
			return &JSON{Kind: "num", N: intOf(t, signed), NBV: t, NBVS: signed}, nil
		case u.Info()&types.IsFloat != 0:
			return &JSON{Kind: "num", N: t}, nil
		}
	case *types.Pointer:
		p := v.(Ptr)
		if p.P == nil {
			return &JSON{Kind: "null"}, nil
		}
		return e.jsonMarshalValue(*p.P, u.Elem(), site, depth+1)
	case *types.Interface:
		ifc := v.(Iface)
		if ifc.T == nil {
			return &JSON{Kind: "null"}, nil
		}
		return e.jsonMarshalValue(ifc.V, ifc.T, site, depth+1)
	case *types.Slice:
		if b, ok := u.Elem().Underlying().(*types.Basic); ok && b.Kind() == types.Uint8 {
			bt, _ := bytesOf(v)
			if s, isS := v.(Slice); isS && s == nil {
				return &JSON{Kind: "null"}, nil
			}
			return &JSON{Kind: "str", S: e.encodeBytes(bt, "base64")}, nil
		}
		s, _ := v.(Slice)
		if s == nil {
			return &JSON{Kind: "null"}, nil
		}
		arr := &JSON{Kind: "arr"}
		for _, el := range s {
			j, err := e.jsonMarshalValue(el, u.Elem(), site, depth+1)
			if err != nil {
				return nil, err
			}
			arr.Elems = append(arr.Elems, j)
		}
		return arr, nil
	case *types.Map:
		m, _ := v.(*Map)
		if m == nil {
			return &JSON{Kind: "null"}, nil
		}
		obj := jObj()
		for i, k := range m.Keys {
			kt := T(k)
			if !kt.Const {
				e.abort("unsupported", "json.Marshal of a map with symbolic keys")
			}
			j, err := e.jsonMarshalValue(m.Vals[i], u.Elem(), site, depth+1)
			if err != nil {
				return nil, err
			}
			obj.add(kt.SVal, j, tTrue)
		}
		return obj, nil
	case *types.Struct:
		sv := v.(Struct)
		obj := jObj()
		for _, f := range jsonFieldsOf(u) {
			fv := sv[f.idx]
			if _, isI := f.typ.Underlying().(*types.Interface); isI {
				if ifc := fv.(Iface); ifc.T == nil && f.omitempty {
					continue
				}
			}
			j, err := e.jsonMarshalValue(fv, f.typ, site, depth+1)
			if err != nil {
				return nil, err
			}
			present := tTrue
			if f.omitempty {
				present = Not(isZeroTerm(fv))
			}
			obj.add(f.name, j, present)
		}
		return obj, nil
	}
	e.abort("unsupported", "json.Marshal of type %v", Tp)
	return nil, nil
}

func (e *Engine) jsonTypeError(kind string, Tp types.Type) Value {
	return e.errorf("json: cannot unmarshal %s into Go value of type %v", kind, Tp)
}

// jsonUnmarshalInto: encoding/json.Unmarshal of document j into the cell of static type T.
func (e *Engine) jsonUnmarshalInto(j *JSON, cell *Value, Tp types.Type, site ssa.Instruction, depth int) Value {
	if depth > 8 {
		e.abort("bound", "json.Unmarshal nesting")
	}
	if j.Kind == "invalid" {
		return e.errorf("invalid character in JSON")
	}
	if isRawMessage(Tp) {
		*cell = JBytes{j}
		return Iface{}
	}
	switch u := Tp.Underlying().(type) {
	case *types.Pointer:
		if j.Kind == "null" {
			*cell = Ptr{}
			return Iface{}
		}
		if m := e.methodNamed(Tp, "UnmarshalJSON"); m != nil {
			p := (*cell).(Ptr)
			if p.P == nil {
				c := new(Value)
				*c = zero(u.Elem())
				p = Ptr{P: c}
				*cell = p
			}
			return e.call(m, []Value{p, JBytes{j}}, site)
		}
		p := (*cell).(Ptr)
		if p.P == nil {
			c := new(Value)
			*c = zero(u.Elem())
			p = Ptr{P: c}
			*cell = p
		}
		return e.jsonUnmarshalInto(j, p.P, u.Elem(), site, depth+1)
	case *types.Basic:
		if j.Kind == "null" {
			return Iface{}
		}
		switch {
		case u.Info()&types.IsString != 0:
			if j.Kind != "str" {
				return e.jsonTypeError(j.Kind, Tp)
			}
			*cell = j.S
			return Iface{}
		case u.Info()&types.IsBoolean != 0:
			if j.Kind != "bool" {
				return e.jsonTypeError(j.Kind, Tp)
			}
			*cell = j.B
			return Iface{}
		case u.Info()&types.IsInteger != 0:
			w, signed := bvWidthOf(u)
			if j.Kind != "num" || j.N.K != KInt {
				return e.jsonTypeError(j.Kind, Tp) // strings, and numbers with fraction/exponent, are rejected for integer targets
			}
			if j.NBV != nil && j.NBVS == signed && j.NBV.W <= w {
				if signed {
					*cell = bvSext(j.NBV, w)
				} else {
					*cell = bvZext(j.NBV, w)
				}
				return Iface{}
			}
			if !e.decide(intRangeOK(j.N, w, signed)) {
				return e.jsonTypeError("number (out of range)", Tp)
			}
			*cell = bvOfInt(j.N, w)
			return Iface{}
		case u.Info()&types.IsFloat != 0:
			if j.Kind != "num" {
				return e.jsonTypeError(j.Kind, Tp)
			}
			w := 64
			if u.Kind() == types.Float32 {
				w = 32
			}
			if j.N.K == KFP {
				*cell = fpToFP(j.N, w)
			} else if j.N.Const {
				f, _ := newFloatFromBig(j.N)
				*cell = mkFPVal(w, f)
			} else {
				*cell = app(fmt.Sprintf("(_ to_fp %s) RNE", fpSort(w)), KFP, w, app("to_real", KInt, 0, j.N))
			}
			return Iface{}
		}
	case *types.Slice:
		if j.Kind == "null" {
			*cell = Slice(nil)
			return Iface{}
		}
		if b, ok := u.Elem().Underlying().(*types.Basic); ok && b.Kind() == types.Uint8 {
			if j.Kind != "str" {
				return e.jsonTypeError(j.Kind, Tp)
			}
			dec, ok := e.decodeBytes(j.S, "base64")
			if !ok {
				return e.errorf("illegal base64 data")
			}
			*cell = Bytes{T: dec}
			return Iface{}
		}
		if j.Kind != "arr" {
			return e.jsonTypeError(j.Kind, Tp)
		}
		out := make(Slice, len(j.Elems))
		for i, el := range j.Elems {
			out[i] = zero(u.Elem())
			if err := e.jsonUnmarshalInto(el, &out[i], u.Elem(), site, depth+1); err.(Iface).T != nil {
				return err
			}
		}
		*cell = out
		return Iface{}
	case *types.Map:
		if j.Kind == "null" {
			return Iface{}
		}
		if j.Kind != "obj" {
			return e.jsonTypeError(j.Kind, Tp)
		}
		m, _ := (*cell).(*Map)
		if m == nil {
			m = &Map{}
			*cell = m
		}
		for i, k := range j.Keys {
			if !e.decide(j.Present[i]) {
				continue
			}
			var slot Value = zero(u.Elem())
			if err := e.jsonUnmarshalInto(j.Vals[i], &slot, u.Elem(), site, depth+1); err.(Iface).T != nil {
				return err
			}
			e.mapUpdate(m, mkStr(k), slot)
		}
		return Iface{}
	case *types.Struct:
		if j.Kind == "null" {
			return Iface{}
		}
		if j.Kind != "obj" {
			return e.jsonTypeError(j.Kind, Tp)
		}
		sv := (*cell).(Struct)
		fields := jsonFieldsOf(u)
		for i, k := range j.Keys {
			if !e.decide(j.Present[i]) {
				continue
			}
			var jf *jsonField
			for fi := range fields {
				if fields[fi].name == k {
					jf = &fields[fi]
				}
			}
			if jf == nil {
				for fi := range fields {
					if strings.EqualFold(fields[fi].name, k) {
						jf = &fields[fi]
					}
				}
			}
			if jf == nil {
				continue // unknown keys are ignored by encoding/json
			}
			if _, isI := jf.typ.Underlying().(*types.Interface); isI {
				if j.Vals[i].Kind == "null" {
					continue
				}
				return e.jsonTypeError(j.Vals[i].Kind, jf.typ)
			}
			if err := e.jsonUnmarshalInto(j.Vals[i], &sv[jf.idx], jf.typ, site, depth+1); err.(Iface).T != nil {
				return err
			}
		}
		return Iface{}
	case *types.Interface:
		e.abort("unsupported", "json.Unmarshal into interface type %v", Tp)
	}
	e.abort("unsupported", "json.Unmarshal into type %v", Tp)
	return nil
}

// ---- opaque byte encodings (base64 variants, hex) as inverse pairs ----

func (e *Engine) encodeBytes(b *Term, kind string) *Term {
	if b.Const {
		return mkStr(encodeConcrete(b.SVal, kind))
	}
	e.freshCount++
	r := &Term{Op: "var", K: KStr, Name: fmt.Sprintf("%s!%d", strings.ReplaceAll(kind, "-", "_"), e.freshCount), MaxLen: -1}
	r.EscOf, r.EscKind = b, "enc:"+kind
	// the encoding of a byte string is empty iff the byte string is empty
	e.addPC(Eq(Eq(r, mkStr("")), Eq(b, mkStr(""))))
	return r
}

func (e *Engine) decodeBytes(s *Term, kind string) (*Term, bool) {
	if s.Const {
		d, ok := decodeConcrete(s.SVal, kind)
		return mkStr(d), ok
	}
	if s.EscOf != nil && s.EscKind == "enc:"+kind {
		return s.EscOf, true // Decode(Encode(b)) = b
	}
	// arbitrary text: it either is a valid encoding of some bytes or it is not
	if e.decide(e.freshBool("decodes_" + strings.ReplaceAll(kind, "-", "_"))) {
		return e.freshStr("decoded", 16), true
	}
	return nil, false
}

func init() {
	reg("encoding/json.Marshal", func(e *Engine, fn *ssa.Function, a []Value, s ssa.Instruction) Value {
		ifc := a[0].(Iface)
		if ifc.T == nil {
			return Tuple{JBytes{&JSON{Kind: "null"}}, Iface{}}
		}
		j, err := e.jsonMarshalValue(ifc.V, ifc.T, s, 0)
		if err != nil {
			return Tuple{Slice(nil), err}
		}
		return Tuple{JBytes{j}, Iface{}}
	})
	reg("encoding/json.Unmarshal", func(e *Engine, fn *ssa.Function, a []Value, s ssa.Instruction) Value {
		j := e.jdoc(a[0])
		ifc := a[1].(Iface)
		if ifc.T == nil {
			return e.errorf("json: Unmarshal(nil)")
		}
		pt, ok := ifc.T.Underlying().(*types.Pointer)
		p, _ := ifc.V.(Ptr)
		if !ok || p.P == nil {
			return e.errorf("json: Unmarshal(non-pointer or nil)")
		}
		if j.Kind == "invalid" {
			return e.errorf("invalid character in JSON")
		}
		// a json.Unmarshaler target receives the bytes itself
		if m := e.methodNamed(ifc.T, "UnmarshalJSON"); m != nil && j.Kind != "null" {
			return e.call(m, []Value{ifc.V, JBytes{j}}, s)
		}
		return e.jsonUnmarshalInto(j, p.P, pt.Elem(), s, 0)
	})
	// json.NewDecoder(r).Decode(v): reads the first value of the stream and ignores what follows
	reg("encoding/json.NewDecoder", func(e *Engine, fn *ssa.Function, a []Value, s ssa.Instruction) Value {
		c := new(Value)
		*c = &Native{Kind: "jsondecoder", Data: a[0]}
		return Ptr{P: c}
	})
	reg("(*encoding/json.Decoder).Decode", func(e *Engine, fn *ssa.Function, a []Value, s ssa.Instruction) Value {
		dp, _ := a[0].(Ptr)
		if dp.P == nil {
			e.goPanicf(s, "nil *json.Decoder")
		}
		dec, ok := (*dp.P).(*Native)
		if !ok || dec.Kind != "jsondecoder" {
			e.abort("unsupported", "json.Decoder without model")
		}
		src, _ := dec.Data.(Value).(Iface)
		var data Value
		if rp, ok := src.V.(Ptr); ok && rp.P != nil {
			if n, ok := (*rp.P).(*Native); ok && (n.Kind == "body" || n.Kind == "reader") {
				data = n.Data.(Value)
				n.Data = Value(Slice(nil))
			}
		}
		if data == nil {
			e.abort("unsupported", "json.Decoder over a reader without model")
		}
		j := e.jdoc(data)
		if j.Kind == "invalid" {
			if j.First == nil {
				return e.errorf("invalid character in JSON")
			}
			j = j.First
		}
		ifc := a[1].(Iface)
		pt, ok2 := ifc.T.Underlying().(*types.Pointer)
		p, _ := ifc.V.(Ptr)
		if !ok2 || p.P == nil {
			return e.errorf("json: Decode(non-pointer or nil)")
		}
		if m := e.methodNamed(ifc.T, "UnmarshalJSON"); m != nil && j.Kind != "null" {
			return e.call(m, []Value{ifc.V, JBytes{j}}, s)
		}
		return e.jsonUnmarshalInto(j, p.P, pt.Elem(), s, 0)
	})
	reg("encoding/json.Valid", func(e *Engine, fn *ssa.Function, a []Value, s ssa.Instruction) Value {
		return mkBool(e.jdoc(a[0]).Kind != "invalid")
	})
	for _, enc := range []struct{ v, kind string }{{"StdEncoding", "base64"}, {"RawStdEncoding", "base64raw"}, {"URLEncoding", "base64url"}, {"RawURLEncoding", "base64urlraw"}} {
		_ = enc
	}
	reg("(*encoding/base64.Encoding).EncodeToString", func(e *Engine, fn *ssa.Function, a []Value, s ssa.Instruction) Value {
		bt, _ := bytesOf(a[1])
		if bt == nil {
			bt = mkStr("")
		}
		return e.encodeBytes(bt, e.base64Kind(a[0], s))
	})
	reg("(*encoding/base64.Encoding).DecodeString", func(e *Engine, fn *ssa.Function, a []Value, s ssa.Instruction) Value {
		d, ok := e.decodeBytes(T(a[1]), e.base64Kind(a[0], s))
		if !ok {
			return Tuple{Slice(nil), e.errorf("illegal base64 data")}
		}
		return Tuple{Bytes{T: d}, Iface{}}
	})
	reg("encoding/hex.EncodeToString", func(e *Engine, fn *ssa.Function, a []Value, s ssa.Instruction) Value {
		bt, _ := bytesOf(a[0])
		if bt == nil {
			bt = mkStr("")
		}
		return e.encodeBytes(bt, "hex")
	})
	reg("encoding/hex.DecodeString", func(e *Engine, fn *ssa.Function, a []Value, s ssa.Instruction) Value {
		d, ok := e.decodeBytes(T(a[0]), "hex")
		if !ok {
			return Tuple{Slice(nil), e.errorf("encoding/hex: invalid byte")}
		}
		return Tuple{Bytes{T: d}, Iface{}}
	})
}

// base64Kind identifies which of the four standard encodings a *base64.Encoding value is,
// through the package variable it was loaded from (tokens created in globalInit).
func (e *Engine) base64Kind(v Value, site ssa.Instruction) string {
	p, _ := v.(Ptr)
	if p.P != nil {
		if n, ok := (*p.P).(*Native); ok && n.Kind == "base64enc" {
			return n.Data.(string)
		}
	}
	e.abort("unsupported", "base64 encoding object without model")
	return ""
}
