package main

// SMT-LIB2 terms with constant folding. Every scalar Go value handled by the
// engine (bool, intN, uintN, float, string) is a *Term; a fully concrete run of
// the engine therefore keeps every term constant and behaves as an interpreter.

import (
	"fmt"
	"math"
	"math/big"
	"sort"
	"strings"
)

type Kind int

const (
	KBool Kind = iota
	KBV
	KStr
	KInt
	KFP
)

type Term struct {
	Op     string
	Args   []*Term
	K      Kind
	W      int // BV width or FP total width (32/64)
	Const  bool
	BVal   bool
	UVal   uint64 // BV payload (masked) or FP bits
	SVal   string
	IVal   *big.Int // KInt constants
	Name   string   // variables
	I      *Term    // optional Int-form of a BV term: mathematical (signed) value, valid under no-overflow
	MaxLen int      // strings: upper bound of length, -1 unknown
	Signed bool     // hint for BV consts when printing models
	Alpha  *[256]bool // strings: if non-nil, every byte of the value is in this set
	Exact  int        // strings (variables): exact length when > 0
	OfInt  *Term      // strings produced by integer formatting: the formatted integer (KInt)
	OfBV   *Term      // ... and the bit-vector it was formatted from
	OfBVS  bool       // signedness of OfBV
	EscOf   *Term       // URL-escaped strings: the original string
	EscKind string      // "path" | "query"
	QueryOf interface{} // encoded query strings: the url.Values they encode (*Map)
	JSONOf  interface{} // text of an abstract JSON document (*JSON)
	TimeOf *TimeKey   // strings produced by formatting a time: the instant (see intercepts_time.go)
	FromI  *Term      // floats produced exactly from a (<= 32 bit) integer: that integer (KInt)
	L      *lin       // KInt: linear normal form
	text   string
}

// lin is a linear integer form c + sum k_i*atom_i (atoms keyed by their SMT text).
type lin struct {
	c     *big.Int
	coef  map[string]*big.Int
	atoms map[string]*Term
}

func linOf(t *Term) *lin {
	if t.L != nil {
		return t.L
	}
	if t.Const {
		return &lin{c: new(big.Int).Set(t.IVal)}
	}
	k := t.String()
	return &lin{c: new(big.Int), coef: map[string]*big.Int{k: big.NewInt(1)}, atoms: map[string]*Term{k: t}}
}

func linCombine(a, b *lin, sign int64) *lin {
	r := &lin{c: new(big.Int).Set(a.c), coef: map[string]*big.Int{}, atoms: map[string]*Term{}}
	for k, v := range a.coef {
		r.coef[k] = new(big.Int).Set(v)
		r.atoms[k] = a.atoms[k]
	}
	sg := big.NewInt(sign)
	r.c.Add(r.c, new(big.Int).Mul(sg, b.c))
	for k, v := range b.coef {
		d := new(big.Int).Mul(sg, v)
		if o, ok := r.coef[k]; ok {
			o.Add(o, d)
			if o.Sign() == 0 {
				delete(r.coef, k)
				delete(r.atoms, k)
			}
		} else {
			r.coef[k] = d
			r.atoms[k] = b.atoms[k]
		}
	}
	return r
}

func intLit(i *big.Int) string {
	if i.Sign() < 0 {
		return "(- " + new(big.Int).Neg(i).String() + ")"
	}
	return i.String()
}

func linTerm(l *lin) *Term {
	if len(l.coef) == 0 {
		return mkIntBig(l.c)
	}
	keys := make([]string, 0, len(l.coef))
	for k := range l.coef {
		keys = append(keys, k)
	}
	sort.Strings(keys)
	var parts []string
	var args []*Term
	for _, k := range keys {
		c := l.coef[k]
		args = append(args, l.atoms[k])
		if c.Cmp(big.NewInt(1)) == 0 {
			parts = append(parts, k)
		} else {
			parts = append(parts, "(* "+intLit(c)+" "+k+")")
		}
	}
	if l.c.Sign() != 0 {
		parts = append(parts, intLit(l.c))
	}
	var txt string
	if len(parts) == 1 {
		txt = parts[0]
		if l.c.Sign() == 0 && l.coef[keys[0]].Cmp(big.NewInt(1)) == 0 {
			return l.atoms[keys[0]]
		}
	} else {
		txt = "(+ " + strings.Join(parts, " ") + ")"
	}
	return &Term{Op: "lin", K: KInt, Args: args, L: l, text: txt, MaxLen: -1}
}

// linConstDiff returns a-b when it is a constant.
func linConstDiff(a, b *Term) (int64, bool) {
	d := linCombine(linOf(a), linOf(b), -1)
	if len(d.coef) == 0 && d.c.IsInt64() {
		return d.c.Int64(), true
	}
	return 0, false
}

var (
	tTrue  = &Term{Op: "const", K: KBool, Const: true, BVal: true}
	tFalse = &Term{Op: "const", K: KBool, Const: true, BVal: false}
)

func mkBool(b bool) *Term {
	if b {
		return tTrue
	}
	return tFalse
}

func mask(w int) uint64 {
	if w >= 64 {
		return ^uint64(0)
	}
	return (uint64(1) << uint(w)) - 1
}

func mkBV(w int, u uint64) *Term {
	u &= mask(w)
	t := &Term{Op: "const", K: KBV, W: w, Const: true, UVal: u}
	t.I = mkIntBig(new(big.Int).SetInt64(signExt(u, w)))
	return t
}

// mkBVU builds an unsigned-interpreted constant (Int-form is the unsigned value).
func mkBVU(w int, u uint64) *Term {
	u &= mask(w)
	t := &Term{Op: "const", K: KBV, W: w, Const: true, UVal: u}
	t.I = mkIntBig(new(big.Int).SetUint64(u))
	return t
}

func signExt(u uint64, w int) int64 {
	if w >= 64 {
		return int64(u)
	}
	if u&(uint64(1)<<uint(w-1)) != 0 {
		return int64(u | ^mask(w))
	}
	return int64(u)
}

func mkStr(s string) *Term {
	return &Term{Op: "const", K: KStr, Const: true, SVal: s, MaxLen: len(s)}
}

func mkInt(i int64) *Term { return mkIntBig(big.NewInt(i)) }
func mkIntBig(i *big.Int) *Term {
	return &Term{Op: "const", K: KInt, Const: true, IVal: i}
}

func mkFP(w int, bits uint64) *Term {
	return &Term{Op: "const", K: KFP, W: w, Const: true, UVal: bits}
}

func mkVar(name string, k Kind, w int) *Term {
	t := &Term{Op: "var", K: k, W: w, Name: name, MaxLen: -1}
	return t
}

func sortText(k Kind, w int) string {
	switch k {
	case KBool:
		return "Bool"
	case KBV:
		return fmt.Sprintf("(_ BitVec %d)", w)
	case KStr:
		return "String"
	case KInt:
		return "Int"
	case KFP:
		if w == 32 {
			return "(_ FloatingPoint 8 24)"
		}
		return "(_ FloatingPoint 11 53)"
	}
	return "?"
}

func smtString(s string) string {
	var b strings.Builder
	b.WriteByte('"')
	for i := 0; i < len(s); i++ {
		c := s[i]
		switch {
		case c == '"':
			b.WriteString(`""`)
		case c == '\\':
			b.WriteString(`\u{5c}`)
		case c >= 0x20 && c < 0x7f:
			b.WriteByte(c)
		default:
			fmt.Fprintf(&b, `\u{%x}`, c)
		}
	}
	b.WriteByte('"')
	return b.String()
}

// aliasing of large terms: keeps query text linear in DAG size.
var (
	aliasDefs  []aliasDef // (define-fun ...) lines in creation order
	aliasCount int
)

const aliasThreshold = 400

type aliasDef struct {
	def string
	t   *Term
}

func (t *Term) String() string {
	if t.text != "" {
		return t.text
	}
	var s string
	switch t.Op {
	case "const":
		switch t.K {
		case KBool:
			if t.BVal {
				s = "true"
			} else {
				s = "false"
			}
		case KBV:
			s = fmt.Sprintf("(_ bv%d %d)", t.UVal, t.W)
		case KStr:
			s = smtString(t.SVal)
		case KInt:
			if t.IVal.Sign() < 0 {
				s = "(- " + new(big.Int).Neg(t.IVal).String() + ")"
			} else {
				s = t.IVal.String()
			}
		case KFP:
			if t.W == 32 {
				s = fmt.Sprintf("((_ to_fp 8 24) (_ bv%d 32))", t.UVal)
			} else {
				s = fmt.Sprintf("((_ to_fp 11 53) (_ bv%d 64))", t.UVal)
			}
		}
	case "var":
		s = t.Name
	default:
		var b strings.Builder
		b.WriteByte('(')
		b.WriteString(t.Op)
		for _, a := range t.Args {
			b.WriteByte(' ')
			b.WriteString(a.String())
		}
		b.WriteByte(')')
		s = b.String()
		if len(s) > aliasThreshold {
			aliasCount++
			name := fmt.Sprintf("t!%d", aliasCount)
			aliasDefs = append(aliasDefs, aliasDef{fmt.Sprintf("(define-fun %s () %s %s)", name, sortText(t.K, t.W), s), t})
			s = name
		}
	}
	t.text = s
	return s
}

func app(op string, k Kind, w int, args ...*Term) *Term {
	return &Term{Op: op, Args: args, K: k, W: w, MaxLen: -1}
}

// ---------- Bool ----------

func Not(a *Term) *Term {
	if a.Const {
		return mkBool(!a.BVal)
	}
	if a.Op == "not" {
		return a.Args[0]
	}
	return app("not", KBool, 0, a)
}

func And(a, b *Term) *Term {
	if a.Const {
		if a.BVal {
			return b
		}
		return tFalse
	}
	if b.Const {
		if b.BVal {
			return a
		}
		return tFalse
	}
	if a == b || a.String() == b.String() {
		return a
	}
	return app("and", KBool, 0, a, b)
}

func Or(a, b *Term) *Term {
	if a.Const {
		if a.BVal {
			return tTrue
		}
		return b
	}
	if b.Const {
		if b.BVal {
			return tTrue
		}
		return a
	}
	if a == b || a.String() == b.String() {
		return a
	}
	return app("or", KBool, 0, a, b)
}

func AndN(ts ...*Term) *Term {
	r := tTrue
	for _, t := range ts {
		r = And(r, t)
	}
	return r
}

func OrN(ts ...*Term) *Term {
	r := tFalse
	for _, t := range ts {
		r = Or(r, t)
	}
	return r
}

func Implies(a, b *Term) *Term { return Or(Not(a), b) }

func Ite(c, a, b *Term) *Term {
	if c.Const {
		if c.BVal {
			return a
		}
		return b
	}
	if a == b || (a.K == b.K && a.String() == b.String()) {
		return a
	}
	if a.K == KBool {
		if a.Const && b.Const {
			if a.BVal {
				return c
			}
			return Not(c)
		}
	}
	t := app("ite", a.K, a.W, c, a, b)
	if a.K == KStr {
		if a.MaxLen >= 0 && b.MaxLen >= 0 {
			t.MaxLen = max(a.MaxLen, b.MaxLen)
		}
	}
	if a.K == KBV && a.I != nil && b.I != nil {
		t.I = app("ite", KInt, 0, c, a.I, b.I)
	}
	return t
}

func Eq(a, b *Term) *Term {
	if a.K != b.K {
		panic(fmt.Sprintf("Eq: sort mismatch %v %v (%s / %s)", a.K, b.K, a, b))
	}
	if a.Const && b.Const {
		switch a.K {
		case KBool:
			return mkBool(a.BVal == b.BVal)
		case KBV:
			return mkBool(a.UVal == b.UVal)
		case KStr:
			return mkBool(a.SVal == b.SVal)
		case KInt:
			return mkBool(a.IVal.Cmp(b.IVal) == 0)
		case KFP:
			fa, fb := fpVal(a), fpVal(b)
			return mkBool(fa == fb)
		}
	}
	if a == b {
		if a.K != KFP {
			return tTrue
		}
	}
	if a.K != KFP && a.String() == b.String() {
		return tTrue
	}
	switch a.K {
	case KBool:
		if a.Const {
			if a.BVal {
				return b
			}
			return Not(b)
		}
		if b.Const {
			if b.BVal {
				return a
			}
			return Not(a)
		}
	case KBV:
		if a.I != nil && b.I != nil && !(a.Const && b.Const) {
			return Eq(a.I, b.I)
		}
	case KFP:
		return app("fp.eq", KBool, 0, a, b)
	case KInt:
		if d, ok := linConstDiff(a, b); ok {
			return mkBool(d == 0)
		}
		if b.Const && b.IVal.IsInt64() {
			if lo, hi, ok := codeRange(a); ok && (b.IVal.Int64() < lo || b.IVal.Int64() > hi) {
				return tFalse
			}
		}
		if a.Const && a.IVal.IsInt64() {
			if lo, hi, ok := codeRange(b); ok && (a.IVal.Int64() < lo || a.IVal.Int64() > hi) {
				return tFalse
			}
		}
		// str.to_code(x) == c (c >= 0)  <=>  x == char(c)
		if b.Const && b.IVal.Sign() >= 0 && b.IVal.IsInt64() && b.IVal.Int64() < 256 && a.Op == "str.to_code" {
			return Eq(a.Args[0], mkStr(string([]byte{byte(b.IVal.Int64())})))
		}
		if a.Const && a.IVal.Sign() >= 0 && a.IVal.IsInt64() && a.IVal.Int64() < 256 && b.Op == "str.to_code" {
			return Eq(b.Args[0], mkStr(string([]byte{byte(a.IVal.Int64())})))
		}
		// len(x) == 0  <=>  x == ""
		if b.Const && b.IVal.Sign() == 0 && a.Op == "str.len" {
			return Eq(a.Args[0], mkStr(""))
		}
		if a.Const && a.IVal.Sign() == 0 && b.Op == "str.len" {
			return Eq(b.Args[0], mkStr(""))
		}
	case KStr:
		if a.TimeOf != nil && b.TimeOf != nil && a.TimeOf.Class == b.TimeOf.Class {
			return timeKeyEq(a.TimeOf, b.TimeOf)
		}
		// escaping never turns a non-empty string into an empty one or vice versa
		if a.EscOf != nil && b.Const && b.SVal == "" {
			return Eq(a.EscOf, b)
		}
		if b.EscOf != nil && a.Const && a.SVal == "" {
			return Eq(b.EscOf, a)
		}
		// cheap refutation by length bounds
		if a.Const && b.MaxLen >= 0 && len(a.SVal) > b.MaxLen {
			return tFalse
		}
		if b.Const && a.MaxLen >= 0 && len(b.SVal) > a.MaxLen {
			return tFalse
		}
		if a.Const && len(a.SVal) < minLen(b) {
			return tFalse
		}
		if b.Const && len(b.SVal) < minLen(a) {
			return tFalse
		}
		if a.Const && len(a.SVal) > 0 && !canSpell(b, a.SVal) || b.Const && len(b.SVal) > 0 && !canSpell(a, b.SVal) {
			return tFalse
		}
		if r, ok := eqStructural(a, b); ok {
			return r
		}
	}
	return app("=", KBool, 0, a, b)
}

// ---------- Int (mathematical; used for Int-forms and string indices) ----------

func intAdd(a, b *Term) *Term {
	if a.Const && b.Const {
		return mkIntBig(new(big.Int).Add(a.IVal, b.IVal))
	}
	return linTerm(linCombine(linOf(a), linOf(b), 1))
}

func intSub(a, b *Term) *Term {
	if a.Const && b.Const {
		return mkIntBig(new(big.Int).Sub(a.IVal, b.IVal))
	}
	return linTerm(linCombine(linOf(a), linOf(b), -1))
}

func intLt(a, b *Term) *Term {
	if a.Const && b.Const {
		return mkBool(a.IVal.Cmp(b.IVal) < 0)
	}
	if d, ok := linConstDiff(a, b); ok {
		return mkBool(d < 0)
	}
	if r, ok := linSignCmp(a, b, true); ok {
		return r
	}
	if r, ok := rangeCmp(a, b, true); ok {
		return r
	}
	return app("<", KBool, 0, a, b)
}

func intLe(a, b *Term) *Term {
	if a.Const && b.Const {
		return mkBool(a.IVal.Cmp(b.IVal) <= 0)
	}
	if d, ok := linConstDiff(a, b); ok {
		return mkBool(d <= 0)
	}
	if r, ok := linSignCmp(a, b, false); ok {
		return r
	}
	if r, ok := rangeCmp(a, b, false); ok {
		return r
	}
	return app("<=", KBool, 0, a, b)
}

// codeRange bounds str.to_code(x) through the alphabet of x.
func codeRange(t *Term) (int64, int64, bool) {
	if t.Op != "str.to_code" {
		return 0, 0, false
	}
	x := t.Args[0]
	for x.Op == "str.at" || x.Op == "str.substr" {
		x = x.Args[0]
	}
	if x.Op != "var" || x.Alpha == nil {
		return 0, 0, false
	}
	lo, hi := int64(-1), int64(-1)
	for c := 0; c < 256; c++ {
		if x.Alpha[c] {
			if lo < 0 {
				lo = int64(c)
			}
			hi = int64(c)
		}
	}
	if lo < 0 {
		return 0, 0, false
	}
	// an out-of-range str.at yields "" whose code is -1; callers bound-check indices first
	return lo, hi, true
}

// rangeCmp decides a<b / a<=b from alphabet ranges when one side is constant.
func rangeCmp(a, b *Term, strict bool) (*Term, bool) {
	if b.Const && b.IVal.IsInt64() {
		if lo, hi, ok := codeRange(a); ok {
			c := b.IVal.Int64()
			if hi < c || (!strict && hi <= c) {
				return tTrue, true
			}
			if lo > c || (strict && lo >= c) {
				return tFalse, true
			}
		}
	}
	if a.Const && a.IVal.IsInt64() {
		if lo, hi, ok := codeRange(b); ok {
			c := a.IVal.Int64()
			if c < lo || (!strict && c <= lo) {
				return tTrue, true
			}
			if c > hi || (strict && c >= hi) {
				return tFalse, true
			}
		}
	}
	return nil, false
}

// linSignCmp decides a<b / a<=b when b-a is a combination of lengths with
// non-negative coefficients (all atoms str.len, hence >= 0).
func linSignCmp(a, b *Term, strict bool) (*Term, bool) {
	d := linCombine(linOf(b), linOf(a), -1) // b - a
	allLen := true
	nonneg, nonpos := true, true
	for k, c := range d.coef {
		if d.atoms[k].Op != "str.len" {
			allLen = false
		}
		if c.Sign() < 0 {
			nonneg = false
		}
		if c.Sign() > 0 {
			nonpos = false
		}
	}
	if !allLen {
		return nil, false
	}
	if nonneg { // b-a >= c
		if d.c.Sign() > 0 || (!strict && d.c.Sign() == 0) {
			return tTrue, true
		}
	}
	if nonpos { // b-a <= c
		if d.c.Sign() < 0 || (strict && d.c.Sign() == 0) {
			return tFalse, true
		}
	}
	return nil, false
}

// intOf gives a mathematical-integer view of a BV term (signed interpretation
// when signed, else unsigned).
func intOf(t *Term, signed bool) *Term {
	if t.K == KInt {
		return t
	}
	if t.Const {
		if signed {
			return mkInt(signExt(t.UVal, t.W))
		}
		return mkIntBig(new(big.Int).SetUint64(t.UVal))
	}
	if t.I != nil {
		return t.I
	}
	u := app("bv2nat", KInt, 0, t)
	if !signed {
		return u
	}
	// signed: ite(msb set, u - 2^w, u)
	two := new(big.Int).Lsh(big.NewInt(1), uint(t.W))
	msb := bvSlt(t, mkBV(t.W, 0))
	return app("ite", KInt, 0, msb, intSub(u, mkIntBig(two)), u)
}

// bvOfInt converts a mathematical Int to a BV of width w, remembering the Int-form.
func bvOfInt(i *Term, w int) *Term {
	if i.Const {
		m := new(big.Int).And(i.IVal, new(big.Int).SetUint64(mask(w)))
		t := &Term{Op: "const", K: KBV, W: w, Const: true, UVal: m.Uint64()}
		t.I = i
		return t
	}
	t := app(fmt.Sprintf("(_ int2bv %d)", w), KBV, w, i)
	t.I = i
	return t
}

// ---------- BV ----------

// int2bvArg: x if t is (_ int2bv w)(x) (or a constant, read as its signed value).
func int2bvArg(t *Term) (*Term, bool) {
	if t.Const && t.K == KBV {
		return mkInt(signExt(t.UVal, t.W)), true
	}
	if strings.HasPrefix(t.Op, "(_ int2bv") && len(t.Args) == 1 {
		return t.Args[0], true
	}
	return nil, false
}

// int2bvEq: int2bv(x) = int2bv(y) over width w  <=>  x - y is a multiple of 2^w.
func int2bvEq(a, b *Term) (*Term, bool) {
	if a.Const && b.Const {
		return nil, false
	}
	xa, oka := int2bvArg(a)
	xb, okb := int2bvArg(b)
	if !oka || !okb || a.W != b.W {
		return nil, false
	}
	d := intSub(xa, xb)
	if d.Const {
		m := new(big.Int).Mod(d.IVal, new(big.Int).Lsh(big.NewInt(1), uint(a.W)))
		return mkBool(m.Sign() == 0), true
	}
	return Eq(app("mod", KInt, 0, d, mkIntBig(new(big.Int).Lsh(big.NewInt(1), uint(a.W)))), mkInt(0)), true
}

func bvBin(op string, a, b *Term) *Term {
	if a.W != b.W {
		panic(fmt.Sprintf("bv width mismatch %s: %d vs %d", op, a.W, b.W))
	}
	w := a.W
	if a.Const && b.Const {
		x, y := a.UVal, b.UVal
		sx, sy := signExt(x, w), signExt(y, w)
		switch op {
		case "bvadd":
			return mkBV(w, x+y)
		case "bvsub":
			return mkBV(w, x-y)
		case "bvmul":
			return mkBV(w, x*y)
		case "bvand":
			return mkBV(w, x&y)
		case "bvor":
			return mkBV(w, x|y)
		case "bvxor":
			return mkBV(w, x^y)
		case "bvudiv":
			if y != 0 {
				return mkBV(w, x/y)
			}
		case "bvurem":
			if y != 0 {
				return mkBV(w, x%y)
			}
		case "bvsdiv":
			if y != 0 {
				if sy == -1 {
					return mkBV(w, uint64(-sx))
				}
				return mkBV(w, uint64(sx/sy))
			}
		case "bvsrem":
			if y != 0 {
				if sy == -1 {
					return mkBV(w, 0)
				}
				return mkBV(w, uint64(sx%sy))
			}
		case "bvshl":
			if y >= uint64(w) {
				return mkBV(w, 0)
			}
			return mkBV(w, x<<y)
		case "bvlshr":
			if y >= uint64(w) {
				return mkBV(w, 0)
			}
			return mkBV(w, x>>y)
		case "bvashr":
			if y >= uint64(w) {
				y = uint64(w - 1)
			}
			return mkBV(w, uint64(sx>>y))
		}
	}
	// int2bv is a ring homomorphism onto the integers modulo 2^w: sums, differences and
	// products of int2bv terms are int2bv terms (exactly, wrapping included)
	if xa, oka := int2bvArg(a); oka {
		if xb, okb := int2bvArg(b); okb && !(a.Const && b.Const) {
			var i *Term
			switch op {
			case "bvadd":
				i = intAdd(xa, xb)
			case "bvsub":
				i = intSub(xa, xb)
			case "bvmul":
				if xa.Const && xa.IVal.IsInt64() {
					i = intMulC(xb, xa.IVal.Int64())
				} else if xb.Const && xb.IVal.IsInt64() {
					i = intMulC(xa, xb.IVal.Int64())
				}
			}
			if i != nil {
				r := app(fmt.Sprintf("(_ int2bv %d)", w), KBV, w, i)
				// keep the (no-overflow) Int-form exactly where it was kept before
				if a.I != nil && b.I != nil {
					switch {
					case op == "bvadd":
						r.I = intAdd(a.I, b.I)
					case op == "bvsub" && w >= 32:
						r.I = intSub(a.I, b.I)
					}
				}
				return r
			}
		}
	}
	t := app(op, KBV, w, a, b)
	if a.I != nil && b.I != nil {
		switch op {
		case "bvadd":
			t.I = intAdd(a.I, b.I)
		case "bvsub":
			if w >= 32 { // narrow unsigned subtraction idioms (c-'a') wrap; keep BV there
				t.I = intSub(a.I, b.I)
			}
		}
	}
	// identities
	switch op {
	case "bvadd", "bvor", "bvxor":
		if a.Const && a.UVal == 0 {
			return b
		}
		if b.Const && b.UVal == 0 {
			return a
		}
	case "bvsub":
		if b.Const && b.UVal == 0 {
			return a
		}
	}
	return t
}

func bvNeg(a *Term) *Term {
	if a.Const {
		return mkBV(a.W, -a.UVal)
	}
	return app("bvneg", KBV, a.W, a)
}

func bvNot(a *Term) *Term {
	if a.Const {
		return mkBV(a.W, ^a.UVal)
	}
	return app("bvnot", KBV, a.W, a)
}

func bvCmp(op string, a, b *Term) *Term {
	if a.W != b.W {
		panic(fmt.Sprintf("bv width mismatch %s: %d vs %d", op, a.W, b.W))
	}
	if a.Const && b.Const {
		x, y := a.UVal, b.UVal
		sx, sy := signExt(x, a.W), signExt(y, a.W)
		switch op {
		case "bvult":
			return mkBool(x < y)
		case "bvule":
			return mkBool(x <= y)
		case "bvslt":
			return mkBool(sx < sy)
		case "bvsle":
			return mkBool(sx <= sy)
		}
	}
	if a.I != nil && b.I != nil {
		// Int-forms carry the value under the interpretation they were built
		// with; signed compare on signed Int-forms, unsigned on non-negative.
		switch op {
		case "bvslt":
			return intLt(a.I, b.I)
		case "bvsle":
			return intLe(a.I, b.I)
		case "bvult":
			if nonNegInt(a) && nonNegInt(b) {
				return intLt(a.I, b.I)
			}
		case "bvule":
			if nonNegInt(a) && nonNegInt(b) {
				return intLe(a.I, b.I)
			}
		}
	}
	return app(op, KBool, 0, a, b)
}

// nonNegInt: syntactic check that the Int-form is known non-negative
// (lengths, char codes >= 0 guarded, constants).
func nonNegInt(t *Term) bool {
	if t.I == nil {
		return false
	}
	if t.I.Const {
		return t.I.IVal.Sign() >= 0
	}
	switch t.I.Op {
	case "str.len", "bv2nat", "str.to_code": // (indices are bounds-checked before a byte is read)
		return true
	}
	return false
}

func bvSlt(a, b *Term) *Term { return bvCmp("bvslt", a, b) }

func bvZext(a *Term, w int) *Term {
	if w == a.W {
		return a
	}
	if a.Const {
		return mkBVU(w, a.UVal)
	}
	t := app(fmt.Sprintf("(_ zero_extend %d)", w-a.W), KBV, w, a)
	// zero extension is only applied to unsigned-typed sources, whose Int-form
	// is by convention the unsigned value.
	if a.I != nil {
		t.I = a.I
	}
	return t
}

func bvSext(a *Term, w int) *Term {
	if w == a.W {
		return a
	}
	if a.Const {
		return mkBV(w, uint64(signExt(a.UVal, a.W)))
	}
	t := app(fmt.Sprintf("(_ sign_extend %d)", w-a.W), KBV, w, a)
	if a.I != nil {
		t.I = a.I
	}
	return t
}

func bvTrunc(a *Term, w int) *Term {
	if w == a.W {
		return a
	}
	if a.Const {
		return mkBV(w, a.UVal)
	}
	// truncation of an extension of a narrower term
	if (strings.HasPrefix(a.Op, "(_ zero_extend") || strings.HasPrefix(a.Op, "(_ sign_extend")) && a.Args[0].W == w {
		return a.Args[0]
	}
	return app(fmt.Sprintf("(_ extract %d 0)", w-1), KBV, w, a)
}

// ---------- Strings ----------

func strConcat(a, b *Term) *Term {
	if a.Const && b.Const {
		return mkStr(a.SVal + b.SVal)
	}
	if a.Const && a.SVal == "" {
		return b
	}
	if b.Const && b.SVal == "" {
		return a
	}
	// flatten: (str.++ x "c1") ++ "c2"
	if a.Op == "str.++" && b.Const {
		last := a.Args[len(a.Args)-1]
		if last.Const {
			args := append(append([]*Term{}, a.Args[:len(a.Args)-1]...), mkStr(last.SVal+b.SVal))
			t := app("str.++", KStr, 0, args...)
			t.MaxLen = addLen(a.MaxLen, b.MaxLen)
			return t
		}
	}
	var args []*Term
	if a.Op == "str.++" {
		args = append(args, a.Args...)
	} else {
		args = append(args, a)
	}
	if b.Op == "str.++" {
		if len(args) > 0 && args[len(args)-1].Const && b.Args[0].Const {
			args[len(args)-1] = mkStr(args[len(args)-1].SVal + b.Args[0].SVal)
			args = append(args, b.Args[1:]...)
		} else {
			args = append(args, b.Args...)
		}
	} else {
		args = append(args, b)
	}
	t := app("str.++", KStr, 0, args...)
	t.MaxLen = addLen(a.MaxLen, b.MaxLen)
	return t
}

func addLen(a, b int) int {
	if a < 0 || b < 0 {
		return -1
	}
	return a + b
}

// strLenInt: Int-sorted length.
func strLenInt(s *Term) *Term {
	if s.Const {
		return mkInt(int64(len(s.SVal)))
	}
	if s.Op == "var" && s.Exact > 0 {
		return mkInt(int64(s.Exact))
	}
	if s.Op == "str.++" {
		r := mkInt(0)
		for _, a := range s.Args {
			r = intAdd(r, strLenInt(a))
		}
		return r
	}
	return app("str.len", KInt, 0, s)
}

// strLen: Go int (BV64) length carrying the Int-form.
func strLen(s *Term) *Term { return bvOfInt(strLenInt(s), 64) }

func strAt(s, i *Term) *Term { // i is Int
	if s.Const && i.Const {
		n := i.IVal.Int64()
		if i.IVal.IsInt64() && n >= 0 && n < int64(len(s.SVal)) {
			return mkStr(s.SVal[n : n+1])
		}
		return mkStr("")
	}
	// indexing into a concatenation with constant prefix lengths
	if s.Op == "str.++" && i.Const && i.IVal.IsInt64() {
		n := i.IVal.Int64()
		for _, a := range s.Args {
			if !a.Const {
				break
			}
			if n < int64(len(a.SVal)) {
				return mkStr(a.SVal[n : n+1])
			}
			n -= int64(len(a.SVal))
		}
	}
	if s.Op == "var" && s.Exact == 1 && i.Const && i.IVal.Sign() == 0 {
		return s
	}
	if s.Op == "str.++" {
		// locate the part holding position i when boundaries are decidable
		b := mkInt(0)
		for _, p := range s.Args {
			n := strLenInt(p)
			d, ok := linConstDiff(i, b)
			if !ok || d < 0 {
				break
			}
			if p.Const {
				if d < int64(len(p.SVal)) {
					return mkStr(p.SVal[d : d+1])
				}
			} else if n.Const {
				if d < n.IVal.Int64() {
					return strAt(p, mkInt(d))
				}
			} else {
				break
			}
			b = intAdd(b, n)
		}
	}
	t := app("str.at", KStr, 0, s, i)
	t.MaxLen = 1
	t.Alpha = s.Alpha
	return t
}

// strByte: s[i] as a BV8 with Int-form (precondition 0<=i<len checked by caller).
func strByte(s, i *Term) *Term {
	c := strAt(s, i)
	if c.Const {
		if len(c.SVal) == 1 {
			return mkBVU(8, uint64(c.SVal[0]))
		}
		return mkBVU(8, 0)
	}
	code := app("str.to_code", KInt, 0, c)
	t := app("(_ int2bv 8)", KBV, 8, code)
	t.I = code
	return t
}

func strSubstr(s, off, n *Term) *Term { // Int args
	if s.Const && off.Const && n.Const && off.IVal.IsInt64() && n.IVal.IsInt64() {
		o, l := off.IVal.Int64(), n.IVal.Int64()
		if o < 0 || o > int64(len(s.SVal)) || l <= 0 {
			return mkStr("")
		}
		e := o + l
		if e > int64(len(s.SVal)) {
			e = int64(len(s.SVal))
		}
		return mkStr(s.SVal[o:e])
	}
	if off.Const && off.IVal.Sign() == 0 && n.String() == strLenInt(s).String() {
		return s
	}
	if r, ok := substrStructural(s, off, n); ok {
		return r
	}
	t := app("str.substr", KStr, 0, s, off, n)
	t.MaxLen = s.MaxLen
	if n.Const && n.IVal.IsInt64() {
		if l := int(n.IVal.Int64()); l >= 0 && (t.MaxLen < 0 || l < t.MaxLen) {
			t.MaxLen = l
		}
	}
	return t
}

func strPrefixOf(p, s *Term) *Term {
	if p.Const && s.Const {
		return mkBool(strings.HasPrefix(s.SVal, p.SVal))
	}
	if p.Const && p.SVal == "" {
		return tTrue
	}
	if p.Const && s.Op == "str.++" && s.Args[0].Const && len(s.Args[0].SVal) >= len(p.SVal) {
		return mkBool(strings.HasPrefix(s.Args[0].SVal, p.SVal))
	}
	if p.Const && len(p.SVal) > 0 {
		ps := partsOf(s)
		// every part that could contribute the first character excludes it
		first := p.SVal[0]
		possible := false
		for _, q := range ps {
			if q.Const {
				if len(q.SVal) > 0 {
					if q.SVal[0] == first {
						possible = true
					}
					break
				}
				continue
			}
			if mayContain(q, first) {
				possible = true
				break
			}
			// q cannot hold the character but may be empty: look further
		}
		if !possible {
			return tFalse
		}
	}
	return app("str.prefixof", KBool, 0, p, s)
}

func strSuffixOf(p, s *Term) *Term {
	if p.Const && s.Const {
		return mkBool(strings.HasSuffix(s.SVal, p.SVal))
	}
	if p.Const && p.SVal == "" {
		return tTrue
	}
	if p.Const && s.Op == "str.++" {
		l := s.Args[len(s.Args)-1]
		if l.Const && len(l.SVal) >= len(p.SVal) {
			return mkBool(strings.HasSuffix(l.SVal, p.SVal))
		}
	}
	if p.Const && len(p.SVal) > 0 {
		ps := partsOf(s)
		last := p.SVal[len(p.SVal)-1]
		possible := false
		for k := len(ps) - 1; k >= 0; k-- {
			q := ps[k]
			if q.Const {
				if len(q.SVal) > 0 {
					if q.SVal[len(q.SVal)-1] == last {
						possible = true
					}
					break
				}
				continue
			}
			if mayContain(q, last) {
				possible = true
				break
			}
		}
		if !possible {
			return tFalse
		}
	}
	return app("str.suffixof", KBool, 0, p, s)
}

func strContains(s, sub *Term) *Term {
	if sub.Const && s.Const {
		return mkBool(strings.Contains(s.SVal, sub.SVal))
	}
	if sub.Const && sub.SVal == "" {
		return tTrue
	}
	if sub.Const && len(sub.SVal) == 1 {
		c := sub.SVal[0]
		if !mayContain(s, c) {
			return tFalse
		}
		for _, p := range partsOf(s) {
			if p.Const && strings.IndexByte(p.SVal, c) >= 0 {
				return tTrue
			}
		}
	}
	return app("str.contains", KBool, 0, s, sub)
}

func strIndexOf(s, sub, from *Term) *Term { // returns Int
	if s.Const && sub.Const && from.Const && from.IVal.IsInt64() {
		f := from.IVal.Int64()
		if f >= 0 && f <= int64(len(s.SVal)) {
			i := strings.Index(s.SVal[f:], sub.SVal)
			if i < 0 {
				return mkInt(-1)
			}
			return mkInt(int64(i) + f)
		}
		return mkInt(-1)
	}
	if sub.Const && from.Const && from.IVal.Sign() == 0 {
		if r, ok := indexOfStructural(s, sub.SVal); ok {
			return r
		}
	}
	return app("str.indexof", KInt, 0, s, sub, from)
}

func strReplace(s, old, nw *Term) *Term {
	if s.Const && old.Const && nw.Const {
		return mkStr(strings.Replace(s.SVal, old.SVal, nw.SVal, 1))
	}
	if old.Const && len(old.SVal) > 0 {
		// structural: the first occurrence lies inside a constant part and no earlier
		// symbolic part can contribute to a match
		ps := partsOf(s)
		for k, p := range ps {
			if p.Const {
				if i := strings.Index(p.SVal, old.SVal); i >= 0 {
					out := append([]*Term{}, ps[:k]...)
					out = append(out, mkStr(p.SVal[:i]), nw, mkStr(p.SVal[i+len(old.SVal):]))
					out = append(out, ps[k+1:]...)
					return concatPartsKeep(out)
				}
				continue
			}
			// a symbolic part: safe to skip only if it cannot contain any byte of old
			skip := true
			for j := 0; j < len(old.SVal); j++ {
				if mayContain(p, old.SVal[j]) {
					skip = false
				}
			}
			if !skip {
				break
			}
		}
	}
	t := app("str.replace", KStr, 0, s, old, nw)
	if s.MaxLen >= 0 && nw.MaxLen >= 0 {
		t.MaxLen = s.MaxLen + nw.MaxLen
	}
	return t
}

func strReplaceAll(s, old, nw *Term) *Term {
	if s.Const && old.Const && nw.Const {
		return mkStr(strings.ReplaceAll(s.SVal, old.SVal, nw.SVal))
	}
	t := app("str.replace_all", KStr, 0, s, old, nw)
	if s.MaxLen >= 0 && nw.MaxLen >= 0 && old.Const && len(old.SVal) > 0 {
		t.MaxLen = s.MaxLen * max(1, nw.MaxLen)
	}
	return t
}

// stripCommonPrefix removes an equal constant prefix of two concatenations
// (lexicographic comparison is invariant under it).
func stripCommonPrefix(a, b *Term) (*Term, *Term) {
	pa, pb := partsOf(a), partsOf(b)
	if len(pa) == 0 || len(pb) == 0 || !pa[0].Const || !pb[0].Const {
		return a, b
	}
	x, y := pa[0].SVal, pb[0].SVal
	n := 0
	for n < len(x) && n < len(y) && x[n] == y[n] {
		n++
	}
	if n == 0 || (n < len(x) && n < len(y)) {
		return a, b // nothing in common, or the constants already differ (decided by the caller)
	}
	ra := concatParts(append([]*Term{mkStr(x[n:])}, pa[1:]...))
	rb := concatParts(append([]*Term{mkStr(y[n:])}, pb[1:]...))
	return ra, rb
}

func strLt(a, b *Term) *Term {
	if a.Const && b.Const {
		return mkBool(a.SVal < b.SVal)
	}
	a, b = stripCommonPrefix(a, b)
	if a.Const && b.Const {
		return mkBool(a.SVal < b.SVal)
	}
	if a.String() == b.String() {
		return tFalse
	}
	return app("str.<", KBool, 0, a, b)
}

func strLe(a, b *Term) *Term {
	if a.Const && b.Const {
		return mkBool(a.SVal <= b.SVal)
	}
	a, b = stripCommonPrefix(a, b)
	if a.Const && b.Const {
		return mkBool(a.SVal <= b.SVal)
	}
	if a.String() == b.String() {
		return tTrue
	}
	return app("str.<=", KBool, 0, a, b)
}

func strFromCode(i *Term) *Term {
	if i.Const && i.IVal.IsInt64() {
		c := i.IVal.Int64()
		if c >= 0 && c < 256 {
			return mkStr(string([]byte{byte(c)}))
		}
	}
	t := app("str.from_code", KStr, 0, i)
	t.MaxLen = 1
	return t
}

// mapChars applies f to each character position of a bounded string.
// f receives the Int code and the 1-char string term and returns a string term.
func mapChars(s *Term, f func(code, ch *Term) *Term) *Term {
	if s.MaxLen < 0 {
		return nil
	}
	r := mkStr("")
	for i := 0; i < s.MaxLen; i++ {
		ch := strAt(s, mkInt(int64(i)))
		var code *Term
		if ch.Const {
			if len(ch.SVal) == 0 {
				break
			}
			code = mkInt(int64(ch.SVal[0]))
		} else {
			code = app("str.to_code", KInt, 0, ch)
		}
		r = strConcat(r, f(code, ch))
	}
	if !r.Const && (r.MaxLen < 0 || r.MaxLen > s.MaxLen) {
		r.MaxLen = s.MaxLen
	}
	return r
}

func strToLower(s *Term) *Term {
	if s.Const {
		return mkStr(strings.ToLower(s.SVal))
	}
	return mapChars(s, func(code, ch *Term) *Term {
		if code.Const {
			return mkStr(strings.ToLower(ch.SVal))
		}
		up := And(intLe(mkInt('A'), code), intLe(code, mkInt('Z')))
		return Ite(up, strFromCode(intAdd(code, mkInt(32))), ch)
	})
}

func strToUpper(s *Term) *Term {
	if s.Const {
		return mkStr(strings.ToUpper(s.SVal))
	}
	return mapChars(s, func(code, ch *Term) *Term {
		if code.Const {
			return mkStr(strings.ToUpper(ch.SVal))
		}
		lo := And(intLe(mkInt('a'), code), intLe(code, mkInt('z')))
		return Ite(lo, strFromCode(intSub(code, mkInt(32))), ch)
	})
}

// ---------- FP ----------

func fpVal(t *Term) float64 {
	if t.W == 32 {
		return float64(math.Float32frombits(uint32(t.UVal)))
	}
	return math.Float64frombits(t.UVal)
}

func mkFPVal(w int, f float64) *Term {
	if w == 32 {
		return mkFP(32, uint64(math.Float32bits(float32(f))))
	}
	return mkFP(64, math.Float64bits(f))
}

func fpBin(op string, a, b *Term) *Term {
	if a.Const && b.Const {
		x, y := fpVal(a), fpVal(b)
		switch op {
		case "fp.add":
			return mkFPVal(a.W, x+y)
		case "fp.sub":
			return mkFPVal(a.W, x-y)
		case "fp.mul":
			return mkFPVal(a.W, x*y)
		case "fp.div":
			return mkFPVal(a.W, x/y)
		}
	}
	return app(op+" RNE", KFP, a.W, a, b)
}

func fpCmp(op string, a, b *Term) *Term {
	if a.Const && b.Const {
		x, y := fpVal(a), fpVal(b)
		switch op {
		case "fp.lt":
			return mkBool(x < y)
		case "fp.leq":
			return mkBool(x <= y)
		case "fp.gt":
			return mkBool(x > y)
		case "fp.geq":
			return mkBool(x >= y)
		case "fp.eq":
			return mkBool(x == y)
		}
	}
	return app(op, KBool, 0, a, b)
}

func fpNeg(a *Term) *Term {
	if a.Const {
		return mkFPVal(a.W, -fpVal(a))
	}
	return app("fp.neg", KFP, a.W, a)
}

func fpSort(w int) string {
	if w == 32 {
		return "8 24"
	}
	return "11 53"
}

func fpFromBV(a *Term, signed bool, w int) *Term {
	if a.Const {
		if signed {
			return mkFPVal(w, float64(signExt(a.UVal, a.W)))
		}
		return mkFPVal(w, float64(a.UVal))
	}
	var t *Term
	if signed {
		t = app(fmt.Sprintf("(_ to_fp %s) RNE", fpSort(w)), KFP, w, a)
	} else {
		t = app(fmt.Sprintf("(_ to_fp_unsigned %s) RNE", fpSort(w)), KFP, w, a)
	}
	if w == 64 && a.W <= 32 {
		t.FromI = intOf(a, signed) // exact: every 32-bit integer is a float64
		t.OfBV, t.OfBVS = a, signed
	}
	return t
}

func fpToFP(a *Term, w int) *Term {
	if a.W == w {
		return a
	}
	if a.Const {
		return mkFPVal(w, fpVal(a))
	}
	return app(fmt.Sprintf("(_ to_fp %s) RNE", fpSort(w)), KFP, w, a)
}

func fpToBV(a *Term, signed bool, w int) *Term {
	if a.Const {
		f := fpVal(a)
		if signed {
			return mkBV(w, uint64(int64(f)))
		}
		return mkBVU(w, uint64(f))
	}
	if signed {
		return app(fmt.Sprintf("(_ fp.to_sbv %d) RTZ", w), KBV, w, a)
	}
	return app(fmt.Sprintf("(_ fp.to_ubv %d) RTZ", w), KBV, w, a)
}

// collectVars gathers variable terms.
func collectVars(t *Term, seen map[*Term]bool, out map[string]*Term) {
	if t == nil || seen[t] {
		return
	}
	seen[t] = true
	if t.Op == "var" {
		out[t.Name] = t
	}
	for _, a := range t.Args {
		collectVars(a, seen, out)
	}
}

// ---------- structural reasoning over concatenations ----------

func partsOf(s *Term) []*Term {
	if s.Op == "str.++" {
		return s.Args
	}
	return []*Term{s}
}

func minLen(s *Term) int {
	n := 0
	for _, p := range partsOf(s) {
		if p.Const {
			n += len(p.SVal)
		} else if p.Op == "var" && p.Exact > 0 {
			n += p.Exact
		}
	}
	return n
}

// mayContain reports whether byte c can occur in the value of s.
func mayContain(s *Term, c byte) bool {
	switch {
	case s.Const:
		return strings.IndexByte(s.SVal, c) >= 0
	case s.Alpha != nil:
		return s.Alpha[c]
	case s.Op == "var":
		return true
	case s.Op == "str.++":
		for _, a := range s.Args {
			if mayContain(a, c) {
				return true
			}
		}
		return false
	case s.Op == "str.substr" || s.Op == "str.at":
		return mayContain(s.Args[0], c)
	case s.Op == "ite":
		return mayContain(s.Args[1], c) || mayContain(s.Args[2], c)
	}
	return true
}

func concatParts(ps []*Term) *Term {
	r := mkStr("")
	for _, p := range ps {
		r = strConcat(r, p)
	}
	return r
}

// indexOfStructural resolves str.indexof(s, c, 0) for a single byte c by walking
// the parts of a concatenation.
func indexOfStructural(s *Term, sub string) (*Term, bool) {
	if len(sub) != 1 {
		return nil, false
	}
	c := sub[0]
	ps := partsOf(s)
	off := mkInt(0)
	for k, p := range ps {
		if p.Const {
			if i := strings.IndexByte(p.SVal, c); i >= 0 {
				return intAdd(off, mkInt(int64(i))), true
			}
			off = intAdd(off, mkInt(int64(len(p.SVal))))
			continue
		}
		if !mayContain(p, c) {
			off = intAdd(off, strLenInt(p))
			continue
		}
		if k == 0 {
			return nil, false
		}
		rest := concatParts(ps[k:])
		ri := app("str.indexof", KInt, 0, rest, mkStr(sub), mkInt(0))
		return app("ite", KInt, 0, intLe(mkInt(0), ri), intAdd(off, ri), mkInt(-1)), true
	}
	return mkInt(-1), true
}

// substrStructural resolves substr(s, off, n) when both ends fall on part
// boundaries (or inside constant parts) of a concatenation.
func substrStructural(s, off, n *Term) (*Term, bool) {
	ps := partsOf(s)
	if len(ps) < 2 && !(len(ps) == 1 && ps[0].Const) {
		return nil, false
	}
	end := intAdd(off, n)
	type cut struct {
		part int
		in   int // offset inside constant part
	}
	find := func(pos *Term, preferEnd bool) (cut, bool) {
		b := mkInt(0)
		for k, p := range ps {
			d, ok := linConstDiff(pos, b)
			if ok {
				if d == 0 && !preferEnd {
					return cut{k, 0}, true
				}
				if d == 0 {
					return cut{k, 0}, true
				}
				if p.Const && d > 0 && d <= int64(len(p.SVal)) {
					return cut{k, int(d)}, true
				}
				if d < 0 {
					return cut{}, false
				}
			}
			b = intAdd(b, strLenInt(p))
		}
		if d, ok := linConstDiff(pos, b); ok && d == 0 {
			return cut{len(ps), 0}, true
		}
		return cut{}, false
	}
	st, ok1 := find(off, false)
	en, ok2 := find(end, true)
	if !ok1 || !ok2 {
		return nil, false
	}
	if en.part < st.part || (en.part == st.part && en.in < st.in) {
		return mkStr(""), true
	}
	var sel []*Term
	for k := st.part; k <= en.part && k < len(ps); k++ {
		p := ps[k]
		lo, hi := 0, -1
		if k == st.part {
			lo = st.in
		}
		if k == en.part {
			hi = en.in
		}
		if p.Const {
			if hi < 0 {
				hi = len(p.SVal)
			}
			if lo > hi {
				lo = hi
			}
			sel = append(sel, mkStr(p.SVal[lo:hi]))
		} else {
			if k == en.part { // en.in == 0 for non-constant parts: excluded
				continue
			}
			sel = append(sel, p)
		}
	}
	return concatParts(sel), true
}

// eqStructural strips equal constant prefixes/suffixes and identical leading
// parts of two concatenations; refutes on constant mismatch.
func eqStructural(a, b *Term) (*Term, bool) {
	pa, pb := append([]*Term{}, partsOf(a)...), append([]*Term{}, partsOf(b)...)
	changed := false
	for len(pa) > 0 && len(pb) > 0 {
		x, y := pa[0], pb[0]
		if x.Const && y.Const {
			n := min(len(x.SVal), len(y.SVal))
			if x.SVal[:n] != y.SVal[:n] {
				return tFalse, true
			}
			if n == 0 {
				break
			}
			changed = true
			if len(x.SVal) == n {
				pa = pa[1:]
			} else {
				pa[0] = mkStr(x.SVal[n:])
			}
			if len(y.SVal) == n {
				pb = pb[1:]
			} else {
				pb[0] = mkStr(y.SVal[n:])
			}
			continue
		}
		if !x.Const && !y.Const && x.String() == y.String() {
			pa, pb = pa[1:], pb[1:]
			changed = true
			continue
		}
		break
	}
	for len(pa) > 0 && len(pb) > 0 {
		x, y := pa[len(pa)-1], pb[len(pb)-1]
		if x.Const && y.Const {
			n := min(len(x.SVal), len(y.SVal))
			if n == 0 {
				break
			}
			if x.SVal[len(x.SVal)-n:] != y.SVal[len(y.SVal)-n:] {
				return tFalse, true
			}
			changed = true
			if len(x.SVal) == n {
				pa = pa[:len(pa)-1]
			} else {
				pa[len(pa)-1] = mkStr(x.SVal[:len(x.SVal)-n])
			}
			if len(y.SVal) == n {
				pb = pb[:len(pb)-1]
			} else {
				pb[len(pb)-1] = mkStr(y.SVal[:len(y.SVal)-n])
			}
			continue
		}
		if !x.Const && !y.Const && x.String() == y.String() {
			pa, pb = pa[:len(pa)-1], pb[:len(pb)-1]
			changed = true
			continue
		}
		break
	}
	if !changed {
		return nil, false
	}
	ra, rb := concatParts(pa), concatParts(pb)
	if ra.Const && rb.Const {
		return mkBool(ra.SVal == rb.SVal), true
	}
	if ra.Const && len(ra.SVal) < minLen(rb) || rb.Const && len(rb.SVal) < minLen(ra) {
		return tFalse, true
	}
	return app("=", KBool, 0, ra, rb), true
}

// canSpell: false when the constant contains a byte the term can never contain.
func canSpell(t *Term, c string) bool {
	for i := 0; i < len(c); i++ {
		if !mayContain(t, c[i]) {
			return false
		}
	}
	return true
}

// concatPartsKeep concatenates parts without merging a tagged part (escape/format
// tags) into a neighbour: empty constants are dropped, tags survive as own parts.
func concatPartsKeep(ps []*Term) *Term {
	var keep []*Term
	for _, p := range ps {
		if p.Const && p.SVal == "" {
			continue
		}
		keep = append(keep, p)
	}
	if len(keep) == 0 {
		return mkStr("")
	}
	if len(keep) == 1 {
		return keep[0]
	}
	r := keep[0]
	for _, p := range keep[1:] {
		r = strConcat(r, p)
	}
	return r
}
