package main

// Models for the client/server plumbing between the emitted Go client and the
// emitted Go server: URL construction (escaping as an inverse pair with the
// mux's unescaping), url.Values.Encode / URL.Query as an inverse pair,
// http.NewRequestWithContext, http.Client.Do (= Transport.RoundTrip) and
// http.ServeMux registration and dispatch.

import (
	"net/url"
	pathpkg "path"
	"fmt"
	"go/types"
	"strings"

	"golang.org/x/tools/go/ssa"
)

// setStructField sets a named field of a struct value of the given named type.
func setStructField(sv Struct, T types.Type, name string, v Value) {
	st := T.Underlying().(*types.Struct)
	for i := 0; i < st.NumFields(); i++ {
		if st.Field(i).Name() == name {
			sv[i] = v
			return
		}
	}
	panic("no field " + name)
}

func getStructField(sv Struct, T types.Type, name string) Value {
	st := T.Underlying().(*types.Struct)
	for i := 0; i < st.NumFields(); i++ {
		if st.Field(i).Name() == name {
			return sv[i]
		}
	}
	panic("no field " + name)
}

func structFieldPtr(sv Struct, T types.Type, name string) *Value {
	st := T.Underlying().(*types.Struct)
	for i := 0; i < st.NumFields(); i++ {
		if st.Field(i).Name() == name {
			return &sv[i]
		}
	}
	panic("no field " + name)
}

// escape builds the per-character escaping of a bounded string. kind: "path" (url.PathEscape)
// or "query" (url.QueryEscape). The result remembers what it was made from so that
// unescaping by the server side is the documented inverse.
func (e *Engine) escape(s *Term, kind string) *Term {
	if s.Const {
		if kind == "path" {
			return mkStr(goPathEscape(s.SVal))
		}
		return mkStr(goQueryEscape(s.SVal))
	}
	if s.OfBV != nil || s.OfInt != nil {
		return s // decimal digits and sign need no escaping ('-' is unreserved)
	}
	if s.MaxLen < 0 {
		e.abort("unsupported", "URL escaping of an unbounded string")
	}
	// towards the solver an escaped string is an unconstrained variable (sound over-approximation);
	// the models consume the EscOf tag instead
	e.freshCount++
	r := &Term{Op: "var", K: KStr, Name: fmt.Sprintf("esc!%d", e.freshCount), MaxLen: 3 * s.MaxLen}
	r.EscOf, r.EscKind = s, kind
	var al [256]bool
	for c := 0; c < 256; c++ {
		if s.Alpha == nil || s.Alpha[c] {
			var out string
			if kind == "path" {
				out = goPathEscape(string([]byte{byte(c)}))
			} else {
				out = goQueryEscape(string([]byte{byte(c)}))
			}
			for i := 0; i < len(out); i++ {
				al[out[i]] = true
			}
		}
	}
	r.Alpha = &al
	return r
}

// unescapePath: what the mux hands to PathValue for a matched segment.
func (e *Engine) unescapePath(seg *Term) *Term {
	if seg.Const {
		return mkStr(goPathUnescape(seg.SVal))
	}
	if seg.EscOf != nil {
		if seg.EscKind == "path" {
			return seg.EscOf // PathUnescape(PathEscape(v)) = v
		}
		// PathUnescape(QueryEscape(v)): %XX decode back, but '+' (from a blank) stays '+'
		return strReplaceAll(seg.EscOf, mkStr(" "), mkStr("+"))
	}
	if seg.OfBV != nil || seg.OfInt != nil {
		return seg
	}
	if !mayContain(seg, '%') {
		return seg
	}
	e.abort("unsupported", "unescaping of a symbolic path segment that may contain %%")
	return nil
}

// unescapeCall models url.PathUnescape / url.QueryUnescape on arbitrary text: the inverse of
// the escaping functions on tagged text; the identity on text without '%' (and, for the query
// flavour, without '+'); otherwise it succeeds exactly when every '%' is followed by two hex
// digits, and then yields some strictly shorter text (each escape shrinks by two).
func (e *Engine) unescapeCall(x *Term, query bool) Value {
	okv := func(t *Term) Value { return Tuple{t, Iface{}} }
	if x.Const {
		var r string
		var err error
		if query {
			r, err = url.QueryUnescape(x.SVal)
		} else {
			r, err = url.PathUnescape(x.SVal)
		}
		if err != nil {
			return Tuple{mkStr(""), e.newErrorString(mkStr("invalid URL escape"))}
		}
		return okv(mkStr(r))
	}
	if x.EscOf != nil && ((x.EscKind == "query") == query) {
		return okv(x.EscOf)
	}
	if !query && x.EscOf != nil {
		return okv(e.unescapePath(x))
	}
	plain := Not(strContains(x, mkStr("%")))
	if query {
		plain = And(plain, Not(strContains(x, mkStr("+"))))
	}
	if e.decide(plain) {
		return okv(x)
	}
	if query && !e.decide(strContains(x, mkStr("%"))) {
		return okv(strReplaceAll(x, mkStr("+"), mkStr(" ")))
	}
	if !e.decide(mustInRe(e, x, `([^%]|%[0-9a-fA-F][0-9a-fA-F])*`)) {
		return Tuple{mkStr(""), e.newErrorString(mkStr("invalid URL escape"))}
	}
	e.usedFresh = true
	r := e.freshStr("unescaped", x.MaxLen)
	e.addPC(intLt(strLenInt(r), strLenInt(x)))
	return okv(r)
}

func init() {
	reg("net/url.PathUnescape", func(e *Engine, fn *ssa.Function, a []Value, s ssa.Instruction) Value {
		return e.unescapeCall(T(a[0]), false)
	})
	reg("net/url.QueryUnescape", func(e *Engine, fn *ssa.Function, a []Value, s ssa.Instruction) Value {
		return e.unescapeCall(T(a[0]), true)
	})
	reg("net/url.PathEscape", func(e *Engine, fn *ssa.Function, a []Value, s ssa.Instruction) Value {
		return e.escape(T(a[0]), "path")
	})
	reg("net/url.QueryEscape", func(e *Engine, fn *ssa.Function, a []Value, s ssa.Instruction) Value {
		return e.escape(T(a[0]), "query")
	})
	// url.Values.Encode: opaque text remembering the values (inverse: URL.Query)
	reg("(net/url.Values).Encode", func(e *Engine, fn *ssa.Function, a []Value, s ssa.Instruction) Value {
		m, _ := a[0].(*Map)
		if m == nil || len(m.Keys) == 0 {
			return mkStr("")
		}
		e.freshCount++
		r := &Term{Op: "var", K: KStr, Name: fmt.Sprintf("enc!%d", e.freshCount), MaxLen: -1}
		cp := &Map{Keys: append([]Value{}, m.Keys...)}
		for _, v := range m.Vals {
			cp.Vals = append(cp.Vals, deepCopy(v))
		}
		r.QueryOf = cp
		var al [256]bool
		for c := 0; c < 256; c++ {
			al[c] = c != '?' && c != '/' && c != '#' && c != ' '
		}
		r.Alpha = &al
		return r
	})
	reg("(*net/url.URL).Query", func(e *Engine, fn *ssa.Function, a []Value, s ssa.Instruction) Value {
		if q, ok := e.side["query"]; ok {
			return q
		}
		u := e.deref(a[0], s)
		sv := (*u).(Struct)
		raw := T(getStructField(sv, e.namedType("net/url", "URL"), "RawQuery"))
		if raw.QueryOf != nil {
			m := raw.QueryOf.(*Map)
			cp := &Map{Keys: append([]Value{}, m.Keys...)}
			for _, v := range m.Vals {
				cp.Vals = append(cp.Vals, deepCopy(v))
			}
			return cp
		}
		if raw.Const && raw.SVal == "" {
			return &Map{}
		}
		e.abort("unsupported", "URL.Query on a raw query without model (%s)", raw)
		return nil
	})

	// http.NewRequestWithContext(ctx, method, url, body)
	reg("net/http.NewRequestWithContext", func(e *Engine, fn *ssa.Function, a []Value, s ssa.Instruction) Value {
		reqT := e.namedType("net/http", "Request")
		urlT := e.namedType("net/url", "URL")
		full := T(a[2])
		// strip scheme://host
		path := full
		ps := partsOf(full)
		if len(ps) > 0 && ps[0].Const {
			c := ps[0].SVal
			if i := strings.Index(c, "://"); i >= 0 {
				j := strings.Index(c[i+3:], "/")
				if j < 0 {
					e.abort("unsupported", "request URL %q without path", c)
				}
				path = concatParts(append([]*Term{mkStr(c[i+3+j:])}, ps[1:]...))
			}
		}
		rawQuery := mkStr("")
		// split at the '?' of a constant part; symbolic parts must not be able to hold one
		{
			ps := partsOf(path)
			for k, p := range ps {
				if p.Const {
					if i := strings.IndexByte(p.SVal, '?'); i >= 0 {
						rest := append([]*Term{mkStr(p.SVal[i+1:])}, ps[k+1:]...)
						rawQuery = concatPartsKeep(rest)
						path = concatPartsKeep(append(append([]*Term{}, ps[:k]...), mkStr(p.SVal[:i])))
						break
					}
					continue
				}
				if mayContain(p, '?') {
					e.abort("unsupported", "request URL with a symbolic part that may contain '?'")
				}
			}
		}
		uc := new(Value)
		us := zero(urlT).(Struct)
		setStructField(us, urlT, "Path", path)
		setStructField(us, urlT, "RawQuery", rawQuery)
		*uc = us
		rc := new(Value)
		rs := zero(reqT).(Struct)
		setStructField(rs, reqT, "Method", a[1])
		setStructField(rs, reqT, "URL", Ptr{P: uc})
		setStructField(rs, reqT, "Header", &Map{})
		setStructField(rs, reqT, "ctx", a[0])
		if body, ok := a[3].(Iface); ok && body.T != nil {
			setStructField(rs, reqT, "Body", Iface{T: e.bodyType(), V: body.V})
		}
		*rc = rs
		return Tuple{Ptr{P: rc}, Iface{}}
	})
	// (*http.Client).Do = Transport.RoundTrip (redirects, cookies, deadlines are outside the model)
	reg("(*net/http.Client).Do", func(e *Engine, fn *ssa.Function, a []Value, s ssa.Instruction) Value {
		c := e.deref(a[0], s)
		tr := getStructField((*c).(Struct), e.namedType("net/http", "Client"), "Transport").(Iface)
		if tr.T == nil {
			e.abort("unsupported", "http.Client without Transport (real network)")
		}
		var rt *types.Func
		it := e.namedType("net/http", "RoundTripper").Underlying().(*types.Interface)
		for i := 0; i < it.NumMethods(); i++ {
			if it.Method(i).Name() == "RoundTrip" {
				rt = it.Method(i)
			}
		}
		f := e.lookupMethod(tr.T, rt, s)
		return e.call(f, []Value{tr.V, a[1]}, s)
	})
	nativeMethods["body.Close"] = func(e *Engine, n *Native, a []Value, s ssa.Instruction) Value { return Iface{} }
	nativeMethods["reader.Close"] = func(e *Engine, n *Native, a []Value, s ssa.Instruction) Value { return Iface{} }

	// ---- ServeMux ----
	type route struct {
		method  string
		segs    []string
		handler Value
	}
	routesOf := func(e *Engine, mux Value, s ssa.Instruction) *[]route {
		cell := e.deref(mux, s)
		tab, _ := e.side["mux"].(map[*Value]*[]route)
		if tab == nil {
			tab = map[*Value]*[]route{}
			e.side["mux"] = tab
		}
		if tab[cell] == nil {
			tab[cell] = &[]route{}
		}
		return tab[cell]
	}
	reg("(*net/http.ServeMux).Handle", func(e *Engine, fn *ssa.Function, a []Value, s ssa.Instruction) Value {
		pat := constStr(e, a[1], "mux pattern", s)
		method := ""
		if i := strings.Index(pat, " "); i >= 0 {
			method, pat = pat[:i], strings.TrimSpace(pat[i+1:])
		}
		if !strings.HasPrefix(pat, "/") {
			e.goPanicf(s, "http: invalid pattern %q (must begin with '/')", pat)
		}
		rs := routesOf(e, a[0], s)
		for _, r := range *rs {
			if r.method == method && strings.Join(r.segs, "/") == strings.Join(strings.Split(pat, "/")[1:], "/") {
				e.goPanicf(s, "http: pattern %q conflicts with an earlier registration", pat)
			}
		}
		*rs = append(*rs, route{method: method, segs: strings.Split(pat, "/")[1:], handler: a[2]})
		return nil
	})
	reg("(*net/http.ServeMux).ServeHTTP", func(e *Engine, fn *ssa.Function, a []Value, s ssa.Instruction) Value {
		rs := routesOf(e, a[0], s)
		reqT := e.namedType("net/http", "Request")
		urlT := e.namedType("net/url", "URL")
		rc := e.deref(a[2], s)
		rstruct := (*rc).(Struct)
		method := T(getStructField(rstruct, reqT, "Method"))
		up := getStructField(rstruct, reqT, "URL").(Ptr)
		path := T(getStructField((*up.P).(Struct), urlT, "Path"))
		// split the path term into segments on the '/' of its constant parts
		var segs []*Term
		cur := mkStr("")
		first := true
		for _, p := range partsOf(path) {
			if p.Const {
				pieces := strings.Split(p.SVal, "/")
				for i, pc := range pieces {
					if i > 0 {
						if !first {
							segs = append(segs, cur)
						}
						first = false
						cur = mkStr("")
					}
					cur = strConcat(cur, mkStr(pc))
				}
				continue
			}
			if mayContain(p, '/') {
				e.abort("unsupported", "mux dispatch on a path whose symbolic part may contain '/'")
			}
			cur = concatKeepTags(cur, p)
		}
		segs = append(segs, cur)
		pathMatched := false
		for _, r := range *rs {
			if len(r.segs) != len(segs) {
				continue
			}
			ok := true
			binds := map[string]*Term{}
			for i, ps := range r.segs {
				if strings.HasPrefix(ps, "{") && strings.HasSuffix(ps, "}") {
					if e.decide(Eq(segs[i], mkStr(""))) {
						ok = false
						break
					}
					binds[strings.Trim(ps, "{}")] = e.unescapePath(segs[i])
					continue
				}
				if !e.decide(Eq(segs[i], mkStr(ps))) {
					ok = false
					break
				}
			}
			if !ok {
				continue
			}
			pathMatched = true
			if r.method != "" && !e.decide(Eq(method, mkStr(r.method))) {
				continue
			}
			ov := structFieldPtr(rstruct, reqT, "otherValues")
			m, _ := (*ov).(*Map)
			if m == nil {
				m = &Map{}
				*ov = m
			}
			for k, v := range binds {
				e.mapUpdate(m, mkStr(k), v)
			}
			h := r.handler.(Iface)
			var sh *types.Func
			it := e.namedType("net/http", "Handler").Underlying().(*types.Interface)
			for i := 0; i < it.NumMethods(); i++ {
				if it.Method(i).Name() == "ServeHTTP" {
					sh = it.Method(i)
				}
			}
			e.call(e.lookupMethod(h.T, sh, s), []Value{h.V, a[1], a[2]}, s)
			return nil
		}
		// no route: 404, or 405 when only the method differs
		w := a[1].(Iface)
		rwT := e.namedType("net/http", "ResponseWriter").Underlying().(*types.Interface)
		var wh, wr *types.Func
		for i := 0; i < rwT.NumMethods(); i++ {
			switch rwT.Method(i).Name() {
			case "WriteHeader":
				wh = rwT.Method(i)
			case "Write":
				wr = rwT.Method(i)
			}
		}
		code := 404
		if pathMatched {
			code = 405
		}
		e.call(e.lookupMethod(w.T, wh, s), []Value{w.V, mkBV(64, uint64(code))}, s)
		e.call(e.lookupMethod(w.T, wr, s), []Value{w.V, Bytes{T: mkStr("not found\n")}}, s)
		return nil
	})
}

// concatKeepTags concatenates, preserving escape/format tags when the left side is empty.
func concatKeepTags(a, b *Term) *Term {
	if a.Const && a.SVal == "" {
		return b
	}
	return strConcat(a, b)
}

func goPathEscape(s string) string {
	var b strings.Builder
	for i := 0; i < len(s); i++ {
		c := s[i]
		switch {
		case 'a' <= c && c <= 'z' || 'A' <= c && c <= 'Z' || '0' <= c && c <= '9' || strings.IndexByte("-_.~$&+:=@", c) >= 0:
			b.WriteByte(c)
		default:
			fmt.Fprintf(&b, "%%%02X", c)
		}
	}
	return b.String()
}

func goQueryEscape(s string) string {
	var b strings.Builder
	for i := 0; i < len(s); i++ {
		c := s[i]
		switch {
		case 'a' <= c && c <= 'z' || 'A' <= c && c <= 'Z' || '0' <= c && c <= '9' || strings.IndexByte("-_.~", c) >= 0:
			b.WriteByte(c)
		case c == ' ':
			b.WriteByte('+')
		default:
			fmt.Fprintf(&b, "%%%02X", c)
		}
	}
	return b.String()
}

func goPathUnescape(s string) string {
	var b strings.Builder
	for i := 0; i < len(s); i++ {
		if s[i] == '%' && i+2 < len(s) {
			var v int
			if _, err := fmt.Sscanf(s[i+1:i+3], "%02X", &v); err == nil {
				b.WriteByte(byte(v))
				i += 2
				continue
			}
		}
		b.WriteByte(s[i])
	}
	return b.String()
}

// pathClean models path.Clean on a concatenation whose symbolic parts are non-empty
// and contain neither '/' nor '.': only the slashes of the constant parts matter.
func (e *Engine) pathClean(t *Term, site ssa.Instruction) *Term {
	if t.Const {
		return mkStr(pathCleanConcrete(t.SVal))
	}
	var out []*Term
	ps := partsOf(t)
	for _, p := range ps {
		if p.Const {
			c := p.SVal
			if strings.Contains(c, ".") {
				e.abort("unsupported", "path.Clean with '.' segments next to symbolic parts")
			}
			for strings.Contains(c, "//") {
				c = strings.ReplaceAll(c, "//", "/")
			}
			// a constant part that follows a constant part ending in '/' must not start with '/'
			if len(out) > 0 && out[len(out)-1].Const && strings.HasSuffix(out[len(out)-1].SVal, "/") {
				c = strings.TrimPrefix(c, "/")
			}
			out = append(out, mkStr(c))
			continue
		}
		if mayContain(p, '/') || mayContain(p, '.') || !e.pcSet[Not(Eq(p, mkStr(""))).String()] {
			e.abort("unsupported", "path.Clean on a symbolic part that may be empty or contain '/' or '.'")
		}
		out = append(out, p)
	}
	// strip one trailing slash (the path is longer than "/": it has a symbolic part)
	if n := len(out); n > 0 && out[n-1].Const && strings.HasSuffix(out[n-1].SVal, "/") {
		out[n-1] = mkStr(strings.TrimSuffix(out[n-1].SVal, "/"))
	}
	return concatPartsKeep(out)
}

func pathCleanConcrete(s string) string { return pathpkg.Clean(s) }

func init() {
	reg("path.Clean", func(e *Engine, fn *ssa.Function, a []Value, s ssa.Instruction) Value {
		return e.pathClean(T(a[0]), s)
	})
	reg("path.Join", func(e *Engine, fn *ssa.Function, a []Value, s ssa.Instruction) Value {
		var elems []*Term
		for _, x := range argSlice(a[0]) {
			t := T(x)
			if t.Const && t.SVal == "" {
				continue
			}
			elems = append(elems, t)
		}
		if len(elems) == 0 {
			return mkStr("")
		}
		j := elems[0]
		for _, x := range elems[1:] {
			j = strConcat(strConcat(j, mkStr("/")), x)
		}
		return e.pathClean(j, s)
	})
}
