package main

import (
	"fmt"
	"go/types"
	"strings"

	"golang.org/x/tools/go/ssa"
)

// Value is one of:
//   *Term                 bool / integers / floats / strings (possibly symbolic)
//   Ptr                   pointer to an engine cell (nil pointer: P == nil)
//   Struct, Array         aggregates with value semantics (copied on load/store)
//   Slice                 Go slice over engine cells (aliasing preserved)
//   Bytes                 immutable, possibly symbolic []byte
//   *Map                  insertion-ordered association list
//   Iface                 interface value (T == nil: nil interface)
//   *ssa.Function, *ssa.Builtin, *Closure   function values; nil: nil func
//   Tuple                 multi-value results
//   *Native               opaque engine-modelled object
type Value interface{}

type Ptr struct {
	P  *Value
	RO bool
}

type Struct []Value
type Array []Value
type Slice []Value

type Bytes struct{ T *Term }

type Map struct {
	Keys []Value
	Vals []Value
}

type Iface struct {
	T types.Type
	V Value
}

type Closure struct {
	Fn  *ssa.Function
	Env []Value
}

type Tuple []Value

type Native struct {
	Kind string
	Data interface{}
}

// iterator state for Range/Next
type mapIter struct {
	m     *Map
	order []int
	pos   int
}
type strIter struct {
	s   *Term
	pos int
}

func isNilPtr(v Value) bool {
	p, ok := v.(Ptr)
	return ok && p.P == nil
}

func copyVal(v Value) Value {
	switch x := v.(type) {
	case Struct:
		n := make(Struct, len(x))
		for i, f := range x {
			n[i] = copyVal(f)
		}
		return n
	case Array:
		n := make(Array, len(x))
		for i, f := range x {
			n[i] = copyVal(f)
		}
		return n
	}
	return v
}

func bvWidthOf(b *types.Basic) (w int, signed bool) {
	switch b.Kind() {
	case types.Int8:
		return 8, true
	case types.Int16:
		return 16, true
	case types.Int32, types.UntypedRune:
		return 32, true
	case types.Int, types.Int64, types.UntypedInt:
		return 64, true
	case types.Uint8:
		return 8, false
	case types.Uint16:
		return 16, false
	case types.Uint32:
		return 32, false
	case types.Uint, types.Uint64, types.Uintptr:
		return 64, false
	}
	return 0, false
}

func isSignedType(t types.Type) bool {
	if b, ok := t.Underlying().(*types.Basic); ok {
		_, s := bvWidthOf(b)
		return s
	}
	return false
}

func zero(t types.Type) Value {
	switch u := t.Underlying().(type) {
	case *types.Basic:
		switch {
		case u.Kind() == types.UnsafePointer:
			return Ptr{}
		case u.Info()&types.IsBoolean != 0:
			return tFalse
		case u.Info()&types.IsString != 0:
			return mkStr("")
		case u.Info()&types.IsInteger != 0:
			w, s := bvWidthOf(u)
			if s {
				return mkBV(w, 0)
			}
			return mkBVU(w, 0)
		case u.Info()&types.IsFloat != 0:
			if u.Kind() == types.Float32 {
				return mkFP(32, 0)
			}
			return mkFP(64, 0)
		case u.Kind() == types.UntypedNil:
			return Ptr{}
		}
		panic(fmt.Sprintf("zero: unsupported basic type %v", t))
	case *types.Pointer:
		return Ptr{}
	case *types.Struct:
		s := make(Struct, u.NumFields())
		for i := range s {
			s[i] = zero(u.Field(i).Type())
		}
		return s
	case *types.Array:
		a := make(Array, u.Len())
		for i := range a {
			a[i] = zero(u.Elem())
		}
		return a
	case *types.Slice:
		return Slice(nil)
	case *types.Map:
		return (*Map)(nil)
	case *types.Interface:
		return Iface{}
	case *types.Signature:
		return nil
	case *types.Chan:
		return (*Native)(nil)
	case *types.Tuple:
		tu := make(Tuple, u.Len())
		for i := range tu {
			tu[i] = zero(u.At(i).Type())
		}
		return tu
	}
	panic(fmt.Sprintf("zero: unsupported type %v (%T)", t, t.Underlying()))
}

// bytesOf returns the string-term view of a []byte-like value.
func bytesOf(v Value) (*Term, bool) {
	switch x := v.(type) {
	case Bytes:
		return x.T, true
	case Slice:
		r := mkStr("")
		for _, e := range x {
			t, ok := e.(*Term)
			if !ok || t.K != KBV {
				return nil, false
			}
			if t.Const {
				r = strConcat(r, mkStr(string([]byte{byte(t.UVal)})))
			} else {
				r = strConcat(r, strFromCode(intOf(bvZext(t, 64), false)))
			}
		}
		return r, true
	}
	return nil, false
}

func (e *Engine) eqValues(a, b Value) *Term {
	switch x := a.(type) {
	case *Term:
		y, ok := b.(*Term)
		if !ok {
			panic(fmt.Sprintf("eqValues: %T vs %T", a, b))
		}
		return Eq(x, y)
	case Ptr:
		y, ok := b.(Ptr)
		if !ok {
			panic(fmt.Sprintf("eqValues: Ptr vs %T", b))
		}
		return mkBool(x.P == y.P)
	case Struct:
		y := b.(Struct)
		r := tTrue
		for i := range x {
			r = And(r, e.eqValues(x[i], y[i]))
		}
		return r
	case Array:
		y := b.(Array)
		r := tTrue
		for i := range x {
			r = And(r, e.eqValues(x[i], y[i]))
		}
		return r
	case Iface:
		y, ok := b.(Iface)
		if !ok {
			panic(fmt.Sprintf("eqValues: Iface vs %T", b))
		}
		if x.T == nil || y.T == nil {
			return mkBool(x.T == nil && y.T == nil)
		}
		if !types.Identical(x.T, y.T) {
			return tFalse
		}
		return e.eqValues(x.V, y.V)
	case Slice:
		// only comparison with nil is legal
		switch y := b.(type) {
		case Slice:
			return mkBool(x == nil && y == nil)
		case Bytes:
			return tFalse
		}
	case Bytes:
		return tFalse
	case *Map:
		y := b.(*Map)
		return mkBool(x == y)
	case nil:
		return mkBool(b == nil)
	case *ssa.Function, *Closure, *ssa.Builtin:
		return mkBool(b != nil && a == b)
	case *Native:
		y, ok := b.(*Native)
		return mkBool(ok && x == y)
	}
	panic(fmt.Sprintf("eqValues: unsupported %T vs %T", a, b))
}

// describe renders a value for logs/evidence.
func describe(v Value) string {
	switch x := v.(type) {
	case nil:
		return "nil"
	case *Term:
		if x.Const {
			switch x.K {
			case KStr:
				return fmt.Sprintf("%q", x.SVal)
			case KBV:
				return fmt.Sprint(x.UVal)
			case KBool:
				return fmt.Sprint(x.BVal)
			}
		}
		s := x.String()
		if len(s) > 120 {
			s = s[:120] + "…"
		}
		return s
	case Ptr:
		if x.P == nil {
			return "nil"
		}
		return "&" + describe(*x.P)
	case Struct:
		parts := []string{}
		for _, f := range x {
			parts = append(parts, describe(f))
		}
		return "{" + strings.Join(parts, ",") + "}"
	case Slice:
		parts := []string{}
		for _, f := range x {
			parts = append(parts, describe(f))
		}
		return "[" + strings.Join(parts, ",") + "]"
	case Iface:
		if x.T == nil {
			return "nil-iface"
		}
		return fmt.Sprintf("iface(%v)", x.T)
	}
	return fmt.Sprintf("%T", v)
}
