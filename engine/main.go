package main

import (
	"encoding/json"
	"flag"
	"fmt"
	"os"
	"strings"
	"time"

	"golang.org/x/tools/go/packages"
	"golang.org/x/tools/go/ssa"
	"golang.org/x/tools/go/ssa/ssautil"
)

func main() {
	dir := flag.String("dir", "/repo", "module directory to load from")
	overlayFile := flag.String("overlay", "", "JSON file {virtual path: real path} of harness files")
	pkgsFlag := flag.String("pkgs", "", "comma separated package patterns to load")
	harness := flag.String("harness", "", "comma separated <pkgpath>.<Func> entry points")
	initPkgs := flag.String("init", "", "comma separated package paths whose init is executed")
	out := flag.String("out", "", "result JSON file")
	solverCmd := flag.String("solver", "chain", "solver command line, or \"chain\" = z3 4.8.12 -> cvc5 -> z3 5.1.0")
	qTimeout := flag.Int("qtimeout", 20000, "per query timeout (ms)")
	maxPaths := flag.Int("maxpaths", 20000, "path budget per harness")
	maxDec := flag.Int("maxdecisions", 400, "symbolic decisions per path")
	maxDepth := flag.Int("maxdepth", 120, "call depth bound")
	maxSteps := flag.Int("maxsteps", 20000000, "SSA instructions per path")
	mapPerm := flag.Bool("mapperm", false, "explore all iteration orders of maps with 2..4 entries")
	budget := flag.Duration("budget", 0, "wall time budget per harness")
	verbose := flag.Bool("v", false, "verbose")
	smtlog := flag.String("smtlog", "", "write solver input to file")
	tags := flag.String("tags", "verif", "build tags")
	thorough := flag.Bool("thorough", false, "thorough tier (zzverif.Thorough() is true)")
	samples := flag.Int("samples", 0, "number of validation samples (models of completed paths)")
	part := flag.String("part", "", "explore partition i/n of the path space (n a power of two)")
	seed := flag.Int64("seed", 0, "seed (only affects which paths are sampled)")
	flag.Parse()

	overlay := map[string][]byte{}
	if *overlayFile != "" {
		b, err := os.ReadFile(*overlayFile)
		if err != nil {
			fatal(err)
		}
		var m map[string]string
		if err := json.Unmarshal(b, &m); err != nil {
			fatal(err)
		}
		for virt, real := range m {
			c, err := os.ReadFile(real)
			if err != nil {
				fatal(err)
			}
			overlay[virt] = c
		}
	}
	t0 := time.Now()
	cfg := &packages.Config{Dir: *dir, Mode: packages.LoadAllSyntax, Overlay: overlay, BuildFlags: []string{"-tags=" + *tags}}
	pkgs, err := packages.Load(cfg, strings.Split(*pkgsFlag, ",")...)
	if err != nil {
		fatal(err)
	}
	if packages.PrintErrors(pkgs) > 0 {
		fatal(fmt.Errorf("package load errors"))
	}
	prog, _ := ssautil.AllPackages(pkgs, ssa.InstantiateGenerics)
	prog.Build()
	loadT := time.Since(t0)

	var results []*Result
	for _, h := range strings.Split(*harness, ",") {
		h = strings.TrimSpace(h)
		if h == "" {
			continue
		}
		i := strings.LastIndex(h, ".")
		pkg := prog.ImportedPackage(h[:i])
		if pkg == nil {
			fatal(fmt.Errorf("package %s not loaded", h[:i]))
		}
		fn := pkg.Func(h[i+1:])
		if fn == nil {
			fatal(fmt.Errorf("harness %s not found", h))
		}
		solver, err := NewSolver(strings.Fields(*solverCmd), *qTimeout, *smtlog)
		if err != nil {
			fatal(err)
		}
		c := Config{MaxDecisions: *maxDec, MaxDepth: *maxDepth, MaxSteps: *maxSteps, MaxPaths: *maxPaths, MapPerm: *mapPerm,
			MaxWitness: 3, Verbose: *verbose, TimeBudget: *budget, Thorough: *thorough, Samples: *samples, Seed: *seed}
		if *part != "" {
			fmt.Sscanf(*part, "%d/%d", &c.PartI, &c.PartN)
		}
		if *initPkgs != "" {
			c.InitPkgs = strings.Split(*initPkgs, ",")
		}
		eng := NewEngine(prog, solver, c)
		start := time.Now()
		eng.Explore(fn)
		res := eng.Result(h, time.Since(start))
		res.Config["package_load_s"] = loadT.Seconds()
		results = append(results, res)
		solver.Close()
		fmt.Fprintf(os.Stderr, "[gosym] %s: paths=%d completed=%d aborted=%v panics=%d queries=%d solver=%.1fs wall=%.1fs\n",
			h, res.Stats.Paths, res.Stats.Completed, res.Stats.Aborted, res.Stats.Panics, solver.Queries, solver.Time.Seconds(), res.WallS)
		for _, o := range res.Obligations {
			fmt.Fprintf(os.Stderr, "    %-8s %-50s checks=%d unsat=%d sat=%d unknown=%d\n", o.Kind, o.ID, o.Checks, o.Unsat, o.Sat, o.Unknown)
		}
		for k, v := range res.AbortInfo {
			fmt.Fprintf(os.Stderr, "    abort: %s [%s]\n", k, v)
		}
	}
	if *out != "" {
		if err := writeJSON(*out, results); err != nil {
			fatal(err)
		}
	}
}

func fatal(err error) {
	fmt.Fprintln(os.Stderr, "gosym:", err)
	os.Exit(2)
}
