package main

import (
	"fmt"
	"go/constant"
	"go/token"
	"go/types"
	"math/big"
	"os"
	"strings"

	"golang.org/x/tools/go/ssa"
)

// ---- path control ----

type pathEnd struct {
	kind string // "infeasible", "unsupported", "bound", "stop"
	msg  string
}

type goPanic struct {
	val   Value
	msg   string
	where string
}

type nativeCall struct {
	n      *Native
	method string
}

type frame struct {
	fn       *ssa.Function
	env      map[ssa.Value]Value
	block    *ssa.BasicBlock
	prev     *ssa.BasicBlock
	defers   []func()
	result   Value
	panicked *goPanic
	caller   *frame
	site     ssa.Instruction
}

func (e *Engine) abort(kind, format string, a ...interface{}) {
	msg := fmt.Sprintf(format, a...)
	if kind == "unsupported" || kind == "bound" {
		st := e.stack
		if len(st) > 6 {
			st = st[len(st)-6:]
		}
		msg += " [stack: " + strings.Join(st, " > ") + "]"
	}
	panic(pathEnd{kind, msg})
}

func (e *Engine) goPanicf(where ssa.Instruction, format string, a ...interface{}) {
	w := ""
	if where != nil {
		w = e.posOf(where)
	}
	panic(&goPanic{msg: fmt.Sprintf(format, a...), where: w})
}

func (e *Engine) posOf(in ssa.Instruction) string {
	if in == nil {
		return ""
	}
	p := e.prog.Fset.Position(in.Pos())
	fn := ""
	if in.Parent() != nil {
		fn = in.Parent().String()
	}
	if p.IsValid() {
		return fmt.Sprintf("%s (%s:%d)", fn, shortFile(p.Filename), p.Line)
	}
	return fn
}

func shortFile(f string) string {
	parts := strings.Split(f, "/")
	if len(parts) > 3 {
		parts = parts[len(parts)-3:]
	}
	return strings.Join(parts, "/")
}

// ---- decisions ----

func (e *Engine) addPC(c *Term) {
	if c.Const && c.BVal {
		return
	}
	txt := c.String()
	if e.pcSet[txt] {
		return
	}
	e.pcSet[txt] = true
	e.pc = append(e.pc, c)
	e.trackSimple(c)
}

// simpleDom tracks variables that are constrained only by (dis)equalities with
// constants, so that decisions on them need no solver call.
type simpleDom struct {
	eq      *string
	neq     map[string]bool
	complex bool
	isBool  bool
}

// simpleAtom recognises v, (not v), (= v c), (not (= v c)) for a variable v.
func simpleAtom(c *Term) (v *Term, val string, positive bool, ok bool) {
	positive = true
	if c.Op == "not" {
		positive = false
		c = c.Args[0]
	}
	if c.Op == "var" && c.K == KBool {
		return c, "true", positive, true
	}
	if c.Op == "=" && len(c.Args) == 2 {
		a, b := c.Args[0], c.Args[1]
		if b.Op == "var" && a.Const {
			a, b = b, a
		}
		if a.Op == "var" && (a.K == KBV || a.K == KStr) && b.Const {
			return a, b.String(), positive, true
		}
	}
	return nil, "", false, false
}

func (e *Engine) dom(name string) *simpleDom {
	d, ok := e.doms[name]
	if !ok {
		d = &simpleDom{neq: map[string]bool{}}
		e.doms[name] = d
	}
	return d
}

func (e *Engine) trackSimple(c *Term) {
	if v, val, pos, ok := simpleAtom(c); ok {
		d := e.dom(v.Name)
		d.isBool = v.K == KBool
		if d.isBool {
			x := "false"
			if pos {
				x = "true"
			}
			d.eq = &x
			return
		}
		if pos {
			x := val
			d.eq = &x
		} else {
			d.neq[val] = true
		}
		return
	}
	vars := map[string]*Term{}
	collectVars(c, map[*Term]bool{}, vars)
	for n := range vars {
		e.dom(n).complex = true
	}
}

// decideSimple answers a decision syntactically when possible:
// (known, value) or (bothFeasible).
func (e *Engine) decideSimple(c *Term) (known bool, value bool, both bool) {
	v, val, pos, ok := simpleAtom(c)
	if !ok {
		return false, false, false
	}
	d := e.dom(v.Name)
	if d.complex {
		return false, false, false
	}
	if v.K == KBool {
		if d.eq != nil {
			return true, (*d.eq == "true") == pos, false
		}
		return false, false, true
	}
	if v.K == KStr {
		// string variables carry an alphabet/length constraint (complex), handled below
		return false, false, false
	}
	if d.eq != nil {
		return true, (*d.eq == val) == pos, false
	}
	if d.neq[val] {
		return true, !pos, false
	}
	if v.W >= 8 && len(d.neq) < 100 {
		return false, false, true
	}
	return false, false, false
}

func (e *Engine) feasible(c *Term) string {
	as := append(append([]*Term{}, e.pc...), c)
	r, _ := e.solver.Check(as, nil)
	return r
}

// simp rewrites a Boolean term under the facts already in the path condition
// (syntactic: sub-terms that occur, or whose negation occurs, in the path condition).
func (e *Engine) simp(t *Term) *Term {
	if t.Const || t.K != KBool {
		return t
	}
	if e.pcSet[t.String()] {
		return tTrue
	}
	switch t.Op {
	case "not":
		if e.pcSet[t.Args[0].String()] {
			return tFalse
		}
		return Not(e.simp(t.Args[0]))
	case "and":
		return And(e.simp(t.Args[0]), e.simp(t.Args[1]))
	case "or":
		return Or(e.simp(t.Args[0]), e.simp(t.Args[1]))
	case "ite":
		return Ite(e.simp(t.Args[0]), e.simp(t.Args[1]), e.simp(t.Args[2]))
	case "=":
		if t.Args[0].K == KBool {
			return Eq(e.simp(t.Args[0]), e.simp(t.Args[1]))
		}
	}
	if e.pcSet["(not "+t.String()+")"] {
		return tFalse
	}
	return t
}

// decide resolves a symbolic Boolean, forking the exploration when both
// outcomes are feasible under the current path condition.
func (e *Engine) decide(c *Term) bool {
	if c.K != KBool {
		panic("decide on non-bool")
	}
	if c.Const {
		return c.BVal
	}
	if sc := e.simp(c); sc.Const {
		// implied by the path condition: no decision is recorded (replays see the same)
		return sc.BVal
	}
	if e.dpos < len(e.prefix) {
		d := e.prefix[e.dpos]
		e.dpos++
		e.decided = append(e.decided, d)
		if e.seeded {
			// partition prefixes were not produced by a fork: check them
			if known, kv, _ := e.decideSimple(c); known && kv != d {
				e.abort("infeasible", "partition prefix contradicts path condition")
			}
		}
		if d {
			e.addPC(c)
		} else {
			e.addPC(Not(c))
		}
		if e.seeded && e.dpos == len(e.prefix) {
			if r, _ := e.solver.Check(e.pc, nil); r == "unsat" {
				e.abort("infeasible", "partition prefix infeasible")
			}
		}
		return d
	}
	if len(e.decided) >= e.cfg.MaxDecisions {
		e.abort("bound", "decision bound %d exceeded", e.cfg.MaxDecisions)
	}
	e.stats.Branches++
	var d bool
	known, kv, both := e.decideSimple(c)
	if !known && !both {
		if e.pcSet[c.String()] {
			known, kv = true, true
		} else if e.pcSet[Not(c).String()] {
			known, kv = true, false
		}
	}
	var rT string
	if known {
		rT = "skip"
		d = kv
	} else if both {
		rT = "skip"
		alt := append(append([]bool{}, e.decided...), false)
		e.work = append(e.work, alt)
		d = true
	} else {
		rT = e.feasible(c)
	}
	if rT == "skip" {
	} else if rT == "unsat" {
		d = false
	} else {
		rF := e.feasible(Not(c))
		if rF == "unsat" {
			d = true
		} else {
			if rT == "unknown" || rF == "unknown" {
				e.stats.UnknownBranches++
			}
			// fork: schedule the false side
			alt := append(append([]bool{}, e.decided...), false)
			e.work = append(e.work, alt)
			d = true
		}
	}
	e.decided = append(e.decided, d)
	e.dpos++
	if d {
		e.addPC(c)
	} else {
		e.addPC(Not(c))
	}
	return d
}

// concretize forks over the feasible values lo..hi of an integer term.
func (e *Engine) concretize(t *Term, lo, hi int64, what string) int64 {
	if t.Const {
		if t.K == KInt {
			return t.IVal.Int64()
		}
		return signExt(t.UVal, t.W)
	}
	for v := lo; v <= hi; v++ {
		var c *Term
		if t.K == KInt {
			c = Eq(t, mkInt(v))
		} else {
			c = Eq(t, mkBV(t.W, uint64(v)))
		}
		if e.decide(c) {
			return v
		}
	}
	e.abort("infeasible", "concretize %s: no value in [%d,%d]", what, lo, hi)
	return 0
}

// ---- function execution ----

func (e *Engine) call(fnv Value, args []Value, site ssa.Instruction) Value {
	switch fn := fnv.(type) {
	case *ssa.Function:
		return e.callFunction(fn, args, nil, site)
	case *Closure:
		return e.callFunction(fn.Fn, args, fn.Env, site)
	case *ssa.Builtin:
		return e.callBuiltin(fn, args, site)
	case *nativeCall:
		m, ok := nativeMethods[fn.n.Kind+"."+fn.method]
		if !ok {
			e.abort("unsupported", "method %s on engine object %s has no model at %s", fn.method, fn.n.Kind, e.posOf(site))
		}
		e.model[fn.n.Kind+"."+fn.method] = true
		return m(e, fn.n, args[1:], site)
	case nil:
		e.goPanicf(site, "call of nil function")
	}
	panic(fmt.Sprintf("call: unsupported function value %T", fnv))
}

func funcKey(fn *ssa.Function) string {
	if o := fn.Origin(); o != nil {
		return o.String()
	}
	return fn.String()
}

func (e *Engine) callFunction(fn *ssa.Function, args []Value, env []Value, site ssa.Instruction) Value {
	key := verifKey(funcKey(fn))
	if ic, ok := intercepts[key]; ok {
		e.noteFunc(key, true, 0)
		return ic(e, fn, args, site)
	}
	if fn.Name() == "init" && fn.Pkg != nil && fn.Parent() == nil && fn.Signature.Recv() == nil {
		if !e.initAllowed(fn.Pkg) || e.initDone[fn.Pkg] && len(e.stack) > 0 && false {
			return nil // initialisers of packages outside the -init list are not executed
		}
		e.initDone[fn.Pkg] = true
	}
	if n := fn.Name(); strings.HasPrefix(n, "file_") && (strings.HasSuffix(n, "_proto_init") || strings.HasSuffix(n, "_rawDescGZIP")) {
		return nil // protobuf type registration: not needed by any code in scope
	}
	if v, ok := e.generatedEnumString(fn, args); ok {
		return v
	}
	if v, ok := e.protoReflectOf(fn, args); ok {
		return v
	}
	if fn.Blocks == nil {
		// synthesized wrappers have bodies after Build; truly external otherwise
		e.abort("unsupported", "call to function without body and without model: %s (at %s)", key, e.posOf(site))
	}
	if e.depth >= e.cfg.MaxDepth {
		e.recursionExceeded(fn, site)
	}
	e.depth++
	e.stack = append(e.stack, key)
	defer func() {
		if r := recover(); r != nil {
			if e.bugStack == nil {
				e.bugStack = append([]string{}, e.stack...)
			}
			e.depth--
			e.stack = e.stack[:len(e.stack)-1]
			panic(r)
		}
		e.depth--
		e.stack = e.stack[:len(e.stack)-1]
	}()
	e.noteFunc(key, false, countInstrs(fn))

	fr := &frame{fn: fn, env: make(map[ssa.Value]Value, 32), site: site}
	for i, p := range fn.Params {
		fr.env[p] = args[i]
	}
	for i, fv := range fn.FreeVars {
		fr.env[fv] = env[i]
	}
	e.runFrame(fr)
	return fr.result
}

func countInstrs(fn *ssa.Function) int {
	n := 0
	for _, b := range fn.Blocks {
		n += len(b.Instrs)
	}
	return n
}

func (e *Engine) recursionExceeded(fn *ssa.Function, site ssa.Instruction) {
	if e.stepCap > 0 {
		e.abort("budget", "call depth %d exceeded entering %s", e.cfg.MaxDepth, fn.String())
	}
	e.events = append(e.events, Event{Kind: "recursion-bound", Msg: fmt.Sprintf("call depth %d exceeded entering %s", e.cfg.MaxDepth, fn.String())})
	e.abort("bound", "recursion depth %d exceeded at %s", e.cfg.MaxDepth, fn.String())
}

func (e *Engine) runFrame(fr *frame) {
	fr.block = fr.fn.Blocks[0]
	defer func() {
		if fr.panicked == nil {
			return
		}
	}()
	func() {
		defer func() {
			r := recover()
			if r == nil {
				return
			}
			gp, ok := r.(*goPanic)
			if !ok {
				panic(r) // pathEnd or engine bug: unwind fully
			}
			// Go-level panic: run deferred calls, allow recover()
			fr.panicked = gp
			e.runDefers(fr)
			if fr.panicked != nil {
				panic(fr.panicked)
			}
			// recovered: named results are read from the Recover block
			if fr.fn.Recover != nil {
				fr.block = fr.fn.Recover
				e.runBlocks(fr)
			}
		}()
		e.runBlocks(fr)
	}()
}

func (e *Engine) runDefers(fr *frame) {
	if fr.panicked != nil {
		saved := e.recovering
		e.recovering = &fr.panicked
		defer func() { e.recovering = saved }()
	}
	for len(fr.defers) > 0 {
		d := fr.defers[len(fr.defers)-1]
		fr.defers = fr.defers[:len(fr.defers)-1]
		d()
	}
}

func (e *Engine) runBlocks(fr *frame) {
	for {
		b := fr.block
		var next *ssa.BasicBlock
		for _, in := range b.Instrs {
			e.steps++
			if e.steps > e.cfg.MaxSteps {
				e.abort("bound", "step bound %d exceeded", e.cfg.MaxSteps)
			}
			if e.stepCap > 0 && e.steps > e.stepCap {
				e.abort("budget", "work budget exceeded")
			}
			switch x := in.(type) {
			case *ssa.Phi:
				for i, p := range b.Preds {
					if p == fr.prev {
						fr.env[x] = e.get(fr, x.Edges[i])
						break
					}
				}
			case *ssa.Jump:
				next = b.Succs[0]
			case *ssa.If:
				c := e.get(fr, x.Cond).(*Term)
				if e.decide(c) {
					next = b.Succs[0]
				} else {
					next = b.Succs[1]
				}
			case *ssa.Return:
				switch len(x.Results) {
				case 0:
					fr.result = nil
				case 1:
					fr.result = e.get(fr, x.Results[0])
				default:
					t := make(Tuple, len(x.Results))
					for i, r := range x.Results {
						t[i] = e.get(fr, r)
					}
					fr.result = t
				}
				return
			case *ssa.Panic:
				v := e.get(fr, x.X)
				panic(&goPanic{val: v, msg: e.panicText(v), where: e.posOf(x)})
			case *ssa.RunDefers:
				e.runDefers(fr)
			default:
				e.cur = in
				e.exec(fr, in)
			}
		}
		if next == nil {
			panic("block without terminator: " + fr.fn.String())
		}
		fr.prev = b
		fr.block = next
	}
}

func (e *Engine) panicText(v Value) string {
	if i, ok := v.(Iface); ok && i.T != nil {
		if t, ok := i.V.(*Term); ok && t.K == KStr {
			if t.Const {
				return t.SVal
			}
			return "<symbolic string>"
		}
		return fmt.Sprintf("panic value of type %v", i.T)
	}
	return "panic"
}

func (e *Engine) get(fr *frame, v ssa.Value) Value {
	switch x := v.(type) {
	case *ssa.Const:
		return e.constValue(x)
	case *ssa.Global:
		return Ptr{P: e.globalCell(x)}
	case *ssa.Function:
		return x
	case *ssa.Builtin:
		return x
	}
	r, ok := fr.env[v]
	if !ok {
		panic(fmt.Sprintf("get: no value for %s (%T) in %s", v.Name(), v, fr.fn))
	}
	return r
}

func (e *Engine) globalCell(g *ssa.Global) *Value {
	if c, ok := e.globals[g]; ok {
		return c
	}
	elem := g.Type().(*types.Pointer).Elem()
	var v Value
	if init, ok := e.globalInit(g, elem); ok {
		v = init
	} else {
		v = zero(elem)
	}
	c := new(Value)
	*c = v
	e.globals[g] = c
	return c
}

func (e *Engine) constValue(c *ssa.Const) Value {
	t := c.Type()
	if c.Value == nil {
		return zero(t)
	}
	if tp, ok := t.(*types.TypeParam); ok {
		_ = tp
		panic("const of type parameter type")
	}
	switch u := t.Underlying().(type) {
	case *types.Basic:
		switch {
		case u.Info()&types.IsBoolean != 0:
			return mkBool(constant.BoolVal(c.Value))
		case u.Info()&types.IsString != 0:
			return mkStr(constant.StringVal(c.Value))
		case u.Info()&types.IsInteger != 0:
			w, s := bvWidthOf(u)
			bi, _ := new(big.Int).SetString(constant.ToInt(c.Value).ExactString(), 10)
			m := new(big.Int).And(bi, new(big.Int).SetUint64(^uint64(0)))
			if s {
				return mkBV(w, m.Uint64())
			}
			return mkBVU(w, m.Uint64())
		case u.Info()&types.IsFloat != 0:
			f, _ := constant.Float64Val(c.Value)
			if u.Kind() == types.Float32 {
				return mkFPVal(32, f)
			}
			return mkFPVal(64, f)
		}
	}
	panic(fmt.Sprintf("constValue: unsupported const %v of type %v", c.Value, t))
}

// ---- instructions ----

func (e *Engine) deref(p Value, where ssa.Instruction) *Value {
	ptr, ok := p.(Ptr)
	if !ok {
		panic(fmt.Sprintf("deref of non-pointer %T at %s", p, e.posOf(where)))
	}
	if ptr.P == nil {
		e.goPanicf(where, "nil pointer dereference")
	}
	return ptr.P
}

func (e *Engine) exec(fr *frame, in ssa.Instruction) {
	switch x := in.(type) {
	case *ssa.DebugRef:
	case *ssa.Alloc:
		c := new(Value)
		*c = zero(x.Type().(*types.Pointer).Elem())
		fr.env[x] = Ptr{P: c}
	case *ssa.UnOp:
		fr.env[x] = e.unop(fr, x)
	case *ssa.BinOp:
		fr.env[x] = e.binop(x.Op, x.X.Type(), e.get(fr, x.X), e.get(fr, x.Y), x)
	case *ssa.Store:
		p := e.get(fr, x.Addr).(Ptr)
		if p.P == nil {
			e.goPanicf(x, "nil pointer dereference (store)")
		}
		if p.RO {
			e.abort("unsupported", "store through read-only (symbolic bytes) pointer at %s", e.posOf(x))
		}
		e.noteStore(p, x)
		*p.P = copyVal(e.get(fr, x.Val))
	case *ssa.Call:
		fr.env[x] = e.execCall(fr, &x.Call, x)
	case *ssa.Defer:
		fnv, args := e.prepareCall(fr, &x.Call, x)
		fr.defers = append(fr.defers, func() { e.call(fnv, args, x) })
	case *ssa.Go:
		e.events = append(e.events, Event{Kind: "go-statement", Msg: e.posOf(x)})
		e.abort("unsupported", "go statement at %s", e.posOf(x))
	case *ssa.MakeInterface:
		fr.env[x] = Iface{T: x.X.Type(), V: e.get(fr, x.X)}
	case *ssa.ChangeInterface:
		fr.env[x] = e.get(fr, x.X)
	case *ssa.ChangeType:
		fr.env[x] = e.get(fr, x.X)
	case *ssa.Convert:
		fr.env[x] = e.convert(x.X.Type(), x.Type(), e.get(fr, x.X), x)
	case *ssa.MultiConvert:
		fr.env[x] = e.convert(x.X.Type(), x.Type(), e.get(fr, x.X), x)
	case *ssa.SliceToArrayPointer:
		s := e.get(fr, x.X).(Slice)
		c := new(Value)
		n := x.Type().(*types.Pointer).Elem().Underlying().(*types.Array).Len()
		*c = Array(s[:n])
		fr.env[x] = Ptr{P: c}
	case *ssa.MakeClosure:
		cl := &Closure{Fn: x.Fn.(*ssa.Function)}
		for _, b := range x.Bindings {
			cl.Env = append(cl.Env, e.get(fr, b))
		}
		fr.env[x] = cl
	case *ssa.MakeSlice:
		n := e.concreteInt(e.get(fr, x.Len), x, "make len")
		c := e.concreteInt(e.get(fr, x.Cap), x, "make cap")
		if n < 0 || c < n || c > 1<<20 {
			e.goPanicf(x, "makeslice: len/cap out of range")
		}
		s := make(Slice, n, c)
		et := x.Type().Underlying().(*types.Slice).Elem()
		full := s[:c]
		for i := range full {
			full[i] = zero(et)
		}
		fr.env[x] = s
	case *ssa.MakeMap:
		fr.env[x] = &Map{}
	case *ssa.MakeChan:
		e.abort("unsupported", "make chan at %s", e.posOf(x))
	case *ssa.FieldAddr:
		p := e.deref(e.get(fr, x.X), x)
		st := (*p).(Struct)
		fr.env[x] = Ptr{P: &st[x.Field]}
	case *ssa.Field:
		fr.env[x] = copyVal(e.get(fr, x.X).(Struct)[x.Field])
	case *ssa.IndexAddr:
		fr.env[x] = e.indexAddr(fr, x)
	case *ssa.Index:
		fr.env[x] = e.index(fr, x)
	case *ssa.Lookup:
		fr.env[x] = e.lookup(fr, x)
	case *ssa.MapUpdate:
		m := e.get(fr, x.Map).(*Map)
		if m == nil {
			e.goPanicf(x, "assignment to entry in nil map")
		}
		e.mapUpdate(m, e.get(fr, x.Key), copyVal(e.get(fr, x.Value)))
	case *ssa.Slice:
		fr.env[x] = e.sliceOp(fr, x)
	case *ssa.Range:
		fr.env[x] = e.rangeOp(fr, x)
	case *ssa.Next:
		fr.env[x] = e.nextOp(fr, x)
	case *ssa.Extract:
		fr.env[x] = e.get(fr, x.Tuple).(Tuple)[x.Index]
	case *ssa.TypeAssert:
		fr.env[x] = e.typeAssert(fr, x)
	case *ssa.Select, *ssa.Send:
		e.abort("unsupported", "channel operation at %s", e.posOf(in))
	default:
		panic(fmt.Sprintf("exec: unsupported instruction %T at %s", in, e.posOf(in)))
	}
}

func (e *Engine) concreteInt(v Value, where ssa.Instruction, what string) int64 {
	t := v.(*Term)
	if t.Const {
		return signExt(t.UVal, t.W)
	}
	return e.concretize(t, 0, 16, what)
}

func (e *Engine) prepareCall(fr *frame, c *ssa.CallCommon, site ssa.Instruction) (Value, []Value) {
	var args []Value
	var fnv Value
	if c.IsInvoke() {
		recv := e.get(fr, c.Value).(Iface)
		if recv.T == nil {
			e.goPanicf(site, "nil interface method call %s", c.Method.Name())
		}
		var nat *Native
		if n, ok := recv.V.(*Native); ok && n != nil {
			nat = n
		} else if p, ok := recv.V.(Ptr); ok && p.P != nil {
			if n, ok := (*p.P).(*Native); ok && n != nil {
				if _, has := nativeMethods[n.Kind+"."+c.Method.Name()]; has {
					nat = n
				}
			}
		}
		if nat != nil {
			fnv = &nativeCall{n: nat, method: c.Method.Name()}
		} else {
			fnv = e.lookupMethod(recv.T, c.Method, site)
		}
		args = append(args, recv.V)
	} else {
		fnv = e.get(fr, c.Value)
	}
	for _, a := range c.Args {
		args = append(args, e.get(fr, a))
	}
	return fnv, args
}

func (e *Engine) lookupMethod(T types.Type, m *types.Func, site ssa.Instruction) *ssa.Function {
	fn := e.prog.LookupMethod(T, m.Pkg(), m.Name())
	if fn == nil {
		e.abort("unsupported", "no method %s on dynamic type %v at %s", m.Name(), T, e.posOf(site))
	}
	return fn
}

func (e *Engine) execCall(fr *frame, c *ssa.CallCommon, site ssa.Instruction) Value {
	fnv, args := e.prepareCall(fr, c, site)
	return e.call(fnv, args, site)
}

func (e *Engine) unop(fr *frame, x *ssa.UnOp) Value {
	v := e.get(fr, x.X)
	switch x.Op {
	case token.MUL: // load
		p := e.deref(v, x)
		r := copyVal(*p)
		if x.CommaOk {
			panic("commaok load")
		}
		return r
	case token.NOT:
		return Not(v.(*Term))
	case token.SUB:
		t := v.(*Term)
		if t.K == KFP {
			return fpNeg(t)
		}
		return bvNeg(t)
	case token.XOR:
		return bvNot(v.(*Term))
	case token.ARROW:
		e.abort("unsupported", "channel receive at %s", e.posOf(x))
	}
	panic(fmt.Sprintf("unop: unsupported %v", x.Op))
}

func (e *Engine) binop(op token.Token, xt types.Type, a, b Value, where ssa.Instruction) Value {
	switch op {
	case token.EQL:
		return e.eqValues(a, b)
	case token.NEQ:
		return Not(e.eqValues(a, b))
	}
	x, ok1 := a.(*Term)
	y, ok2 := b.(*Term)
	if !ok1 || !ok2 {
		panic(fmt.Sprintf("binop %v on %T, %T at %s", op, a, b, e.posOf(where)))
	}
	switch x.K {
	case KStr:
		switch op {
		case token.ADD:
			return strConcat(x, y)
		case token.LSS:
			return strLt(x, y)
		case token.LEQ:
			return strLe(x, y)
		case token.GTR:
			return strLt(y, x)
		case token.GEQ:
			return strLe(y, x)
		}
	case KBool:
		switch op {
		case token.AND, token.LAND:
			return And(x, y)
		case token.OR, token.LOR:
			return Or(x, y)
		}
	case KFP:
		switch op {
		case token.ADD:
			return fpBin("fp.add", x, y)
		case token.SUB:
			return fpBin("fp.sub", x, y)
		case token.MUL:
			return fpBin("fp.mul", x, y)
		case token.QUO:
			return fpBin("fp.div", x, y)
		case token.LSS:
			return fpCmp("fp.lt", x, y)
		case token.LEQ:
			return fpCmp("fp.leq", x, y)
		case token.GTR:
			return fpCmp("fp.gt", x, y)
		case token.GEQ:
			return fpCmp("fp.geq", x, y)
		}
	case KBV:
		signed := isSignedType(xt)
		switch op {
		case token.ADD:
			return bvBin("bvadd", x, y)
		case token.SUB:
			return bvBin("bvsub", x, y)
		case token.MUL:
			return bvBin("bvmul", x, y)
		case token.AND:
			return bvBin("bvand", x, y)
		case token.OR:
			return bvBin("bvor", x, y)
		case token.XOR:
			return bvBin("bvxor", x, y)
		case token.AND_NOT:
			return bvBin("bvand", x, bvNot(y))
		case token.QUO, token.REM:
			if !e.decide(Not(Eq(y, mkBV(y.W, 0)))) {
				e.goPanicf(where, "integer divide by zero")
			}
			if signed {
				if op == token.QUO {
					return bvBin("bvsdiv", x, y)
				}
				return bvBin("bvsrem", x, y)
			}
			if op == token.QUO {
				return bvBin("bvudiv", x, y)
			}
			return bvBin("bvurem", x, y)
		case token.SHL, token.SHR:
			// shift count: unsigned, any width
			var cnt *Term
			if y.W < x.W {
				cnt = bvZext(y, x.W)
			} else if y.W > x.W {
				if y.Const {
					if y.UVal >= uint64(x.W) {
						cnt = mkBVU(x.W, uint64(x.W))
					} else {
						cnt = mkBVU(x.W, y.UVal)
					}
				} else {
					big := bvCmp("bvule", mkBVU(y.W, uint64(x.W)), y)
					cnt = Ite(big, mkBVU(x.W, uint64(x.W)), bvTrunc(y, x.W))
				}
			} else {
				cnt = y
			}
			if op == token.SHL {
				return bvBin("bvshl", x, cnt)
			}
			if signed {
				return bvBin("bvashr", x, cnt)
			}
			return bvBin("bvlshr", x, cnt)
		case token.LSS:
			if signed {
				return bvCmp("bvslt", x, y)
			}
			return bvCmp("bvult", x, y)
		case token.LEQ:
			if signed {
				return bvCmp("bvsle", x, y)
			}
			return bvCmp("bvule", x, y)
		case token.GTR:
			if signed {
				return bvCmp("bvslt", y, x)
			}
			return bvCmp("bvult", y, x)
		case token.GEQ:
			if signed {
				return bvCmp("bvsle", y, x)
			}
			return bvCmp("bvule", y, x)
		}
	}
	panic(fmt.Sprintf("binop: unsupported %v on kind %v at %s", op, x.K, e.posOf(where)))
}

func (e *Engine) convert(from, to types.Type, v Value, where ssa.Instruction) Value {
	fu, tu := from.Underlying(), to.Underlying()
	// pointer / unsafe conversions
	if _, ok := tu.(*types.Pointer); ok {
		return v
	}
	if tb, ok := tu.(*types.Basic); ok && tb.Kind() == types.UnsafePointer {
		return v
	}
	// string <-> []byte / []rune
	if ts, ok := tu.(*types.Slice); ok {
		eb, _ := ts.Elem().Underlying().(*types.Basic)
		if t, isT := v.(*Term); isT && t.K == KStr && eb != nil {
			if eb.Kind() == types.Uint8 {
				return Bytes{T: t}
			}
			if eb.Kind() == types.Int32 {
				// []rune(s): ASCII/Latin-1 model (one rune per byte) unless constant
				if t.Const {
					var out Slice
					for _, r := range t.SVal {
						out = append(out, mkBV(32, uint64(r)))
					}
					return out
				}
				n := e.concretize(strLenInt(t), 0, int64(max(t.MaxLen, 0)), "[]rune len")
				out := make(Slice, n)
				for i := range out {
					out[i] = bvZext(strByte(t, mkInt(int64(i))), 32)
				}
				return out
			}
		}
		return v // slice -> slice (named types)
	}
	if tb, ok := tu.(*types.Basic); ok && tb.Info()&types.IsString != 0 {
		switch x := v.(type) {
		case *Term:
			if x.K == KStr {
				return x
			}
			// string(rune)
			if x.Const {
				return mkStr(string(rune(signExt(x.UVal, x.W))))
			}
			return strFromCode(intOf(x, isSignedType(from)))
		case Bytes:
			return x.T
		case JBytes:
			// text of an abstract document: concrete when all leaves are, else an opaque
			// string that remembers the document (and is "null" only for the null document)
			if txt, ok := renderConcreteJSON(x.J); ok {
				return mkStr(txt)
			}
			t := e.freshStr("jsontext", -1)
			t.JSONOf = x.J
			e.addPC(Not(Eq(t, mkStr("null"))))
			e.addPC(Not(Eq(t, mkStr(""))))
			return t
		case Slice:
			if fs, ok := fu.(*types.Slice); ok {
				if eb, _ := fs.Elem().Underlying().(*types.Basic); eb != nil && eb.Kind() == types.Int32 {
					r := mkStr("")
					for _, el := range x {
						t := el.(*Term)
						if t.Const {
							r = strConcat(r, mkStr(string(rune(signExt(t.UVal, 32)))))
						} else {
							r = strConcat(r, strFromCode(intOf(t, true)))
						}
					}
					return r
				}
			}
			t, ok := bytesOf(x)
			if !ok {
				panic("convert: slice to string with non-byte elements")
			}
			return t
		}
	}
	t, ok := v.(*Term)
	if !ok {
		return v
	}
	fb, ok1 := fu.(*types.Basic)
	tb, ok2 := tu.(*types.Basic)
	if !ok1 || !ok2 {
		return v
	}
	switch {
	case fb.Info()&types.IsInteger != 0 && tb.Info()&types.IsInteger != 0:
		fw, fs := bvWidthOf(fb)
		tw, ts := bvWidthOf(tb)
		switch {
		case tw > fw:
			if fs {
				return bvSext(t, tw)
			}
			return bvZext(t, tw)
		case tw < fw:
			r := bvTrunc(t, tw)
			if r.Const {
				if ts {
					return mkBV(tw, r.UVal)
				}
				return mkBVU(tw, r.UVal)
			}
			return r
		default:
			if fs == ts {
				return t
			}
			if t.Const {
				if ts {
					return mkBV(tw, t.UVal)
				}
				return mkBVU(tw, t.UVal)
			}
			if t.I != nil && nonNegInt(t) {
				return t
			}
			// reinterpretation: drop Int-form
			r := *t
			r.I = nil
			return &r
		}
	case fb.Info()&types.IsInteger != 0 && tb.Info()&types.IsFloat != 0:
		_, fs := bvWidthOf(fb)
		w := 64
		if tb.Kind() == types.Float32 {
			w = 32
		}
		return fpFromBV(t, fs, w)
	case fb.Info()&types.IsFloat != 0 && tb.Info()&types.IsInteger != 0:
		tw, ts := bvWidthOf(tb)
		return fpToBV(t, ts, tw)
	case fb.Info()&types.IsFloat != 0 && tb.Info()&types.IsFloat != 0:
		w := 64
		if tb.Kind() == types.Float32 {
			w = 32
		}
		return fpToFP(t, w)
	}
	return v
}

// ---- indexing ----

func (e *Engine) checkIndex(idx *Term, n *Term, where ssa.Instruction) {
	// 0 <= idx < n  (idx, n are BV64 ints)
	ok := And(bvCmp("bvsle", mkBV(idx.W, 0), idx), bvCmp("bvslt", idx, n))
	if !e.decide(ok) {
		e.goPanicf(where, "index out of range")
	}
}

func toInt64Term(t *Term, signed bool) *Term {
	if t.W == 64 {
		return t
	}
	if signed {
		return bvSext(t, 64)
	}
	return bvZext(t, 64)
}

func (e *Engine) indexAddr(fr *frame, x *ssa.IndexAddr) Value {
	base := e.get(fr, x.X)
	idx := toInt64Term(e.get(fr, x.Index).(*Term), isSignedType(x.Index.Type()))
	switch b := base.(type) {
	case Slice:
		e.checkIndex(idx, mkBV(64, uint64(len(b))), x)
		i := e.concretize(idx, 0, int64(len(b)-1), "slice index")
		return Ptr{P: &b[i]}
	case Bytes:
		e.checkIndex(idx, strLen(b.T), x)
		c := new(Value)
		*c = strByte(b.T, intOf(idx, true))
		return Ptr{P: c, RO: true}
	case Ptr:
		p := e.deref(b, x)
		arr := (*p).(Array)
		e.checkIndex(idx, mkBV(64, uint64(len(arr))), x)
		i := e.concretize(idx, 0, int64(len(arr)-1), "array index")
		return Ptr{P: &arr[i]}
	}
	panic(fmt.Sprintf("indexAddr: unsupported base %T at %s", base, e.posOf(x)))
}

func (e *Engine) index(fr *frame, x *ssa.Index) Value {
	base := e.get(fr, x.X)
	idx := toInt64Term(e.get(fr, x.Index).(*Term), isSignedType(x.Index.Type()))
	switch b := base.(type) {
	case Array:
		e.checkIndex(idx, mkBV(64, uint64(len(b))), x)
		i := e.concretize(idx, 0, int64(len(b)-1), "array index")
		return copyVal(b[i])
	case *Term:
		e.checkIndex(idx, strLen(b), x)
		return strByte(b, intOf(idx, true))
	}
	panic(fmt.Sprintf("index: unsupported base %T", base))
}

func (e *Engine) lookup(fr *frame, x *ssa.Lookup) Value {
	base := e.get(fr, x.X)
	if s, ok := base.(*Term); ok { // string index
		idx := toInt64Term(e.get(fr, x.Index).(*Term), isSignedType(x.Index.Type()))
		e.checkIndex(idx, strLen(s), x)
		return strByte(s, intOf(idx, true))
	}
	m := base.(*Map)
	key := e.get(fr, x.Index)
	vt := x.X.Type().Underlying().(*types.Map).Elem()
	v, ok := e.mapLookup(m, key)
	if !ok {
		v = zero(vt)
	}
	if x.CommaOk {
		return Tuple{copyVal(v), mkBool(ok)}
	}
	return copyVal(v)
}

func (e *Engine) mapLookup(m *Map, key Value) (Value, bool) {
	if m == nil {
		return nil, false
	}
	for i, k := range m.Keys {
		if e.decide(e.eqValues(k, key)) {
			return m.Vals[i], true
		}
	}
	return nil, false
}

func (e *Engine) mapUpdate(m *Map, key, val Value) {
	for i, k := range m.Keys {
		if e.decide(e.eqValues(k, key)) {
			m.Vals[i] = val
			return
		}
	}
	m.Keys = append(m.Keys, key)
	m.Vals = append(m.Vals, val)
}

func (e *Engine) mapDelete(m *Map, key Value) {
	if m == nil {
		return
	}
	for i, k := range m.Keys {
		if e.decide(e.eqValues(k, key)) {
			m.Keys = append(append([]Value{}, m.Keys[:i]...), m.Keys[i+1:]...)
			m.Vals = append(append([]Value{}, m.Vals[:i]...), m.Vals[i+1:]...)
			return
		}
	}
}

func (e *Engine) sliceOp(fr *frame, x *ssa.Slice) Value {
	base := e.get(fr, x.X)
	var lo, hi, mx *Term
	if x.Low != nil {
		lo = toInt64Term(e.get(fr, x.Low).(*Term), true)
	}
	if x.High != nil {
		hi = toInt64Term(e.get(fr, x.High).(*Term), true)
	}
	if x.Max != nil {
		mx = toInt64Term(e.get(fr, x.Max).(*Term), true)
	}
	strSlice := func(s *Term) *Term {
		n := strLen(s)
		l := lo
		if l == nil {
			l = mkBV(64, 0)
		}
		h := hi
		if h == nil {
			h = n
		}
		ok := AndN(bvCmp("bvsle", mkBV(64, 0), l), bvCmp("bvsle", l, h), bvCmp("bvsle", h, n))
		if !e.decide(ok) {
			e.goPanicf(x, "slice bounds out of range")
		}
		return strSubstr(s, intOf(l, true), intSub(intOf(h, true), intOf(l, true)))
	}
	switch b := base.(type) {
	case *Term:
		return strSlice(b)
	case Bytes:
		return Bytes{T: strSlice(b.T)}
	case Slice:
		l, h, m := 0, len(b), cap(b)
		if lo != nil {
			l = int(e.concretize(lo, 0, int64(cap(b)), "slice lo"))
		}
		if hi != nil {
			h = int(e.concretize(hi, 0, int64(cap(b)), "slice hi"))
		}
		if mx != nil {
			m = int(e.concretize(mx, 0, int64(cap(b)), "slice max"))
		}
		if l < 0 || l > h || h > m || m > cap(b) {
			e.goPanicf(x, "slice bounds out of range [%d:%d:%d] cap %d", l, h, m, cap(b))
		}
		if b == nil {
			return Slice(nil)
		}
		return b[l:h:m]
	case Ptr:
		p := e.deref(b, x)
		arr := (*p).(Array)
		l, h, m := 0, len(arr), len(arr)
		if lo != nil {
			l = int(e.concretize(lo, 0, int64(len(arr)), "slice lo"))
		}
		if hi != nil {
			h = int(e.concretize(hi, 0, int64(len(arr)), "slice hi"))
		}
		if mx != nil {
			m = int(e.concretize(mx, 0, int64(len(arr)), "slice max"))
		}
		if l < 0 || l > h || h > m || m > len(arr) {
			e.goPanicf(x, "slice bounds out of range")
		}
		return Slice(arr)[l:h:m]
	}
	panic(fmt.Sprintf("sliceOp: unsupported base %T at %s", base, e.posOf(x)))
}

// ---- range / next ----

func (e *Engine) rangeOp(fr *frame, x *ssa.Range) Value {
	v := e.get(fr, x.X)
	switch b := v.(type) {
	case *Term:
		return &Native{Kind: "striter", Data: &strIter{s: b}}
	case *Map:
		it := &mapIter{m: b}
		if b != nil {
			n := len(b.Keys)
			it.order = make([]int, n)
			for i := range it.order {
				it.order[i] = i
			}
			if e.cfg.MapPerm && n >= 2 && n <= 4 {
				// symbolic iteration order: choose a permutation by forking
				rest := append([]int{}, it.order...)
				var ord []int
				for len(rest) > 1 {
					k := e.chooseN(len(rest))
					ord = append(ord, rest[k])
					rest = append(rest[:k], rest[k+1:]...)
				}
				ord = append(ord, rest[0])
				it.order = ord
			}
		}
		return &Native{Kind: "mapiter", Data: it}
	}
	panic(fmt.Sprintf("range over %T", v))
}

// chooseN forks n ways using fresh unconstrained Booleans.
func (e *Engine) chooseN(n int) int {
	for i := 0; i < n-1; i++ {
		e.freshCount++
		b := mkVar(fmt.Sprintf("choice!%d", e.freshCount), KBool, 0)
		if e.decide(b) {
			return i
		}
	}
	return n - 1
}

func (e *Engine) nextOp(fr *frame, x *ssa.Next) Value {
	n := e.get(fr, x.Iter).(*Native)
	if x.IsString {
		it := n.Data.(*strIter)
		if it.s.Const {
			if it.pos >= len(it.s.SVal) {
				return Tuple{tFalse, mkBV(64, 0), mkBV(32, 0)}
			}
			for i, r := range it.s.SVal[it.pos:] {
				_ = i
				p := it.pos
				it.pos += len(string(r))
				if r == 0xFFFD {
					it.pos = p + 1
				}
				return Tuple{tTrue, mkBV(64, uint64(p)), mkBV(32, uint64(r))}
			}
		}
		pos := mkBV(64, uint64(it.pos))
		if !e.decide(bvCmp("bvslt", pos, strLen(it.s))) {
			return Tuple{tFalse, mkBV(64, 0), mkBV(32, 0)}
		}
		// ASCII model: one rune per byte (alphabet restriction stated in DESIGN.md)
		r := bvZext(strByte(it.s, mkInt(int64(it.pos))), 32)
		it.pos++
		return Tuple{tTrue, pos, r}
	}
	it := n.Data.(*mapIter)
	if it.m == nil || it.pos >= len(it.order) {
		return Tuple{tFalse, nil, nil}
	}
	// entries deleted during iteration are skipped by identity check
	for it.pos < len(it.order) {
		i := it.order[it.pos]
		it.pos++
		if i < len(it.m.Keys) {
			return Tuple{tTrue, it.m.Keys[i], copyVal(it.m.Vals[i])}
		}
	}
	return Tuple{tFalse, nil, nil}
}

// ---- type assertions ----

func (e *Engine) implements(T types.Type, iface *types.Interface) bool {
	return types.Implements(T, iface)
}

func (e *Engine) typeAssert(fr *frame, x *ssa.TypeAssert) Value {
	v := e.get(fr, x.X).(Iface)
	ok := false
	var res Value
	if v.T != nil {
		if it, isIface := x.AssertedType.Underlying().(*types.Interface); isIface {
			if e.implements(v.T, it) {
				ok = true
				res = v
			}
		} else if types.Identical(v.T, x.AssertedType) {
			ok = true
			res = v.V
		}
	}
	if x.CommaOk {
		if !ok {
			res = zero(x.AssertedType)
		}
		return Tuple{res, mkBool(ok)}
	}
	if !ok {
		dyn := "nil"
		if v.T != nil {
			dyn = v.T.String()
		}
		e.goPanicf(x, "interface conversion: %s is not %s", dyn, x.AssertedType)
	}
	return res
}

// ---- builtins ----

func (e *Engine) lenOf(v Value) *Term {
	switch x := v.(type) {
	case *Term:
		return strLen(x)
	case Slice:
		return mkBV(64, uint64(len(x)))
	case Bytes:
		return strLen(x.T)
	case JBytes:
		return mkBV(64, 2) // any JSON document has at least two bytes; only emptiness is observed
	case MBytes:
		// binary encoding of a message is empty iff every field has its default value
		allZero := tTrue
		if st, ok := x.Snap.(Struct); ok {
			for _, f := range st {
				switch f.(type) {
				case Struct:
				default:
					allZero = And(allZero, isZeroTerm(f))
				}
			}
		}
		return Ite(allZero, mkBV(64, 0), mkBV(64, 1))
	case *Map:
		if x == nil {
			return mkBV(64, 0)
		}
		return mkBV(64, uint64(len(x.Keys)))
	case Array:
		return mkBV(64, uint64(len(x)))
	case Ptr:
		if x.P == nil {
			return mkBV(64, 0)
		}
		return mkBV(64, uint64(len((*x.P).(Array))))
	}
	panic(fmt.Sprintf("len of %T", v))
}

func (e *Engine) callBuiltin(b *ssa.Builtin, args []Value, site ssa.Instruction) Value {
	switch b.Name() {
	case "len":
		return e.lenOf(args[0])
	case "cap":
		switch x := args[0].(type) {
		case Slice:
			return mkBV(64, uint64(cap(x)))
		case Bytes:
			return strLen(x.T)
		}
		return e.lenOf(args[0])
	case "append":
		return e.appendOp(args[0], args[1], site)
	case "copy":
		dst, ok := args[0].(Slice)
		if !ok {
			e.abort("unsupported", "copy into %T at %s", args[0], e.posOf(site))
		}
		switch src := args[1].(type) {
		case Slice:
			n := copy(dst, src)
			return mkBV(64, uint64(n))
		case Bytes, *Term:
			var t *Term
			if bb, ok := src.(Bytes); ok {
				t = bb.T
			} else {
				t = src.(*Term)
			}
			n := e.concretize(strLenInt(t), 0, int64(max(t.MaxLen, 0)), "copy len")
			if int(n) > len(dst) {
				n = int64(len(dst))
			}
			for i := 0; i < int(n); i++ {
				dst[i] = strByte(t, mkInt(int64(i)))
			}
			return mkBV(64, uint64(n))
		}
		panic(fmt.Sprintf("copy from %T", args[1]))
	case "delete":
		e.mapDelete(args[0].(*Map), args[1])
		return nil
	case "print", "println":
		return nil
	case "recover":
		// find nearest panicking frame: handled via engine field
		if e.recovering != nil && *e.recovering != nil {
			gp := *e.recovering
			*e.recovering = nil
			if gp.val != nil {
				return gp.val
			}
			return Iface{T: types.Typ[types.String], V: mkStr(gp.msg)}
		}
		return Iface{}
	case "min", "max":
		r := args[0].(*Term)
		for _, a := range args[1:] {
			t := a.(*Term)
			var lt *Term
			switch r.K {
			case KStr:
				lt = strLt(t, r)
			case KFP:
				lt = fpCmp("fp.lt", t, r)
			default:
				lt = bvCmp("bvslt", t, r) // signed operands assumed (int)
			}
			if b.Name() == "max" {
				lt = Not(lt)
				// max: pick t when !(t<r) and t != r; equal values: either
			}
			r = Ite(lt, t, r)
		}
		return r
	case "clear":
		switch x := args[0].(type) {
		case *Map:
			if x != nil {
				x.Keys, x.Vals = nil, nil
			}
		}
		return nil
	case "ssa:wrapnilchk":
		if isNilPtr(args[0]) {
			e.goPanicf(site, "value method called using nil pointer")
		}
		return args[0]
	}
	e.abort("unsupported", "builtin %s at %s", b.Name(), e.posOf(site))
	return nil
}

func (e *Engine) appendOp(a, b Value, site ssa.Instruction) Value {
	// []byte cases involving symbolic bytes
	switch y := b.(type) {
	case *Term: // append([]byte, string...)
		at, ok := bytesOf(a)
		if a == nil || !ok {
			if s, isS := a.(Slice); isS && len(s) == 0 {
				return Bytes{T: y}
			}
			panic("append string to non-bytes")
		}
		return Bytes{T: strConcat(at, y)}
	case Bytes:
		at, ok := bytesOf(a)
		if !ok {
			panic("append bytes to non-bytes")
		}
		return Bytes{T: strConcat(at, y.T)}
	case Slice:
		switch x := a.(type) {
		case Bytes:
			bt, ok := bytesOf(y)
			if !ok {
				panic("append non-bytes to Bytes")
			}
			return Bytes{T: strConcat(x.T, bt)}
		case Slice:
			if len(y) == 0 {
				return x
			}
			cp := make(Slice, len(y))
			for i := range y {
				cp[i] = copyVal(y[i])
			}
			return append(x, cp...)
		}
	}
	panic(fmt.Sprintf("append: unsupported %T, %T at %s", a, b, e.posOf(site)))
}

var _ = os.Stderr

// generatedEnumString models String() of protoc-gen-go enums through the
// generated <Enum>_name table (the real body needs the protobuf type registry).
func (e *Engine) generatedEnumString(fn *ssa.Function, args []Value) (Value, bool) {
	if fn.Name() != "String" || fn.Signature.Recv() == nil || fn.Pkg == nil || len(args) != 1 {
		return nil, false
	}
	n, ok := fn.Signature.Recv().Type().(*types.Named)
	if !ok {
		return nil, false
	}
	b, ok := n.Underlying().(*types.Basic)
	if !ok || b.Kind() != types.Int32 {
		return nil, false
	}
	g, ok := fn.Pkg.Members[n.Obj().Name()+"_name"].(*ssa.Global)
	if !ok {
		return nil, false
	}
	if !e.initAllowed(fn.Pkg) {
		e.abort("unsupported", "String() of generated enum %s: package init not executed", n)
	}
	m, _ := (*e.globalCell(g)).(*Map)
	v := T(args[0])
	if !v.Const {
		// symbolic enum value: fork over the table entries
		if m != nil {
			for i, k := range m.Keys {
				if e.decide(Eq(T(k), v)) {
					return m.Vals[i], true
				}
			}
		}
		return intToStr(v, true), true
	}
	if val, ok := e.mapLookup(m, v); ok {
		return val, true
	}
	return intToStr(v, true), true
}
