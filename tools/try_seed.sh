#!/bin/bash
# usage: try_seed.sh <seed-dir-name> <property> [tier]
# Applies the seeded patch, runs the property's check with its outputs redirected to a scratch
# root (evidence/ and replays/ of /verif always describe the unchanged tree), restores the tree
# and records what the check printed under seeded/<name>/detected/<property>.txt.
# Default: the patch is applied to /repo itself (git -C /repo apply ...; git checkout afterwards).
# SEED_WORKTREE=1: the patch is applied to a scratch git worktree of /repo's HEAD instead and the
# check is pointed at it with VERIF_REPO (lets several trials run side by side).
set -u
S=/verif/seeded/$1; P=$2; T=${3:-quick}
LOG=/tmp/seed_$1_$P.log
O=$(mktemp -d /tmp/seedout.XXXX)
if [ "${SEED_WORKTREE:-0}" = "1" ]; then
  W=$(mktemp -d /tmp/seedwt.XXXX); rmdir $W
  git -C /repo worktree add --detach $W HEAD >/dev/null 2>&1 || { echo "cannot create worktree"; exit 2; }
  git -C $W apply --3way $S/patch.diff 2>/dev/null || git -C $W apply $S/patch.diff || { echo "seed=$1 prop=$P PATCH DOES NOT APPLY"; git -C /repo worktree remove --force $W; exit 3; }
  (cd /verif && VERIF_REPO=$W VERIF_OUTROOT=$O ./check $P --tier $T > $LOG 2>&1); rc=$?
  git -C /repo worktree remove --force $W >/dev/null 2>&1; git -C /repo worktree prune
else
  cd /repo && git diff --quiet || { echo "repo dirty"; exit 2; }
  git -C /repo apply --3way $S/patch.diff 2>/dev/null || git -C /repo apply $S/patch.diff || { echo "seed=$1 prop=$P PATCH DOES NOT APPLY"; git -C /repo checkout HEAD -- .; exit 3; }
  (cd /verif && VERIF_OUTROOT=$O ./check $P --tier $T > $LOG 2>&1); rc=$?
  git -C /repo checkout HEAD -- .
fi
mkdir -p $S/detected; rm -f $S/detected/$P.txt; cp $O/replays/$P/cex_*.json $S/detected/ 2>/dev/null; rm -rf $O
{ echo "check=$P tier=$T rc=$rc"; grep -E "^(VIOLATION|INCONCLUSIVE|MODEL-DISC|CHECK|ERROR)" $LOG | sed "s#/tmp/seedout\.[A-Za-z0-9]*/replays/$P/#seeded/$1/detected/#" | cut -c1-600; } > $S/detected/$P.txt
echo "seed=$1 prop=$P rc=$rc"; grep -E "^(VIOLATION|INCONCLUSIVE|MODEL-DISC|CHECK|ERROR)" $LOG | cut -c1-400
