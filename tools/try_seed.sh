#!/bin/bash
# usage: try_seed.sh <seed-dir-name> <property> [tier]  — applies the seeded patch to /repo, runs the check, restores /repo
set -u
S=/verif/seeded/$1; P=$2; T=${3:-quick}
cd /repo && git diff --quiet || { echo "repo dirty"; exit 2; }
git -C /repo apply --3way $S/patch.diff 2>/dev/null || git -C /repo apply $S/patch.diff || { echo "PATCH DOES NOT APPLY"; exit 3; }
O=$(mktemp -d /tmp/seedout.XXXX); cd /verif && VERIF_OUTROOT=$O ./check $P --tier $T > /tmp/seed_$1_$P.log 2>&1; rc=$?
git -C /repo checkout HEAD -- .
mkdir -p $S/detected; rm -f $S/detected/$P.txt; cp $O/replays/$P/cex_*.json $S/detected/ 2>/dev/null; rm -rf $O
{ echo "check=$P tier=$T rc=$rc"; grep -E "^(VIOLATION|INCONCLUSIVE|MODEL-DISC|CHECK|ERROR)" /tmp/seed_$1_$P.log | sed "s#/tmp/seedout\.[A-Za-z0-9]*/replays/$P/#seeded/$1/detected/#" | cut -c1-600; } > $S/detected/$P.txt
echo "seed=$1 prop=$P rc=$rc"; grep -E "^(VIOLATION|INCONCLUSIVE|MODEL-DISC|CHECK|ERROR)" /tmp/seed_$1_$P.log | cut -c1-400
