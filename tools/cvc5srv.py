#!/opt/veriftools/pyvenv/bin/python3
"""SMT-LIB2 front end over the cvc5 1.4 Python bindings (the /usr/bin/cvc5 1.0.3 binary
answers `unsat` on satisfiable regular-expression constraints, e.g.
  g in [a-z][a-z]  and  not (g in [0-9][0-9]),
so it is not used as a back end). Protocol as used by gosym: a query starts with a line
"(reset)", ends with "(check-sat)" (answer: one line), optionally followed by one
"(get-value (...))" line (answer: one s-expression)."""
import sys
import cvc5


class Session:
    def __init__(self):
        self.new()

    def new(self):
        self.tm = cvc5.TermManager() if hasattr(cvc5, "TermManager") else None
        self.slv = cvc5.Solver(self.tm) if self.tm is not None else cvc5.Solver()
        self.sm = cvc5.SymbolManager(self.tm) if self.tm is not None else cvc5.SymbolManager(self.slv)
        self.slv.setOption("strings-exp", "true")
        self.slv.setOption("produce-models", "true")
        self.parser = cvc5.InputParser(self.slv, self.sm)
        self.parser.setIncrementalStringInput(cvc5.InputLanguage.SMT_LIB_2_6, "gosym")

    def run(self, text):
        out = []
        self.parser.appendIncrementalStringInput(text)
        while True:
            cmd = self.parser.nextCommand()
            if cmd.isNull():
                break
            r = cmd.invoke(self.slv, self.sm)
            r = str(r).strip() if r is not None else ""
            if r:
                out.append(r)
        return out


def main():
    s = Session()
    buf = []
    for line in sys.stdin:
        t = line.strip()
        if t == "(reset)":
            s.new()
            buf = []
            continue
        buf.append(line)
        if t == "(check-sat)" or t.startswith("(get-value"):
            try:
                res = s.run("".join(buf))
                ans = res[-1] if res else "unknown"
            except Exception as ex:  # parse errors, unsupported constructs: inconclusive on this back end
                ans = '(error "%s")' % str(ex).replace('"', "'").replace("\n", " ")[:200]
                s.new()
            buf = []
            sys.stdout.write(ans + "\n")
            sys.stdout.flush()


if __name__ == "__main__":
    main()
