#!/usr/bin/env python3
"""Run the pinned test suite of a sebuf tree and compare with /root/.vp/BASELINE.json.

usage: baseline_check.py [repo_dir]    (default /repo)
exit 0 iff every test of BASELINE.stable_pass passes.
"""
import json, os, subprocess, sys

repo = sys.argv[1] if len(sys.argv) > 1 else "/repo"
base = json.load(open("/root/.vp/BASELINE.json"))
want = set(base["stable_pass"])
env = dict(os.environ, GOFLAGS="-mod=mod", GOPROXY="off")
env.pop("GOSUMDB", None)
env.pop("GOTOOLCHAIN", None)
# the baseline build uses the default go (auto-switching to the cached go1.24.7 toolchain)
env["PATH"] = ":".join(p for p in env.get("PATH", "").split(":") if "goshim" not in p)
p = subprocess.run(["go", "test", "-json", "-vet=off", "-count=1", "-timeout", "25m", "./..."],
                   cwd=repo, env=env, capture_output=True, text=True)
passed = set()
failed = set()
for line in p.stdout.splitlines():
    try:
        ev = json.loads(line)
    except Exception:
        continue
    if ev.get("Test") and ev.get("Action") in ("pass", "fail"):
        k = ev["Package"] + "::" + ev["Test"]
        (passed if ev["Action"] == "pass" else failed).add(k)
missing = sorted(want - passed)
print(f"baseline: {len(want)} expected, {len(want & passed)} pass, {len(missing)} missing; total pass {len(passed)} fail {len(failed)}")
for m in missing[:20]:
    print("  MISSING", m)
if p.returncode != 0 and not passed:
    print(p.stdout[-2000:], p.stderr[-2000:])
sys.exit(0 if not missing else 1)
