#!/usr/bin/env python3
"""Regenerate /verif/MANIFEST.json from harness/registry.py + manifest_meta.py."""
import json, os, sys
V = os.path.dirname(os.path.dirname(os.path.abspath(__file__)))
sys.path.insert(0, os.path.join(V, "harness"))
import registry, manifest_meta as mm

props = [json.loads(l) for l in open(os.path.join(V, "properties.jsonl"))]
checks, na = [], []
for p in props:
    pid = p["id"]
    if pid in registry.PROPERTIES and pid in mm.CHECKS:
        c = mm.CHECKS[pid]
        checks.append({
            "property_id": pid,
            "quick_cmd": "./check %s --tier quick" % pid,
            "thorough_cmd": "./check %s --tier thorough" % pid,
            "evidence_file": "evidence/%s.json" % pid,
            "replay_cmd_template": "./check %s --replay {path}" % pid,
            "engine": "gosym",
            "level_claimed": {"category": "model_checking", "text": c["text"], "design_ref": c.get("design_ref", "DESIGN.md §7 " + pid)},
            "level_note": c["note"],
            "technique": c.get("technique", "bounded symbolic execution of the real Go code (go/ssa -> SMT-LIB2), obligations discharged by z3, counterexamples replayed natively"),
        })
    else:
        na.append({"property_id": pid, "reason": mm.NOT_APPLICABLE.get(pid, "check not built yet")})
m = {
    "version": 1,
    "setup_cmd": "./setup.sh",
    "hooks": {"guard": "verif", "enable": "no source hooks in /repo: harness files enter through build overlays (go build -overlay / packages.Config.Overlay) and are additionally tagged for the 'verif' build tag",
              "baseline_off_cmd": "python3 /verif/tools/baseline_check.py /repo", "source_commits": [], "add_only": True},
    "engines": [{"name": "gosym", "path": "engine/", "serves_properties": [c["property_id"] for c in checks],
                 "kind_free_text": "Go SSA -> SMT-LIB2 symbolic executor written for this task (go/packages+go/ssa front end, path exploration by re-execution, structural string reasoning, z3 back end, native replay of counterexamples)"}],
    "checks": checks,
    "not_applicable": na,
    "notes": mm.NOTES,
}
json.dump(m, open(os.path.join(V, "MANIFEST.json"), "w"), indent=1)
print("manifest: %d checks, %d not applicable" % (len(checks), len(na)))
