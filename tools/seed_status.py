#!/usr/bin/env python3
"""Collects, per seeded change, the independent confirmation (seeded/CONFIRMATION.json) and what
the registered checks printed for it (seeded/<name>/detected/<ID>.txt, written by tools/try_seed.sh),
into seeded/<name>/status.json and the table seeded/SUMMARY.md."""
import glob, json, os, re
root = os.path.join(os.path.dirname(os.path.abspath(__file__)), "..", "seeded")
conf = json.load(open(os.path.join(root, "CONFIRMATION.json")))
rows = []
for d in sorted(glob.glob(os.path.join(root, "C*-m*"))):
    name = os.path.basename(d)
    meta = json.load(open(os.path.join(d, "meta.json")))
    c = conf.get(name, {})
    valid = bool(c.get("applies")) and bool(c.get("builds_with_patch")) and str(c.get("baseline_with_patch", "")).startswith("373/373") \
        and c.get("demo_without_patch") == "pass" and c.get("demo_with_patch", "").startswith("fail")
    det = {}
    for f in sorted(glob.glob(os.path.join(d, "detected", "*.txt"))):
        pid = os.path.basename(f)[:-4]
        txt = open(f).read()
        viol = re.findall(r"^VIOLATION property=\S+ replay=(\S+) obligation=(\S+)", txt, re.M)
        det[pid] = {"exit": int(re.search(r"rc=(\d+)", txt).group(1)) if re.search(r"rc=(\d+)", txt) else None,
                    "violations": [{"replay": r, "obligation": o} for r, o in viol],
                    "inconclusive": len(re.findall(r"^INCONCLUSIVE", txt, re.M)), "error": "ERROR" in txt}
    detected_by = [p for p, v in det.items() if v["violations"]]
    st = {"seed": name, "property": meta.get("property", name.split("-")[0]), "valid_on_current_tree": valid,
          "confirmation": c, "checks_run": {p: "tools/try_seed.sh %s %s  (git -C /repo apply seeded/%s/patch.diff; ./check %s --tier quick; git -C /repo checkout HEAD -- .)" % (name, p, name, p) for p in det},
          "check_results": det, "detected_by": detected_by}
    json.dump(st, open(os.path.join(d, "status.json"), "w"), indent=1)
    rows.append((name, "yes" if valid else "NO (see CONFIRMATION.json)", ", ".join(detected_by) or "-",
                 "; ".join(sorted({v["obligation"] for p in detected_by for v in det[p]["violations"]}))[:140]))
with open(os.path.join(root, "SUMMARY.md"), "w") as f:
    f.write("| seed | valid on current tree | reported by | obligations violated |\n|---|---|---|---|\n")
    for r in rows:
        f.write("| %s | %s | %s | %s |\n" % r)
print("seeds: %d, valid: %d, detected: %d" % (len(rows), sum(r[1] == "yes" for r in rows), sum(r[2] != "-" for r in rows)))
