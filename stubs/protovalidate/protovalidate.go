// Package protovalidate is a stand-in for buf.build/go/protovalidate, whose
// runtime (and CEL dependency) is not available in this sandbox. It declares the
// API surface the emitted sebuf servers use. Validate returns what the test
// installs through SetResult: "any behaviour of the rule validator".
package protovalidate

import (
	"strings"

	"buf.build/gen/go/bufbuild/protovalidate/protocolbuffers/go/buf/validate"
	"google.golang.org/protobuf/proto"
)

type Validator interface {
	Validate(msg proto.Message, options ...ValidationOption) error
}

type ValidationOption interface{}

type Violation struct {
	Proto *validate.Violation
}

type ValidationError struct {
	Violations []*Violation
}

func (e *ValidationError) Error() string {
	var b strings.Builder
	b.WriteString("validation error:")
	for _, v := range e.Violations {
		b.WriteString("\n - ")
		if v.Proto != nil {
			b.WriteString(v.Proto.GetMessage())
		}
	}
	return b.String()
}

// Result is what the stub validator returns (nil: every message is valid).
var Result func(msg proto.Message) error

type stub struct{}

func (stub) Validate(msg proto.Message, _ ...ValidationOption) error {
	if Result != nil {
		return Result(msg)
	}
	return nil
}

// NewError lets tests simulate a validator that cannot be constructed.
var NewError error

func New(options ...interface{}) (Validator, error) {
	if NewError != nil {
		return nil, NewError
	}
	return stub{}, nil
}
