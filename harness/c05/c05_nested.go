package codecs

import (
	"net/http"
	"net/url"

	verif "verifmod/zzverif"
)

// VerifC05Nested: an annotated message has the same JSON form as a nested field and as a
// list element of an unannotated parent as it has at the top level (server response path).
func VerifC05Nested() {
	h := &Holder{Id: verif.String("id", 2)}
	if verif.Bool("one.present") {
		h.One = &Int64Msg{Big: verif.Int64("one.big"), Name: verif.String("one.name", 2)}
	}
	if verif.Bool("many.present") {
		n := &NullableMsg{Id: verif.String("many.id", 2)}
		if verif.Bool("many.nick.set") {
			s := verif.String("many.nick", 2)
			n.NickName = &s
		}
		h.Many = []*NullableMsg{n}
	}
	r := &http.Request{Method: "POST", Header: http.Header{"Content-Type": []string{"application/json"}}, URL: &url.URL{Path: "/holder"}}
	data, err := marshalResponse(r, h)
	verif.Assert("C05/nested/marshal-ok", err == nil)
	one, many := verif.JNull(), verif.JNull()
	if h.One != nil {
		one = refInt64Msg(h.One)
	}
	if len(h.Many) == 1 {
		many = verif.JArr(refNullableMsg(h.Many[0]))
	}
	want := verif.JObjOpt("one", one, h.One != nil, "many", many, len(h.Many) > 0, "id", verif.JStr(h.Id), h.Id != "")
	annotatedChildVisible := (h.One != nil && h.One.Big != 0) || len(h.Many) > 0
	if annotatedChildVisible {
		// known finding: the top-level encoder is protojson, which encodes children itself
		// and never calls their generated MarshalJSON
		verif.Expect("KF-C05-annotations-of-nested-messages-are-ignored", verif.JEqual(data, want))
		verif.Reach("C05/nested/kf")
		return
	}
	verif.Assert("C05/nested/wire=reference-mapping", verif.JEqual(data, want))
	verif.Reach("C05/nested/decided")
}
