package codecs

import (
	"net/http"
	"net/url"

	verif "verifmod/zzverif"
)

// VerifC05Nested: an annotated message has the same JSON form as a nested field and as a
// list element of an unannotated parent as it has at the top level (server response path).
func VerifC05Nested() {
	h := &Holder{Id: verif.String("id", verif.L(2))}
	if verif.Bool("one.present") {
		h.One = &Int64Msg{Big: verif.Int64("one.big"), Name: verif.String("one.name", verif.L(2))}
	}
	if verif.Bool("many.present") {
		n := &NullableMsg{Id: verif.String("many.id", verif.L(2))}
		if verif.Bool("many.nick.set") {
			s := verif.String("many.nick", verif.L(2))
			n.NickName = &s
		}
		h.Many = []*NullableMsg{n}
	}
	r := &http.Request{Method: "POST", Header: http.Header{"Content-Type": []string{"application/json"}}, URL: &url.URL{Path: "/holder"}}
	data, err := marshalResponse(r, h)
	verif.Assert("C05/nested/marshal-ok", err == nil)
	one, many := verif.JNull(), verif.JNull()
	if h.One != nil {
		one = refInt64Msg(h.One)
	}
	if len(h.Many) == 1 {
		many = verif.JArr(refNullableMsg(h.Many[0]))
	}
	want := verif.JObjOpt("one", one, h.One != nil, "many", many, len(h.Many) > 0, "id", verif.JStr(h.Id), h.Id != "")
	annotatedChildVisible := (h.One != nil && h.One.Big != 0) || len(h.Many) > 0
	if annotatedChildVisible {
		// known finding: the top-level encoder is protojson, which encodes children itself
		// and never calls their generated MarshalJSON
		verif.Expect("KF-C05-annotations-of-nested-messages-are-ignored", verif.JEqual(data, want))
		verif.Reach("C05/nested/kf")
		return
	}
	verif.Assert("C05/nested/wire=reference-mapping", verif.JEqual(data, want))
	verif.Reach("C05/nested/decided")
}

// VerifC05ResponsePath: the server response path encodes an annotated top-level message
// through its generated codec for every request content type that selects JSON: JSON itself,
// an absent header, a parameterised or differently-cased JSON type, and unrecognised types
// (which the server answers in JSON).
func VerifC05ResponsePath() {
	m := &Int64Msg{Big: verif.Int64("big"), Name: verif.String("name", verif.L(2)), Plain: verif.Int64("plain")}
	hdr := http.Header{}
	switch verif.Choice("contentType", 6) {
	case 0:
		hdr["Content-Type"] = []string{"application/json"}
	case 1: // absent
	case 2:
		hdr["Content-Type"] = []string{"application/json; charset=utf-8"}
	case 3:
		hdr["Content-Type"] = []string{"text/plain"}
	case 4:
		hdr["Content-Type"] = []string{"application/x-www-form-urlencoded"}
	default:
		hdr["Content-Type"] = []string{"Application/JSON"}
	}
	r := &http.Request{Method: "POST", Header: hdr, URL: &url.URL{Path: "/int64"}}
	data, err := marshalResponse(r, m)
	verif.Assert("C05/response-path/marshal-ok", err == nil)
	verif.Assert("C05/response-path/wire=reference-mapping-for-every-json-selecting-content-type", verif.JEqual(data, refInt64Msg(m)))
	verif.Reach("C05/response-path/decided")
}
