package codecs

import (
	"net/http"
	"net/url"

	verif "verifmod/zzverif"
)

// VerifC05EnumCodec: the emitted enum-level codec of an enum with custom enum_value strings
// writes the custom string and reads back both the custom string and the proto name.
func VerifC05EnumCodec() {
	v := Status(verif.Choice("status", 2))
	data, err := v.MarshalJSON()
	want := []string{"unknown", "active"}[int(v)]
	verif.Assert("C05/enum-codec/custom-value-written", err == nil && verif.JEqual(data, verif.JStr(want)))
	var back Status
	verif.Assert("C05/enum-codec/custom-value-read", back.UnmarshalJSON(verif.JStr(want)) == nil && back == v)
	var back2 Status
	name := []string{"STATUS_UNSPECIFIED", "STATUS_ACTIVE"}[int(v)]
	verif.Assert("C05/enum-codec/proto-name-read", back2.UnmarshalJSON(verif.JStr(name)) == nil && back2 == v)
	var back3 Status
	verif.Assert("C05/enum-codec/unknown-text-rejected", back3.UnmarshalJSON(verif.JStr(verif.StringIn("junk", 3, "x-z"))) != nil)
	verif.Reach("C05/enum-codec/decided")
}

// VerifC05EnumInMessage: a message with enum fields goes through the server response path;
// the documented mapping writes the custom enum_value string, and the number under
// enum_encoding = NUMBER.
func VerifC05EnumInMessage() {
	m := &EnumMsg{Id: verif.String("id", verif.L(2)), Status: Status(verif.Choice("status", 2)), PrioNumber: Priority(verif.Choice("prioNumber", 2)), Prio: Priority(verif.Choice("prio", 2))}
	r := &http.Request{Method: "POST", Header: http.Header{"Content-Type": []string{"application/json"}}, URL: &url.URL{Path: "/enum"}}
	data, err := marshalResponse(r, m)
	verif.Assert("C05/enum/marshal-ok", err == nil)
	custom := []string{"unknown", "active"}
	names := []string{"PRIORITY_UNSPECIFIED", "PRIORITY_HIGH"}
	want := verif.JObjOpt("status", verif.JStr(custom[int(m.Status)]), m.Status != 0,
		"prioNumber", verif.JInt(int64(m.PrioNumber)), m.PrioNumber != 0,
		"prio", verif.JStr(names[int(m.Prio)]), m.Prio != 0,
		"id", verif.JStr(m.Id), m.Id != "")
	if m.Status != 0 || m.PrioNumber != 0 {
		// known finding: enum annotations have no message-level Go emitter: the enum's own
		// MarshalJSON is never called by protojson, and enum_encoding=NUMBER is not implemented
		verif.Expect("KF-C05-enum-annotations-have-no-effect-inside-messages", verif.JEqual(data, want))
		verif.Reach("C05/enum/kf")
		return
	}
	verif.Assert("C05/enum/wire=reference-mapping", verif.JEqual(data, want))
	verif.Reach("C05/enum/decided")
}
