package codecs

import (
	verif "verifmod/zzverif"
)

// symStrings: a list of 0..2 arbitrary short strings (nil when empty, as protojson leaves it).
func symStrings(name string) []string {
	n := 3
	if verif.Thorough() {
		n = 4 // lists of up to three items
	}
	switch verif.Choice(name+".len", n) {
	case 1:
		return []string{verif.String(name+"0", verif.L(2))}
	case 2:
		return []string{verif.String(name+"0", verif.L(2)), verif.String(name+"1", verif.L(2))}
	case 3:
		return []string{verif.String(name+"0", verif.L(2)), verif.String(name+"1", verif.L(2)), verif.String(name+"2", verif.L(2))}
	}
	return nil
}

func refStrings(xs []string) []byte {
	var out [][]byte
	for _, x := range xs {
		out = append(out, verif.JStr(x))
	}
	return verif.JArr(out...)
}

// VerifC05UnwrapMap: a map whose value message has an unwrap list: every entry of the map is
// written as "<key>": [items...] — also when the list is empty — and read back.
func VerifC05UnwrapMap() {
	m := &UnwrapMapMsg{Id: verif.String("id", verif.L(2))}
	hasA, hasB := verif.Bool("a.present"), verif.Bool("b.present")
	if hasA || hasB {
		m.ByKey = map[string]*StringList{}
	}
	var aItems, bItems []string
	if hasA {
		aItems = symStrings("a.items")
		m.ByKey["a"] = &StringList{Items: aItems}
	}
	if hasB {
		bItems = symStrings("b.items")
		m.ByKey["b"] = &StringList{Items: bItems}
	}
	data, err := m.MarshalJSON()
	verif.Assert("C04/unwrap-map/marshal-ok", err == nil)
	ref := verif.JObjOpt("byKey", verif.JObjOpt("a", refStrings(aItems), hasA, "b", refStrings(bItems), hasB), hasA || hasB,
		"id", verif.JStr(m.Id), m.Id != "")
	verif.Assert("C05/unwrap-map/wire=reference-mapping", verif.JEqual(data, ref))
	var back UnwrapMapMsg
	verif.Assert("C04/unwrap-map/unmarshal-own-output", back.UnmarshalJSON(data) == nil)
	same := verif.And(back.Id == m.Id, len(back.ByKey) == len(m.ByKey))
	for k, w := range m.ByKey {
		bw := back.ByKey[k]
		same = verif.And(same, bw != nil && len(bw.Items) == len(w.Items))
		if bw != nil && len(bw.Items) == len(w.Items) {
			for i := range w.Items {
				same = verif.And(same, bw.Items[i] == w.Items[i])
			}
		}
	}
	verif.Assert("C04/unwrap-map/round-trip", same)
	verif.Reach("C04/unwrap-map/decided")
}

// VerifC05UnwrapRoot: a root-unwrapped list message is the bare array.
func VerifC05UnwrapRoot() {
	m := &RootList{Items: symStrings("items")}
	data, err := m.MarshalJSON()
	verif.Assert("C04/unwrap-root/marshal-ok", err == nil)
	verif.Assert("C05/unwrap-root/wire=reference-mapping", verif.JEqual(data, refStrings(m.Items)))
	var back RootList
	verif.Assert("C04/unwrap-root/unmarshal-own-output", back.UnmarshalJSON(data) == nil)
	same := len(back.Items) == len(m.Items)
	if same {
		for i := range m.Items {
			same = verif.And(same, back.Items[i] == m.Items[i])
		}
	}
	verif.Assert("C04/unwrap-root/round-trip", same)
	verif.Reach("C04/unwrap-root/decided")
}

func symBars(name string) []*Bar {
	switch verif.Choice(name+".len", 3) {
	case 1:
		return []*Bar{{Symbol: verif.String(name+"0.symbol", verif.L(2)), Volume: verif.Int32(name + "0.volume")}}
	case 2:
		return []*Bar{{Symbol: verif.String(name+"0.symbol", verif.L(2))}, {Volume: verif.Int32(name + "1.volume")}}
	}
	return nil
}

func refBars(xs []*Bar) []byte {
	var out [][]byte
	for _, x := range xs {
		out = append(out, verif.JObjOpt("symbol", verif.JStr(x.Symbol), x.Symbol != "", "volume", verif.JInt(int64(x.Volume)), x.Volume != 0))
	}
	return verif.JArr(out...)
}

// VerifC05UnwrapMapMessages: as VerifC05UnwrapMap with a wrapper whose list holds messages; a key
// whose wrapper holds no element is still a key of the map, on the wire and after reading back.
func VerifC05UnwrapMapMessages() {
	m := &Portfolio{Id: verif.String("id", verif.L(2))}
	hasA, hasB := verif.Bool("a.present"), verif.Bool("b.present")
	if hasA || hasB {
		m.BarsBySymbol = map[string]*BarList{}
	}
	var aBars, bBars []*Bar
	if hasA {
		aBars = symBars("a.bars")
		m.BarsBySymbol["a"] = &BarList{Bars: aBars}
	}
	if hasB {
		bBars = symBars("b.bars")
		m.BarsBySymbol["b"] = &BarList{Bars: bBars}
	}
	data, err := m.MarshalJSON()
	verif.Assert("C04/unwrap-map-messages/marshal-ok", err == nil)
	ref := verif.JObjOpt("barsBySymbol", verif.JObjOpt("a", refBars(aBars), hasA, "b", refBars(bBars), hasB), hasA || hasB,
		"id", verif.JStr(m.Id), m.Id != "")
	verif.Assert("C05/unwrap-map-messages/wire=reference-mapping", verif.JEqual(data, ref))
	var back Portfolio
	verif.Assert("C04/unwrap-map-messages/unmarshal-own-output", back.UnmarshalJSON(data) == nil)
	same := verif.And(back.Id == m.Id, len(back.BarsBySymbol) == len(m.BarsBySymbol))
	for k, w := range m.BarsBySymbol {
		bw := back.BarsBySymbol[k]
		same = verif.And(same, bw != nil && len(bw.Bars) == len(w.Bars))
		if bw != nil && len(bw.Bars) == len(w.Bars) {
			for i := range w.Bars {
				same = verif.And(same, bw.Bars[i].GetSymbol() == w.Bars[i].Symbol && bw.Bars[i].GetVolume() == w.Bars[i].Volume)
			}
		}
	}
	verif.Assert("C04/unwrap-map-messages/round-trip", same)
	verif.Reach("C04/unwrap-map-messages/decided")
}
