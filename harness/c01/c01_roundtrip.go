package roundtrip

import (
	"context"
	"net/http"

	verif "verifmod/zzverif"
)

var c01ContentTypes = []string{"application/json", "application/x-protobuf", "application/octet-stream"}

// VerifC01RoundTrip: a call through the emitted Go client against the emitted Go
// server (in-process transport) reaches the handler of the same RPC with an equal
// request, and the caller gets back the handler's response.
func VerifC01RoundTrip() {
	ct := c01ContentTypes[verif.Choice("contentType", len(c01ContentTypes))]
	mux := http.NewServeMux()
	ret := &Thing{Id: verif.String("resp.id", verif.L(3)), Total: verif.Int64("resp.total"), Ok: verif.Bool("resp.ok")}
	if verif.Bool("resp.hasItem") {
		ret.Items = []string{verif.String("resp.item", verif.L(2))}
	}
	srv := &c01Server{ret: ret}
	if err := RegisterThingServiceServer(srv, WithMux(mux)); err != nil {
		verif.Assert("C01/register", false)
	}
	tr := &c01Transport{mux: mux}
	c := NewThingServiceClient("http://svc.test", WithThingServiceHTTPClient(&http.Client{Transport: tr}),
		WithThingServiceContentType(ct), WithThingServiceAPIKey("key-1"))
	ctx := context.Background()
	var resp *Thing
	var err error
	delivered := false
	rpc := verif.Choice("rpc", 5)
	// path-bound strings: a letter, a blank and reserved URL characters
	pathVal := func(n string) string { return verif.StringIn(n, verif.L(2), "ab +/%?#") }
	kfZeroRequired := false
	switch rpc {
	case 0:
		req := &GetReq{ThingId: pathVal("get.thing_id"), Page: verif.Int32("get.page"), Q: verif.StringIn("get.q", verif.L(2), "ab &=+%,;"), Big: verif.Int64("get.big"), Flag: verif.Bool("get.flag")}
		verif.Assume(req.ThingId != "")
		kfZeroRequired = req.Big == 0
		resp, err = c.GetThing(ctx, req)
		if g := srv.gotGet; g != nil {
			delivered = verif.And(g.ThingId == req.ThingId, g.Page == req.Page, g.Q == req.Q, g.Big == req.Big, g.Flag == req.Flag)
		}
	case 1:
		req := &CreateReq{Note: verif.String("create.note", verif.L(3)), Big: verif.Int64("create.big")}
		resp, err = c.CreateThing(ctx, req)
		if g := srv.gotCreate; g != nil {
			delivered = verif.And(g.Note == req.Note, g.Big == req.Big)
		}
	case 2, 3:
		req := &UpdateReq{ThingId: pathVal("update.thing_id"), Note: verif.String("update.note", verif.L(3)), Big: verif.Int64("update.big"), Count: verif.Int32("update.count")}
		if verif.Bool("update.hasTag") {
			req.Tags = []string{verif.String("update.tag", verif.L(2))}
		}
		verif.Assume(req.ThingId != "")
		var g *UpdateReq
		if rpc == 2 {
			resp, err = c.UpdateThing(ctx, req, WithThingServiceCallRequestID("r-1"))
			g = srv.gotUpdate
		} else {
			resp, err = c.PatchThing(ctx, req)
			g = srv.gotPatch
		}
		if g != nil {
			delivered = verif.And(g.ThingId == req.ThingId, g.Note == req.Note, g.Big == req.Big, g.Count == req.Count, len(g.Tags) == len(req.Tags))
			if len(g.Tags) == 1 && len(req.Tags) == 1 {
				delivered = verif.And(delivered, g.Tags[0] == req.Tags[0])
			}
		}
	default:
		req := &DeleteReq{ThingId: verif.Int64("delete.thing_id")}
		resp, err = c.DeleteThing(ctx, req)
		if g := srv.gotDelete; g != nil {
			delivered = g.ThingId == req.ThingId
		}
	}
	verif.Show("rpc", rpc)
	verif.Show("contentType", ct)
	verif.Show("handlerCalls", srv.calls)
	verif.Show("handler", srv.last)
	verif.Show("clientError", err != nil)
	ok := verif.And(err == nil, srv.calls == 1, delivered, c01SameThing(resp, ret))
	wantHandler := []string{"GetThing", "CreateThing", "UpdateThing", "PatchThing", "DeleteThing"}[rpc]
	if kfZeroRequired {
		verif.Expect("KF-C01-required-query-parameter-with-zero-value-is-elided-by-the-client", ok)
		verif.Reach("C01/kf-zero-required")
		return
	}
	if ct == "application/octet-stream" {
		verif.Reach("C01/octet-stream") // region of the codec mismatch repaired in ce71877
	}
	verif.Assert("C01/no-client-error", err == nil)
	verif.Assert("C01/handler-of-the-same-rpc-invoked-once", srv.calls == 1 && srv.last == wantHandler)
	verif.Assert("C01/request-delivered-unchanged", delivered)
	verif.Assert("C01/response-returned-unchanged", c01SameThing(resp, ret))
	verif.Assert("C01/no-codec-mismatch", verif.CodecMismatches() == 0)
	verif.Reach("C01/delivered")
}
