package roundtrip

import (
	"context"
	"net/http"

	verif "verifmod/zzverif"
)

// c01Server records what each handler saw and answers with a preset response.
type c01Server struct {
	gotGet    *GetReq
	gotCreate *CreateReq
	gotUpdate *UpdateReq
	gotPatch  *UpdateReq
	gotDelete *DeleteReq
	ret       *Thing
	calls     int
	last      string
}

func (s *c01Server) GetThing(_ context.Context, r *GetReq) (*Thing, error) {
	s.gotGet, s.calls, s.last = r, s.calls+1, "GetThing"
	return s.ret, nil
}
func (s *c01Server) CreateThing(_ context.Context, r *CreateReq) (*Thing, error) {
	s.gotCreate, s.calls, s.last = r, s.calls+1, "CreateThing"
	return s.ret, nil
}
func (s *c01Server) UpdateThing(_ context.Context, r *UpdateReq) (*Thing, error) {
	s.gotUpdate, s.calls, s.last = r, s.calls+1, "UpdateThing"
	return s.ret, nil
}
func (s *c01Server) PatchThing(_ context.Context, r *UpdateReq) (*Thing, error) {
	s.gotPatch, s.calls, s.last = r, s.calls+1, "PatchThing"
	return s.ret, nil
}
func (s *c01Server) DeleteThing(_ context.Context, r *DeleteReq) (*Thing, error) {
	s.gotDelete, s.calls, s.last = r, s.calls+1, "DeleteThing"
	return s.ret, nil
}

type c01Admin struct {
	got   *CreateReq
	ret   *Thing
	calls int
}

func (s *c01Admin) Purge(_ context.Context, r *CreateReq) (*Thing, error) {
	s.got, s.calls = r, s.calls+1
	return s.ret, nil
}

// c01Transport delivers client requests to the mux in-process (no sockets).
type c01Transport struct {
	mux  *http.ServeMux
	seen []http.Header // request headers of every call, in order
}

func (t *c01Transport) RoundTrip(r *http.Request) (*http.Response, error) {
	t.seen = append(t.seen, r.Header)
	w := verif.NewRecorder()
	t.mux.ServeHTTP(w, r)
	status := w.Status
	if status == 0 {
		status = http.StatusOK
	}
	hdr := w.Frozen
	if hdr == nil {
		hdr = w.Hdr
	}
	// ContentLength -1: the length is not announced (chunked / close-delimited bodies), which
	// net/http documents as always possible for a response
	return &http.Response{StatusCode: status, Header: hdr, Body: verif.Body(w.Body), ContentLength: -1}, nil
}

func c01SameThing(a, b *Thing) bool {
	if a == nil || b == nil {
		return a == b
	}
	if len(a.Items) != len(b.Items) {
		return false
	}
	same := verif.And(a.Id == b.Id, a.Total == b.Total, a.Ok == b.Ok)
	for i := range a.Items {
		same = verif.And(same, a.Items[i] == b.Items[i])
	}
	return same
}
