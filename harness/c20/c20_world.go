package httpgen

import (
	"strings"

	"google.golang.org/protobuf/compiler/protogen"
	"google.golang.org/protobuf/reflect/protoreflect"
	"google.golang.org/protobuf/types/descriptorpb"

	"github.com/SebastienMelki/sebuf/http"
	verif "github.com/SebastienMelki/sebuf/internal/zzverif"
)

func c20Msg(name string, fields ...string) *protogen.Message {
	m := verif.NewMessage("acme.v1", name)
	for i, f := range fields {
		verif.AddField(m, &verif.FieldDesc{FName: f, FJSON: f, FKind: protoreflect.StringKind, FNumber: int32(i + 1), FOpts: &descriptorpb.FieldOptions{}}, strings.ToUpper(f[:1])+f[1:])
	}
	return m
}

func c20Ref(m *protogen.Message, name string, target *protogen.Message) {
	f := verif.AddField(m, &verif.FieldDesc{FName: name, FJSON: name, FKind: protoreflect.MessageKind, FNumber: int32(len(m.Fields) + 1), FMsg: target.Desc, FOpts: &descriptorpb.FieldOptions{}}, strings.ToUpper(name[:1])+name[1:])
	f.Message = target
}

func c20MapRef(m *protogen.Message, name string, target *protogen.Message) {
	entry := &protogen.Message{Desc: &verif.MessageDesc{MName: name + "Entry", MFullName: string(m.Desc.FullName()) + "." + name + "Entry", MMapEntry: true},
		GoIdent: protogen.GoIdent{GoName: m.GoIdent.GoName + "_" + name + "Entry", GoImportPath: verif.ImportPath}}
	verif.AddField(entry, &verif.FieldDesc{FName: "key", FJSON: "key", FKind: protoreflect.StringKind, FNumber: 1, FOpts: &descriptorpb.FieldOptions{}}, "Key")
	vf := verif.AddField(entry, &verif.FieldDesc{FName: "value", FJSON: "value", FKind: protoreflect.MessageKind, FNumber: 2, FMsg: target.Desc, FOpts: &descriptorpb.FieldOptions{}}, "Value")
	vf.Message = target
	f := verif.AddField(m, &verif.FieldDesc{FName: name, FJSON: name, FKind: protoreflect.MessageKind, FMap: true, FNumber: int32(len(m.Fields) + 1), FMsg: entry.Desc, FOpts: &descriptorpb.FieldOptions{}}, strings.ToUpper(name[:1])+name[1:])
	f.Message = entry
}

func c20Service(name string, resp *protogen.Message) (*protogen.Service, *protogen.Message) {
	req := c20Msg(name+"Req", "id")
	svc := verif.NewService("acme.v1", name+"Service", &descriptorpb.ServiceOptions{})
	mo := &descriptorpb.MethodOptions{}
	verif.SetExt(mo, http.E_Config, &http.HttpConfig{Path: "/" + strings.ToLower(name), Method: http.HttpMethod_HTTP_METHOD_POST})
	verif.NewMethod(svc, "Get", "Get", req, resp, mo)
	return svc, req
}

func c20AddMethod(svc *protogen.Service, name string, in, out *protogen.Message) {
	mo := &descriptorpb.MethodOptions{}
	verif.SetExt(mo, http.E_Config, &http.HttpConfig{Path: "/" + strings.ToLower(name), Method: http.HttpMethod_HTTP_METHOD_POST})
	verif.NewMethod(svc, name, name, in, out, mo)
}

func c20Any(lines []string, sub string) bool {
	for _, l := range lines {
		if strings.Contains(l, sub) {
			return true
		}
	}
	return false
}

func c20Find(files []verif.TraceFile, suffix string) *verif.TraceFile {
	for i := range files {
		if strings.HasSuffix(files[i].Name, suffix) {
			return &files[i]
		}
	}
	return nil
}
