package httpgen

import (
	"strings"

	"google.golang.org/protobuf/compiler/protogen"

	verif "github.com/SebastienMelki/sebuf/internal/zzverif"
)

// VerifC20MockTree: in the mock of a response whose tree uses the same (non-recursive)
// message type at several places, every occurrence is filled: each string leaf reachable
// through singular message fields gets its example assignment, and nothing is reported as
// recursive.
func VerifC20MockTree() {
	address := c20Msg("Address", "city")
	money := c20Msg("Money", "currency")
	item := c20Msg("LineItem", "sku")
	resp := c20Msg("Resp", "note")
	// which edges exist is symbolic
	var want []string
	if verif.Bool("resp.billing") {
		c20Ref(resp, "billing", address)
		want = append(want, "resp.Billing.City = ")
	}
	if verif.Bool("resp.shipping") {
		c20Ref(resp, "shipping", address)
		want = append(want, "resp.Shipping.City = ")
	}
	if verif.Bool("item.price") {
		c20Ref(item, "price", money)
	}
	if verif.Bool("resp.item") {
		c20Ref(resp, "item", item)
		want = append(want, "resp.Item.Sku = ")
		if len(item.Fields) == 2 {
			want = append(want, "resp.Item.Price.Currency = ")
		}
	}
	if verif.Bool("resp.total") {
		c20Ref(resp, "total", money)
		want = append(want, "resp.Total.Currency = ")
	}
	svc, req := c20Service("Order", resp)
	file := verif.NewFile("acme/v1/order.proto", "acme.v1", "acmev1", "acme/v1/order")
	file.Services, file.Messages = []*protogen.Service{svc}, []*protogen.Message{req, resp, address, money, item}
	p := &protogen.Plugin{Files: []*protogen.File{file}}
	verif.Assert("C20/tree/accepted", NewWithOptions(p, Options{GenerateMock: true}).Generate() == nil)
	mock := c20Find(verif.Trace(p), "_http_mock.pb.go")
	verif.Assert("C20/tree/file-emitted", mock != nil)
	for _, w := range want {
		n := 0
		for _, l := range mock.Lines {
			if strings.HasPrefix(l, w) {
				n++
			}
		}
		verif.Show("leaf", w)
		verif.Assert("C20/tree/every-occurrence-of-a-message-type-is-filled", n == 1)
	}
	verif.Assert("C20/tree/nothing-reported-recursive", !c20Any(mock.Lines, "recursive message"))
	verif.Reach("C20/tree/decided")
}

