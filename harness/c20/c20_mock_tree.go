package httpgen

import (
	"strings"

	"google.golang.org/protobuf/compiler/protogen"
	"google.golang.org/protobuf/types/descriptorpb"

	"github.com/SebastienMelki/sebuf/http"

	verif "github.com/SebastienMelki/sebuf/internal/zzverif"
)

// VerifC20MockTree: in the mock of a response whose tree uses the same (non-recursive)
// message type at several places, every occurrence is filled: each string leaf reachable
// through singular message fields gets its example assignment, and nothing is reported as
// recursive.
func VerifC20MockTree() {
	address := c20Msg("Address", "city")
	money := c20Msg("Money", "currency")
	item := c20Msg("LineItem", "sku")
	resp := c20Msg("Resp", "note")
	// which edges exist is symbolic
	var want []string
	if verif.Bool("resp.billing") {
		c20Ref(resp, "billing", address)
		want = append(want, "resp.Billing.City = ")
	}
	if verif.Bool("resp.shipping") {
		c20Ref(resp, "shipping", address)
		want = append(want, "resp.Shipping.City = ")
	}
	if verif.Bool("item.price") {
		c20Ref(item, "price", money)
	}
	if verif.Bool("resp.item") {
		c20Ref(resp, "item", item)
		want = append(want, "resp.Item.Sku = ")
		if len(item.Fields) == 2 {
			want = append(want, "resp.Item.Price.Currency = ")
		}
	}
	if verif.Bool("resp.total") {
		c20Ref(resp, "total", money)
		want = append(want, "resp.Total.Currency = ")
	}
	// declared examples on leaves of the tree; the same message types may also be the request
	// of another method of the file (a message is not either "a request" or "a response")
	verif.SetExt(money.Fields[0].Desc.Options().(*descriptorpb.FieldOptions), http.E_FieldExamples, &http.FieldExamples{Values: []string{"USD", "EUR"}})
	verif.SetExt(address.Fields[0].Desc.Options().(*descriptorpb.FieldOptions), http.E_FieldExamples, &http.FieldExamples{Values: []string{"Paris"}})
	svc, req := c20Service("Order", resp)
	times := 1 // methods answering with resp
	switch verif.Choice("alsoARequest", 4) {
	case 1:
		c20AddMethod(svc, "Pay", money, c20Msg("PayResp", "receipt"))
	case 2:
		c20AddMethod(svc, "Move", address, address)
	case 3:
		c20AddMethod(svc, "Replace", resp, resp)
		times = 2
	}
	file := verif.NewFile("acme/v1/order.proto", "acme.v1", "acmev1", "acme/v1/order")
	file.Services, file.Messages = []*protogen.Service{svc}, []*protogen.Message{req, resp, address, money, item}
	for _, mth := range svc.Methods[1:] {
		if mth.Output != mth.Input && mth.Output != resp {
			file.Messages = append(file.Messages, mth.Output)
		}
	}
	p := &protogen.Plugin{Files: []*protogen.File{file}}
	verif.Assert("C20/tree/accepted", NewWithOptions(p, Options{GenerateMock: true}).Generate() == nil)
	mock := c20Find(verif.Trace(p), "_http_mock.pb.go")
	verif.Assert("C20/tree/file-emitted", mock != nil)
	for _, w := range want {
		n := 0
		for _, l := range mock.Lines {
			if strings.HasPrefix(l, w) {
				n++
			}
		}
		verif.Show("leaf", w)
		verif.Assert("C20/tree/every-occurrence-of-a-message-type-is-filled", n == times)
	}
	// every leaf the mock fills by looking up a declared example finds it in the emitted table
	for _, key := range []string{"Money.currency", "Address.city"} {
		used := c20Any(mock.Lines, `"`+key+`"`)
		if key == "Money.currency" {
			used = used && c20Any(mock.Lines, ".Currency = ")
		} else {
			used = used && c20Any(mock.Lines, ".City = ")
		}
		if !used {
			continue
		}
		n := 0
		for i, l := range mock.Lines {
			if l == `"`+key+`": {` {
				n++
				first := "\"Paris\","
				if key == "Money.currency" {
					first = "\"USD\","
				}
				verif.Assert("C20/tree/example-table-lists-the-declared-examples", i+1 < len(mock.Lines) && mock.Lines[i+1] == first)
			}
		}
		verif.Show("key", key)
		verif.Assert("C20/tree/looked-up-example-key-is-in-the-emitted-table", n == 1)
		verif.Reach("C20/tree/examples")
	}
	verif.Assert("C20/tree/nothing-reported-recursive", !c20Any(mock.Lines, "recursive message"))
	verif.Reach("C20/tree/decided")
}

