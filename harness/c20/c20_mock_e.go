package mock

import (
	"context"

	verif "verifmod/zzverif"
)

// VerifC20Examples: a response field that declares example values takes one of them,
// parsed to the field's type; unparsable examples fall back to the default.
// The example table of the emitted mock is overwritten with arbitrary strings.
func VerifC20Examples() {
	e1 := verif.StringIn("big.example1", verif.L(11), "0-9-x")
	e2 := verif.StringIn("big.example2", verif.L(3), "0-9-x")
	fieldExamples["Resp.big"] = []string{e1, e2}
	t1, t2 := verif.String("title.example1", verif.L(3)), verif.String("title.example2", verif.L(3))
	fieldExamples["Resp.title"] = []string{t1, t2}
	b1 := []string{"true", "false", "yes"}[verif.Choice("ok.example", 3)]
	fieldExamples["Resp.ok"] = []string{b1}

	resp, err := NewMockMockedServiceServer().Get(context.Background(), &Req{Id: "x"})
	verif.Assert("C20/examples/mock-answers", err == nil && resp != nil)
	v1, ok1 := verif.AtoiRef(e1)
	v2, ok2 := verif.AtoiRef(e2)
	verif.Show("big", resp.Big)
	verif.Show("example1", e1)
	// the chosen example is one of the two; if it parses as a 64-bit integer the field holds it
	from1 := verif.And(ok1, resp.Big == v1)
	from2 := verif.And(ok2, resp.Big == v2)
	fallback := verif.And(verif.Or(!ok1, !ok2), resp.Big == 42)
	verif.Assert("C20/examples/int64-field-takes-a-declared-example", verif.Or(from1, from2, fallback))
	if ok1 && ok2 {
		verif.Assert("C20/examples/int64-no-fallback-when-all-examples-parse", verif.Or(resp.Big == v1, resp.Big == v2))
	}
	verif.Assert("C20/examples/string-field-takes-a-declared-example", verif.Or(resp.Title == t1, resp.Title == t2))
	switch b1 {
	case "true":
		verif.Assert("C20/examples/bool-field-takes-the-declared-example", resp.Ok)
	case "false":
		verif.Assert("C20/examples/bool-field-takes-the-declared-example", !resp.Ok)
	}
	verif.Assert("C20/examples/field-without-examples-gets-default", resp.Plain == 42)
	verif.Reach("C20/examples/decided")
}
