package httpgen

import (
	"strings"

	"google.golang.org/protobuf/compiler/protogen"
	"google.golang.org/protobuf/reflect/protoreflect"
	"google.golang.org/protobuf/types/descriptorpb"

	"github.com/SebastienMelki/sebuf/http"
	verif "github.com/SebastienMelki/sebuf/internal/zzverif"
)

// VerifC20MockTyping: every assignment the mock emits for a response field has the Go
// type of that field (a necessary condition for the mock file to build with the package).
func VerifC20MockTyping() {
	w := c12NewWorld()
	resp := verif.NewMessage("acme.v1", "Resp")
	f1, a := c12SymField(w, resp, "f1", "f1", "F1", 1, &descriptorpb.FieldOptions{})
	if a.optional && verif.Bool("f1.proto2Optional") {
		// a proto2 optional field: the keyword (and a pointer Go type) without a synthetic oneof
		f1.Oneof = nil
		f1.Desc.(*verif.FieldDesc).FOneof = nil
	}
	req := verif.NewMessage("acme.v1", "Req")
	verif.AddField(req, &verif.FieldDesc{FName: "id", FJSON: "id", FKind: protoreflect.StringKind, FNumber: 1, FOpts: &descriptorpb.FieldOptions{}}, "Id")
	svc := verif.NewService("acme.v1", "MockedService", &descriptorpb.ServiceOptions{})
	mo := &descriptorpb.MethodOptions{}
	verif.SetExt(mo, http.E_Config, &http.HttpConfig{Path: "/m", Method: http.HttpMethod_HTTP_METHOD_POST})
	verif.NewMethod(svc, "Get", "Get", req, resp, mo)
	file := verif.NewFile("acme/v1/mock.proto", "acme.v1", "acmev1", "acme/v1/mock")
	file.Services, file.Messages = []*protogen.Service{svc}, []*protogen.Message{req, resp, w.child}
	p := &protogen.Plugin{Files: []*protogen.File{file}}
	verif.Assert("C20/mock/accepted", NewWithOptions(p, Options{GenerateMock: true}).Generate() == nil)
	mock := c14Find(verif.Trace(p), "_http_mock.pb.go")
	verif.Assert("C20/mock/file-emitted", mock != nil)
	// the assigned expression: select<T>Example(...), possibly inside a conversion, inside a
	// one-element slice literal []T{...} or a pointer helper proto.T(...)
	sel, conv, shape, shapeType := "", "", "", ""
	for _, l := range mock.Lines {
		if !strings.HasPrefix(l, "resp.F1 = ") {
			continue
		}
		rhs := l[len("resp.F1 = "):]
		// the recording stub marks qualified identifiers as «import path».Name
		rhs = strings.Replace(rhs, "«google.golang.org/protobuf/proto».", "proto.", 1)
		if strings.HasPrefix(rhs, "[]") {
			if i := strings.Index(rhs, "{"); i > 0 {
				shape, shapeType, rhs = "slice", rhs[2:i], rhs[i+1:]
			}
		} else if strings.HasPrefix(rhs, "proto.") {
			if i := strings.Index(rhs, "("); i > 0 {
				helper := rhs[len("proto."):i]
				shape, rhs = "pointer", rhs[i+1:]
				shapeType = map[string]string{"String": "string", "Int32": "int32", "Int64": "int64", "Bool": "bool", "Float32": "float32", "Float64": "float64"}[helper]
			}
		}
		for _, c := range []string{"int32", "float32"} {
			if strings.HasPrefix(rhs, c+"(select") {
				conv, rhs = c, rhs[len(c)+1:]
			}
		}
		if strings.HasPrefix(rhs, "select") {
			sel = rhs[:strings.Index(rhs, "(")]
		}
	}
	verif.Show("selector", sel)
	verif.Show("conversion", conv)
	verif.Show("shape", shape)
	if sel == "" {
		verif.Reach("C20/typing/no-selector-assignment")
		return
	}
	// Go type of the example expression
	exprType := map[string]string{"selectStringExample": "string", "selectIntExample": "int64", "selectBoolExample": "bool", "selectFloatExample": "float64"}[sel]
	if conv != "" {
		exprType = conv
	}
	fieldType := map[protoreflect.Kind]string{protoreflect.StringKind: "string", protoreflect.Int32Kind: "int32", protoreflect.Int64Kind: "int64",
		protoreflect.BoolKind: "bool", protoreflect.FloatKind: "float32", protoreflect.DoubleKind: "float64"}[a.kind]
	wantShape := ""
	switch {
	case a.list:
		wantShape = "slice"
	case a.optional:
		wantShape = "pointer"
	}
	ok := !a.mp && exprType != "" && exprType == fieldType && shape == wantShape && (shape == "" || shapeType == fieldType)
	if !a.list && !a.mp && !a.optional && (a.kind == protoreflect.Int32Kind || a.kind == protoreflect.FloatKind) {
		verif.Reach("C20/typing/width") // region of the defect repaired in 1122cd4
	}
	if a.list || a.optional {
		verif.Reach("C20/typing/cardinality") // region of the defect repaired in f79a179
	}
	verif.Assert("C20/selector-result-type-matches-field-type", ok)
	verif.Reach("C20/typing/decided")
}

// VerifC20MockMapTypes: the map type the mock allocates for a map<K, Message> field names
// the same (qualified) message type as the value it stores, for messages of the same or of
// another Go package.
func VerifC20MockMapTypes() {
	otherPkg := verif.Bool("valueMessageInOtherPackage")
	val := verif.NewMessage("acme.v1", "Label")
	if otherPkg {
		val.GoIdent.GoImportPath = "example.com/gen/other"
	}
	verif.AddField(val, &verif.FieldDesc{FName: "text", FJSON: "text", FKind: protoreflect.StringKind, FNumber: 1, FOpts: &descriptorpb.FieldOptions{}}, "Text")
	entry := &protogen.Message{Desc: &verif.MessageDesc{MName: "LabelsEntry", MFullName: "acme.v1.Resp.LabelsEntry", MMapEntry: true},
		GoIdent: protogen.GoIdent{GoName: "Resp_LabelsEntry", GoImportPath: verif.ImportPath}}
	kk := []protoreflect.Kind{protoreflect.StringKind, protoreflect.Int32Kind, protoreflect.Uint64Kind, protoreflect.BoolKind}[verif.Choice("keyKind", 4)]
	verif.AddField(entry, &verif.FieldDesc{FName: "key", FJSON: "key", FKind: kk, FNumber: 1, FOpts: &descriptorpb.FieldOptions{}}, "Key")
	vf := verif.AddField(entry, &verif.FieldDesc{FName: "value", FJSON: "value", FKind: protoreflect.MessageKind, FNumber: 2, FOpts: &descriptorpb.FieldOptions{}, FMsg: val.Desc}, "Value")
	vf.Message = val
	resp := verif.NewMessage("acme.v1", "Resp")
	mf := verif.AddField(resp, &verif.FieldDesc{FName: "labels", FJSON: "labels", FKind: protoreflect.MessageKind, FMap: true, FNumber: 1, FOpts: &descriptorpb.FieldOptions{}, FMsg: entry.Desc}, "Labels")
	mf.Message = entry
	req := verif.NewMessage("acme.v1", "Req")
	svc := verif.NewService("acme.v1", "MockedService", &descriptorpb.ServiceOptions{})
	mo := &descriptorpb.MethodOptions{}
	verif.SetExt(mo, http.E_Config, &http.HttpConfig{Path: "/m", Method: http.HttpMethod_HTTP_METHOD_POST})
	verif.NewMethod(svc, "Get", "Get", req, resp, mo)
	file := verif.NewFile("acme/v1/mock.proto", "acme.v1", "acmev1", "acme/v1/mock")
	file.Services, file.Messages = []*protogen.Service{svc}, []*protogen.Message{req, resp}
	p := &protogen.Plugin{Files: []*protogen.File{file}}
	verif.Assert("C20/map/accepted", NewWithOptions(p, Options{GenerateMock: true}).Generate() == nil)
	mock := c14Find(verif.Trace(p), "_http_mock.pb.go")
	mk, st := "", ""
	for _, l := range mock.Lines {
		if strings.HasPrefix(l, "resp.Labels = make(map[") {
			mk = l[strings.Index(l, "]*")+2 : len(l)-1]
		}
		if strings.HasPrefix(l, "resp.Labels[") && strings.Contains(l, "] = &") {
			st = l[strings.Index(l, "] = &")+5 : strings.Index(l, "{}")]
		}
	}
	verif.Show("types-agree", mk == st) // (qualified identifiers are rendered differently by the recording stub and by protogen)
	verif.Assert("C20/map/allocated-and-stored-value-types-agree", mk != "" && mk == st)
	verif.Reach("C20/map/decided")
}
