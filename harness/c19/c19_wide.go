package openapiv3

import (
	validate "buf.build/gen/go/bufbuild/protovalidate/protocolbuffers/go/buf/validate"
	"github.com/pb33f/libopenapi/datamodel/high/base"
	"google.golang.org/protobuf/reflect/protoreflect"

	verif "github.com/SebastienMelki/sebuf/internal/zzverif"
)

// 64-bit values over the whole range of the kind, all exactly representable as float64
// (the published bound is a float64): the comparison of the schema is then exact.
var c19Wide = []uint64{0, 5, 1 << 53, 1 << 62, 1<<63 - 1024, 1 << 63, 1<<63 + 2048, 3 << 62, 1<<64 - 2048}
var c19WideSigned = []int64{-1 << 63, -1 << 62, -(1 << 53), -5, 0, 5, 1 << 53, 1 << 62, 1<<63 - 1024}

func c19BoundOK(schema *base.Schema, w float64) bool {
	ok := true
	if schema.Minimum != nil {
		ok = ok && w >= *schema.Minimum
	}
	if schema.Maximum != nil {
		ok = ok && w <= *schema.Maximum
	}
	if em := schema.ExclusiveMinimum; em != nil && em.N == 1 {
		ok = ok && w > em.B
	}
	if em := schema.ExclusiveMaximum; em != nil && em.N == 1 {
		ok = ok && w < em.B
	}
	return ok
}

// VerifC19Wide64: one gte/gt/lte/lt rule on a 64-bit field (uint64, fixed64, sint64, sfixed64,
// int64) with bound and probe over the whole range of the kind, including the upper half of the
// unsigned range: the probe satisfies the published numeric keyword iff it satisfies the rule.
func VerifC19Wide64() {
	rule := verif.Choice("rule", 4)
	kindIx := verif.Choice("kind", 5)
	kind := []protoreflect.Kind{protoreflect.Uint64Kind, protoreflect.Fixed64Kind, protoreflect.Sint64Kind, protoreflect.Sfixed64Kind, protoreflect.Int64Kind}[kindIx]
	var rules *validate.FieldRules
	ruleOK := false
	var w float64
	if kindIx < 2 {
		bound := c19Wide[verif.Choice("bound", len(c19Wide))]
		probe := c19Wide[verif.Choice("probe", len(c19Wide))]
		w = float64(probe)
		ruleOK = [](bool){probe >= bound, probe > bound, probe <= bound, probe < bound}[rule]
		if kindIx == 0 {
			r := &validate.UInt64Rules{}
			switch rule {
			case 0:
				r.GreaterThan = &validate.UInt64Rules_Gte{Gte: bound}
			case 1:
				r.GreaterThan = &validate.UInt64Rules_Gt{Gt: bound}
			case 2:
				r.LessThan = &validate.UInt64Rules_Lte{Lte: bound}
			default:
				r.LessThan = &validate.UInt64Rules_Lt{Lt: bound}
			}
			rules = &validate.FieldRules{Type: &validate.FieldRules_Uint64{Uint64: r}}
		} else {
			r := &validate.Fixed64Rules{}
			switch rule {
			case 0:
				r.GreaterThan = &validate.Fixed64Rules_Gte{Gte: bound}
			case 1:
				r.GreaterThan = &validate.Fixed64Rules_Gt{Gt: bound}
			case 2:
				r.LessThan = &validate.Fixed64Rules_Lte{Lte: bound}
			default:
				r.LessThan = &validate.Fixed64Rules_Lt{Lt: bound}
			}
			rules = &validate.FieldRules{Type: &validate.FieldRules_Fixed64{Fixed64: r}}
		}
	} else {
		bound := c19WideSigned[verif.Choice("bound", len(c19WideSigned))]
		probe := c19WideSigned[verif.Choice("probe", len(c19WideSigned))]
		w = float64(probe)
		ruleOK = [](bool){probe >= bound, probe > bound, probe <= bound, probe < bound}[rule]
		switch kindIx {
		case 2:
			r := &validate.SInt64Rules{}
			switch rule {
			case 0:
				r.GreaterThan = &validate.SInt64Rules_Gte{Gte: bound}
			case 1:
				r.GreaterThan = &validate.SInt64Rules_Gt{Gt: bound}
			case 2:
				r.LessThan = &validate.SInt64Rules_Lte{Lte: bound}
			default:
				r.LessThan = &validate.SInt64Rules_Lt{Lt: bound}
			}
			rules = &validate.FieldRules{Type: &validate.FieldRules_Sint64{Sint64: r}}
		case 3:
			r := &validate.SFixed64Rules{}
			switch rule {
			case 0:
				r.GreaterThan = &validate.SFixed64Rules_Gte{Gte: bound}
			case 1:
				r.GreaterThan = &validate.SFixed64Rules_Gt{Gt: bound}
			case 2:
				r.LessThan = &validate.SFixed64Rules_Lte{Lte: bound}
			default:
				r.LessThan = &validate.SFixed64Rules_Lt{Lt: bound}
			}
			rules = &validate.FieldRules{Type: &validate.FieldRules_Sfixed64{Sfixed64: r}}
		default:
			r := &validate.Int64Rules{}
			switch rule {
			case 0:
				r.GreaterThan = &validate.Int64Rules_Gte{Gte: bound}
			case 1:
				r.GreaterThan = &validate.Int64Rules_Gt{Gt: bound}
			case 2:
				r.LessThan = &validate.Int64Rules_Lte{Lte: bound}
			default:
				r.LessThan = &validate.Int64Rules_Lt{Lt: bound}
			}
			rules = &validate.FieldRules{Type: &validate.FieldRules_Int64{Int64: r}}
		}
	}
	f := c19Field(kind, false, false, rules)
	schema := &base.Schema{}
	extractValidationConstraints(f, schema)
	schemaOK := c19BoundOK(schema, w)
	verif.Show("ruleOK", ruleOK)
	verif.Show("schemaOK", schemaOK)
	verif.Assert("C19/wide64/rules<=>schema", ruleOK == schemaOK)
	verif.Reach("C19/wide64/decided")
}
