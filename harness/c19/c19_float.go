package openapiv3

import (
	"strconv"

	validate "buf.build/gen/go/bufbuild/protovalidate/protocolbuffers/go/buf/validate"
	"github.com/pb33f/libopenapi/datamodel/high/base"
	"google.golang.org/protobuf/proto"
	"google.golang.org/protobuf/reflect/protoreflect"

	verif "github.com/SebastienMelki/sebuf/internal/zzverif"
)

// float32 values with and without an exact short decimal form
var c19Floats = []float32{0.1, 0.5, 0.7, 3.14159, -0.3, 100, 16777216}

// c19WireNumber: the JSON number proto3 JSON writes for a float field (shortest text that
// round-trips as float32), read as the real number a schema validator compares.
func c19WireNumber(v float32) float64 {
	x, _ := strconv.ParseFloat(strconv.FormatFloat(float64(v), 'g', -1, 32), 64)
	return x
}

func c19NodeNumber(s string) (float64, bool) {
	x, err := strconv.ParseFloat(s, 64)
	return x, err == nil
}

// VerifC19Float: a float field with one rule (gte/gt/lte/lt/const/in) over a table of
// float32 values: the value written on the wire satisfies the schema keyword iff the
// float32 value satisfies the rule.
func VerifC19Float() {
	bound := c19Floats[verif.Choice("bound", len(c19Floats))]
	probe := c19Floats[verif.Choice("probe", len(c19Floats))]
	r := &validate.FloatRules{}
	rule := verif.Choice("rule", 6)
	ruleOK := false
	switch rule {
	case 0:
		r.GreaterThan = &validate.FloatRules_Gte{Gte: bound}
		ruleOK = probe >= bound
	case 1:
		r.GreaterThan = &validate.FloatRules_Gt{Gt: bound}
		ruleOK = probe > bound
	case 2:
		r.LessThan = &validate.FloatRules_Lte{Lte: bound}
		ruleOK = probe <= bound
	case 3:
		r.LessThan = &validate.FloatRules_Lt{Lt: bound}
		ruleOK = probe < bound
	case 4:
		r.Const = proto.Float32(bound)
		ruleOK = probe == bound
	default:
		r.In = []float32{bound, 0.25}
		ruleOK = probe == bound || probe == 0.25
	}
	f := c19Field(protoreflect.FloatKind, false, false, &validate.FieldRules{Type: &validate.FieldRules_Float{Float: r}})
	schema := &base.Schema{}
	extractValidationConstraints(f, schema)
	w := c19WireNumber(probe)
	schemaOK := true
	if schema.Minimum != nil {
		schemaOK = schemaOK && w >= *schema.Minimum
	}
	if schema.Maximum != nil {
		schemaOK = schemaOK && w <= *schema.Maximum
	}
	if em := schema.ExclusiveMinimum; em != nil && em.N == 1 {
		schemaOK = schemaOK && w > em.B
	}
	if em := schema.ExclusiveMaximum; em != nil && em.N == 1 {
		schemaOK = schemaOK && w < em.B
	}
	if schema.Const != nil {
		c, ok := c19NodeNumber(schema.Const.Value)
		schemaOK = schemaOK && ok && c == w
	}
	if len(schema.Enum) > 0 {
		hit := false
		for _, n := range schema.Enum {
			if c, ok := c19NodeNumber(n.Value); ok && c == w {
				hit = true
			}
		}
		schemaOK = schemaOK && hit
	}
	verif.Show("ruleOK", ruleOK)
	verif.Show("schemaOK", schemaOK)
	if rule >= 4 {
		verif.Assert("C19/float/const-in/rules<=>schema", ruleOK == schemaOK)
		verif.Reach("C19/float/const-in")
		return
	}
	verif.Assert("C19/float/bounds/rules<=>schema", ruleOK == schemaOK)
	verif.Reach("C19/float/bounds")
}
