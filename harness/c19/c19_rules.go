package openapiv3

import (
	validate "buf.build/gen/go/bufbuild/protovalidate/protocolbuffers/go/buf/validate"
	"github.com/pb33f/libopenapi/datamodel/high/base"
	"google.golang.org/protobuf/compiler/protogen"
	"google.golang.org/protobuf/proto"
	"google.golang.org/protobuf/reflect/protoreflect"
	"google.golang.org/protobuf/types/descriptorpb"

	verif "github.com/SebastienMelki/sebuf/internal/zzverif"
)

func c19Field(kind protoreflect.Kind, list, mp bool, rules *validate.FieldRules) *protogen.Field {
	o := &descriptorpb.FieldOptions{}
	verif.SetExt(o, validate.E_Field, rules)
	return &protogen.Field{Desc: &verif.FieldDesc{FName: "f", FJSON: "f", FKind: kind, FList: list, FMap: mp, FNumber: 1, FOpts: o}, GoName: "F"}
}

// c19NumberOK evaluates the JSON-Schema 2020-12 numeric keywords of schema on the
// integer instance v (exactly: the stored float64 bounds are compared as reals).
func c19IntegerOK(schema *base.Schema, v int64) bool {
	ok := true
	if schema.Minimum != nil {
		ok = verif.And(ok, verif.CmpIntFloat(v, *schema.Minimum) >= 0)
	}
	if schema.Maximum != nil {
		ok = verif.And(ok, verif.CmpIntFloat(v, *schema.Maximum) <= 0)
	}
	// OpenAPI 3.1 / JSON Schema 2020-12: exclusiveMinimum/Maximum are numbers. A boolean
	// value (the 3.0 form, DynamicValue.N == 0) states no numeric bound.
	if em := schema.ExclusiveMinimum; em != nil && em.N == 1 {
		ok = verif.And(ok, verif.CmpIntFloat(v, em.B) > 0)
	}
	if em := schema.ExclusiveMaximum; em != nil && em.N == 1 {
		ok = verif.And(ok, verif.CmpIntFloat(v, em.B) < 0)
	}
	if schema.Const != nil {
		cv, cok := verif.AtoiRef(schema.Const.Value)
		ok = verif.And(ok, cok, cv == v)
	}
	if len(schema.Enum) > 0 {
		any := false
		for _, n := range schema.Enum {
			ev, eok := verif.AtoiRef(n.Value)
			any = verif.Or(any, verif.And(eok, ev == v))
		}
		ok = verif.And(ok, any)
	}
	return ok
}

type c19Bounds struct {
	lowKind, upKind int // 0 none, 1 inclusive, 2 exclusive
	lo, up          int64
	hasConst        bool
	c               int64
	in              []int64
}

func (b c19Bounds) holds(v int64) bool {
	ok := true
	switch b.lowKind {
	case 1:
		ok = verif.And(ok, v >= b.lo)
	case 2:
		ok = verif.And(ok, v > b.lo)
	}
	switch b.upKind {
	case 1:
		ok = verif.And(ok, v <= b.up)
	case 2:
		ok = verif.And(ok, v < b.up)
	}
	if b.hasConst {
		ok = verif.And(ok, v == b.c)
	}
	if len(b.in) > 0 {
		any := false
		for _, x := range b.in {
			any = verif.Or(any, x == v)
		}
		ok = verif.And(ok, any)
	}
	return ok
}

func c19SymBounds32(signed bool) c19Bounds {
	var b c19Bounds
	get := func(n string) int64 {
		if signed {
			return int64(verif.Int32(n))
		}
		return int64(verif.Uint32(n))
	}
	b.lowKind, b.upKind = verif.Choice("lower", 3), verif.Choice("upper", 3)
	b.lo, b.up = get("lo"), get("up")
	// buf.validate reverses the meaning when the upper bound is below the lower bound: outside this check
	if b.lowKind != 0 && b.upKind != 0 {
		verif.Assume(b.lo < b.up)
	}
	b.hasConst = verif.Bool("hasConst")
	b.c = get("const")
	switch verif.Choice("inCount", 3) {
	case 1:
		b.in = []int64{get("in1")}
	case 2:
		b.in = []int64{get("in1"), get("in2")}
	}
	return b
}

// VerifC19Int32: an int32 field with gt/gte/lt/lte/const/in rules: a value satisfies
// the rules iff it satisfies the numeric keywords of the generated schema.
func VerifC19Int32() {
	b := c19SymBounds32(true)
	r := &validate.Int32Rules{}
	switch b.lowKind {
	case 1:
		r.GreaterThan = &validate.Int32Rules_Gte{Gte: int32(b.lo)}
	case 2:
		r.GreaterThan = &validate.Int32Rules_Gt{Gt: int32(b.lo)}
	}
	switch b.upKind {
	case 1:
		r.LessThan = &validate.Int32Rules_Lte{Lte: int32(b.up)}
	case 2:
		r.LessThan = &validate.Int32Rules_Lt{Lt: int32(b.up)}
	}
	if b.hasConst {
		r.Const = proto.Int32(int32(b.c))
	}
	for _, x := range b.in {
		r.In = append(r.In, int32(x))
	}
	req := verif.Bool("required")
	rules := &validate.FieldRules{Type: &validate.FieldRules_Int32{Int32: r}}
	if req {
		rules.Required = proto.Bool(true)
	}
	f := c19Field(protoreflect.Int32Kind, false, false, rules)
	f.Desc.(*verif.FieldDesc).FOptional = verif.Bool("optionalKeyword")
	schema := &base.Schema{}
	extractValidationConstraints(f, schema)
	v := int64(verif.Int32("probe"))
	ruleOK, schemaOK := b.holds(v), c19IntegerOK(schema, v)
	verif.Show("ruleOK", ruleOK)
	verif.Show("schemaOK", schemaOK)
	verif.Assert("C19/required-listed-iff-required", checkIfFieldRequired(f) == req)
	if b.lowKind == 2 || b.upKind == 2 {
		verif.Assert("C19/int32/exclusive-bounds/rules<=>schema", ruleOK == schemaOK)
		verif.Reach("C19/int32/exclusive")
		return
	}
	verif.Assert("C19/int32/rules<=>schema", ruleOK == schemaOK)
	verif.Reach("C19/int32/decided")
}

// VerifC19Uint32: the same for an unsigned 32-bit field (rules live under uint32).
func VerifC19Uint32() {
	b := c19SymBounds32(false)
	r := &validate.UInt32Rules{}
	switch b.lowKind {
	case 1:
		r.GreaterThan = &validate.UInt32Rules_Gte{Gte: uint32(b.lo)}
	case 2:
		r.GreaterThan = &validate.UInt32Rules_Gt{Gt: uint32(b.lo)}
	}
	switch b.upKind {
	case 1:
		r.LessThan = &validate.UInt32Rules_Lte{Lte: uint32(b.up)}
	case 2:
		r.LessThan = &validate.UInt32Rules_Lt{Lt: uint32(b.up)}
	}
	if b.hasConst {
		r.Const = proto.Uint32(uint32(b.c))
	}
	for _, x := range b.in {
		r.In = append(r.In, uint32(x))
	}
	rules := &validate.FieldRules{Type: &validate.FieldRules_Uint32{Uint32: r}}
	f := c19Field(protoreflect.Uint32Kind, false, false, rules)
	schema := &base.Schema{}
	extractValidationConstraints(f, schema)
	v := int64(verif.Uint32("probe"))
	ruleOK, schemaOK := b.holds(v), c19IntegerOK(schema, v)
	verif.Show("ruleOK", ruleOK)
	verif.Show("schemaOK", schemaOK)
	verif.Assert("C19/uint32/rules<=>schema", ruleOK == schemaOK) // the dispatch defect repaired in 838862c
	verif.Reach("C19/uint32/decided")
}

// VerifC19Collections: repeated min/max/unique items and map min/max pairs.
func VerifC19Collections() {
	isMap := verif.Bool("isMap")
	hasMin, hasMax := verif.Bool("hasMin"), verif.Bool("hasMax")
	mn, mx := verif.Uint64("min"), verif.Uint64("max")
	verif.Assume(mn < 1<<62 && mx < 1<<62)
	n := int64(verif.Choice("size", 4))
	var rules *validate.FieldRules
	unique := false
	if isMap {
		r := &validate.MapRules{}
		if hasMin {
			r.MinPairs = proto.Uint64(mn)
		}
		if hasMax {
			r.MaxPairs = proto.Uint64(mx)
		}
		rules = &validate.FieldRules{Type: &validate.FieldRules_Map{Map: r}}
	} else {
		r := &validate.RepeatedRules{}
		if hasMin {
			r.MinItems = proto.Uint64(mn)
		}
		if hasMax {
			r.MaxItems = proto.Uint64(mx)
		}
		unique = verif.Bool("unique")
		if unique {
			r.Unique = proto.Bool(true)
		}
		rules = &validate.FieldRules{Type: &validate.FieldRules_Repeated{Repeated: r}}
	}
	// element kind of the list: the collection rules do not depend on it
	kind := []protoreflect.Kind{protoreflect.StringKind, protoreflect.Int32Kind, protoreflect.Int64Kind, protoreflect.DoubleKind, protoreflect.BoolKind,
		protoreflect.EnumKind, protoreflect.BytesKind, protoreflect.MessageKind}[verif.Choice("elementKind", 8)]
	if isMap {
		kind = protoreflect.MessageKind
	}
	f := c19Field(kind, !isMap, isMap, rules)
	schema := &base.Schema{}
	extractValidationConstraints(f, schema)
	ruleOK := verif.And(!hasMin || uint64(n) >= mn, !hasMax || uint64(n) <= mx)
	schemaOK := true
	if isMap {
		if schema.MinProperties != nil {
			schemaOK = verif.And(schemaOK, n >= *schema.MinProperties)
		}
		if schema.MaxProperties != nil {
			schemaOK = verif.And(schemaOK, n <= *schema.MaxProperties)
		}
	} else {
		if schema.MinItems != nil {
			schemaOK = verif.And(schemaOK, n >= *schema.MinItems)
		}
		if schema.MaxItems != nil {
			schemaOK = verif.And(schemaOK, n <= *schema.MaxItems)
		}
		verif.Assert("C19/repeated/unique-published", (schema.UniqueItems != nil && *schema.UniqueItems) == unique)
	}
	verif.Assert("C19/collections/size-rules<=>schema", ruleOK == schemaOK)
	verif.Reach("C19/collections/decided")
}

// VerifC19String: min/max length, const, in and well-known formats of string rules.
func VerifC19String() {
	r := &validate.StringRules{}
	hasMin, hasMax := verif.Bool("hasMinLen"), verif.Bool("hasMaxLen")
	mn, mx := verif.Uint64("minLen"), verif.Uint64("maxLen")
	verif.Assume(mn < 1<<62 && mx < 1<<62)
	if hasMin {
		r.MinLen = proto.Uint64(mn)
	}
	if hasMax {
		r.MaxLen = proto.Uint64(mx)
	}
	hasConst := verif.Bool("hasConst")
	c := verif.String("const", verif.L(3))
	if hasConst {
		r.Const = proto.String(c)
	}
	in1 := verif.String("in1", verif.L(3))
	hasIn := verif.Bool("hasIn")
	if hasIn {
		r.In = []string{in1, "zz"}
	}
	formats := []string{"", "email", "uuid", "uri", "hostname", "ipv4", "ipv6", "ip"}
	format := formats[verif.Choice("format", len(formats))]
	switch format {
	case "email":
		r.WellKnown = &validate.StringRules_Email{Email: true}
	case "uuid":
		r.WellKnown = &validate.StringRules_Uuid{Uuid: true}
	case "uri":
		r.WellKnown = &validate.StringRules_Uri{Uri: true}
	case "hostname":
		r.WellKnown = &validate.StringRules_Hostname{Hostname: true}
	case "ipv4":
		r.WellKnown = &validate.StringRules_Ipv4{Ipv4: true}
	case "ipv6":
		r.WellKnown = &validate.StringRules_Ipv6{Ipv6: true}
	case "ip":
		r.WellKnown = &validate.StringRules_Ip{Ip: true}
	}
	rules := &validate.FieldRules{Type: &validate.FieldRules_String_{String_: r}}
	f := c19Field(protoreflect.StringKind, false, false, rules)
	schema := &base.Schema{}
	extractValidationConstraints(f, schema)
	v := verif.String("probe", verif.L(4))
	// the length enters as an independent number: JSON Schema counts code points, the rule counts
	// runes (equal on the ASCII alphabet of this check)
	n := verif.Uint64("probeLen")
	verif.Assume(n < 1<<62)
	ruleOK := verif.And(!hasMin || n >= mn, !hasMax || n <= mx, !hasConst || v == c, !hasIn || v == in1 || v == "zz")
	schemaOK := true
	if schema.MinLength != nil {
		schemaOK = verif.And(schemaOK, int64(n) >= *schema.MinLength)
	}
	if schema.MaxLength != nil {
		schemaOK = verif.And(schemaOK, int64(n) <= *schema.MaxLength)
	}
	if schema.Const != nil {
		schemaOK = verif.And(schemaOK, schema.Const.Value == v)
	}
	if len(schema.Enum) > 0 {
		any := false
		for _, e := range schema.Enum {
			any = verif.Or(any, e.Value == v)
		}
		schemaOK = verif.And(schemaOK, any)
	}
	verif.Assert("C19/string/rules<=>schema", ruleOK == schemaOK)
	verif.Assert("C19/string/format-name", schema.Format == format)
	verif.Reach("C19/string/decided")
}
