package openapiv3

import (
	"strings"

	"github.com/pb33f/libopenapi/datamodel/high/base"
	v3 "github.com/pb33f/libopenapi/datamodel/high/v3"
	"google.golang.org/protobuf/compiler/protogen"
	"google.golang.org/protobuf/reflect/protoreflect"
	"google.golang.org/protobuf/types/descriptorpb"

	"github.com/SebastienMelki/sebuf/http"
	verif "github.com/SebastienMelki/sebuf/internal/zzverif"
)

// ---- a JSON-Schema 2020-12 evaluator for the keyword subset the generator emits ----
// type, enum, minimum (only the constant 0 occurs without buf.validate rules), properties,
// required, additionalProperties, items, allOf, oneOf, anyOf, $ref into components.
// pattern/format/description/example are annotations here (outside the check).

type c06Eval struct{ g *Generator }

func (e *c06Eval) resolve(p *base.SchemaProxy) *base.Schema {
	for i := 0; i < 4 && p != nil && p.IsReference(); i++ {
		const pfx = "#/components/schemas/"
		r := p.GetReference()
		if !strings.HasPrefix(r, pfx) {
			return nil
		}
		q, ok := e.g.schemas.Get(r[len(pfx):])
		if !ok {
			return nil
		}
		p = q
	}
	if p == nil || p.IsReference() {
		return nil
	}
	return p.Schema()
}

func c06TypeOK(t string, v *c06V) bool {
	switch t {
	case "null":
		return v.cat == c06Null
	case "boolean":
		return v.cat == c06Bool
	case "integer":
		return v.cat == c06Int
	case "number":
		return v.cat == c06Int || v.cat == c06Num
	case "string":
		return v.cat == c06Str
	case "array":
		return v.cat == c06Arr
	case "object":
		return v.cat == c06Obj
	}
	return false
}

func (e *c06Eval) valid(p *base.SchemaProxy, v *c06V, depth int) bool {
	if depth > 10 {
		return false
	}
	s := e.resolve(p)
	if s == nil {
		return false // dangling reference: nothing validates
	}
	if len(s.Type) > 0 {
		ok := false
		for _, t := range s.Type {
			if c06TypeOK(t, v) {
				ok = true
			}
		}
		if !ok {
			return false
		}
	}
	if len(s.Enum) > 0 {
		hit := false
		for _, n := range s.Enum {
			switch v.cat {
			case c06Str:
				hit = verif.Or(hit, n.Tag != "!!int" && n.Value == v.s)
			case c06Int:
				hit = verif.Or(hit, n.Tag == "!!int" && n.Value == v.s)
			case c06Null:
				hit = hit || n.Tag == "!!null"
			}
		}
		if !hit {
			return false
		}
	}
	if s.Minimum != nil && (v.cat == c06Int || v.cat == c06Num) {
		if !(*s.Minimum == 0 && v.nonneg) {
			return false
		}
	}
	if v.cat == c06Obj {
		for _, r := range s.Required {
			if v.get(r) == nil {
				return false
			}
		}
		for i, k := range v.keys {
			var ps *base.SchemaProxy
			if s.Properties != nil {
				if q, ok := s.Properties.Get(k); ok {
					ps = q
				}
			}
			switch {
			case ps != nil:
				if !e.valid(ps, v.vals[i], depth+1) {
					return false
				}
			case s.AdditionalProperties != nil && s.AdditionalProperties.IsA():
				if !e.valid(s.AdditionalProperties.A, v.vals[i], depth+1) {
					return false
				}
			case s.AdditionalProperties != nil && s.AdditionalProperties.IsB() && !s.AdditionalProperties.B:
				return false
			}
		}
	}
	if v.cat == c06Arr && s.Items != nil && s.Items.IsA() {
		for _, x := range v.elems {
			if !e.valid(s.Items.A, x, depth+1) {
				return false
			}
		}
	}
	for _, a := range s.AllOf {
		if !e.valid(a, v, depth+1) {
			return false
		}
	}
	if len(s.OneOf) > 0 {
		n := 0
		for _, a := range s.OneOf {
			if e.valid(a, v, depth+1) {
				n++
			}
		}
		if n != 1 {
			return false
		}
	}
	if len(s.AnyOf) > 0 {
		n := 0
		for _, a := range s.AnyOf {
			if e.valid(a, v, depth+1) {
				n++
			}
		}
		if n == 0 {
			return false
		}
	}
	return true
}

// describes: the schema gives a sub-schema for property key of the (valid) object v:
// through properties / additionalProperties, directly or in an allOf member or in a
// oneOf/anyOf member that v matches.
func (e *c06Eval) describes(p *base.SchemaProxy, v *c06V, key string, depth int) bool {
	s := e.resolve(p)
	if s == nil || depth > 10 {
		return false
	}
	if s.Properties != nil {
		if _, ok := s.Properties.Get(key); ok {
			return true
		}
	}
	if s.AdditionalProperties != nil && (s.AdditionalProperties.IsA() || s.AdditionalProperties.B) {
		return true
	}
	for _, a := range s.AllOf {
		if e.describes(a, v, key, depth+1) {
			return true
		}
	}
	for _, a := range append(append([]*base.SchemaProxy{}, s.OneOf...), s.AnyOf...) {
		if e.valid(a, v, depth+1) && e.describes(a, v, key, depth+1) {
			return true
		}
	}
	return false
}

func (e *c06Eval) allDescribed(p *base.SchemaProxy, v *c06V) bool {
	for _, k := range v.keys {
		if !e.describes(p, v, k, 0) {
			return false
		}
	}
	return true
}

// c06Generate runs the real schema builders over the messages of one "file".
func c06Generate(msgs ...*protogen.Message) *c06Eval {
	g := NewGenerator(FormatYAML)
	for _, m := range msgs {
		g.ProcessMessage(m)
	}
	return &c06Eval{g: g}
}

func (e *c06Eval) root(name string) *base.SchemaProxy {
	return base.CreateSchemaProxyRef("#/components/schemas/" + name)
}

// VerifC06Field: a message with one field of arbitrary kind, cardinality and (valid)
// annotations next to a plain field: every wire form M gives to a value of the message
// validates against the component schema the real generator builds, every key on the wire
// is described by it, and the default value's form ({}) validates.
func VerifC06Field() {
	custom := verif.Bool("enum.customValues")
	w := c06NewWorld(custom)
	msg := c06Msg("Msg")
	otherJSON := "note"
	c06Add(msg, &verif.FieldDesc{FName: "note", FJSON: otherJSON, FKind: protoreflect.StringKind})
	opts := &descriptorpb.FieldOptions{}
	el := c06SymElem(w, "f", opts, custom)
	if el.kind != protoreflect.EnumKind {
		verif.Assume(!custom)
	}
	card := verif.Choice("f.cardinality", 4) // 0 singular, 1 optional, 2 repeated, 3 map<string, T>
	fjson := c06JSONName("f")
	verif.Assume(fjson != otherJSON)
	d := &verif.FieldDesc{FName: "f", FJSON: fjson, FKind: el.kind, FOpts: opts}
	nullable, emptyBehavior := false, http.EmptyBehavior(0)
	switch card {
	case 1:
		// proto3 optional is not available for message fields in a way that changes the wire form
		d.FOptional = true
		if el.kind != protoreflect.MessageKind {
			nullable = verif.Bool("f.nullable")
			if nullable {
				verif.SetExt(opts, http.E_Nullable, true)
			}
		}
	case 2:
		d.FList = true
		// format/encoding annotations on repeated Timestamp/bytes: left open by the rules (Appendix B)
		verif.Assume(!(el.isTimestamp && el.tsFormat != 0))
	case 3:
		d.FMap = true
	}
	if card == 0 && el.kind == protoreflect.MessageKind && !el.isTimestamp {
		emptyBehavior = http.EmptyBehavior(verif.Choice("f.empty_behavior", 4))
		if emptyBehavior != 0 {
			verif.SetExt(opts, http.E_EmptyBehavior, emptyBehavior)
		}
	}
	var f *protogen.Field
	if card == 3 {
		// map<string, T>: the entry message carries the value kind; annotations cannot be put on entry fields
		verif.Assume(!el.int64Number && !el.enumNumber && el.tsFormat == 0)
		entry := &protogen.Message{Desc: &verif.MessageDesc{MName: "FEntry", MFullName: "acme.v1.Msg.FEntry", MMapEntry: true, MOpts: &descriptorpb.MessageOptions{}},
			GoIdent: protogen.GoIdent{GoName: "Msg_FEntry", GoImportPath: verif.ImportPath}}
		c06Add(entry, &verif.FieldDesc{FName: "key", FJSON: "key", FKind: protoreflect.StringKind})
		vd := &verif.FieldDesc{FName: "value", FJSON: "value", FKind: el.kind}
		vf := c06Add(entry, vd)
		el.attach(w, vf, vd)
		d.FKind = protoreflect.MessageKind
		f = c06Add(msg, d)
		f.Message = entry
		d.FMsg = entry.Desc
	} else {
		f = c06Add(msg, d)
		el.attach(w, f, d)
		if d.FOptional {
			f.Oneof = &protogen.Oneof{Desc: &verif.OneofDesc{OName: "_f", OSynthetic: true, OOpts: &descriptorpb.OneofOptions{}}, GoName: "X_F", Parent: msg, Fields: []*protogen.Field{f}}
			d.FOneof = f.Oneof.Desc
		}
	}

	e := c06Generate(msg, w.child)
	root := e.root("Msg")

	// S4 (default value): {} — plus the always-present null of an unset nullable field
	def := c06Object()
	if nullable {
		def.set(fjson, &c06V{cat: c06Null})
	}
	verif.Assert("C06/field/default-form-validates", e.valid(root, def, 0))

	// a populated value
	doc := c06Object()
	if verif.Bool("note.set") {
		doc.set(otherJSON, &c06V{cat: c06Str})
	}
	nonFinite := false
	one := func(n string) *c06V {
		v, nf := el.value(w, n)
		nonFinite = nonFinite || nf
		return v
	}
	switch card {
	case 0, 1:
		v := one("f")
		if emptyBehavior != 0 && len(v.keys) == 0 {
			switch emptyBehavior {
			case http.EmptyBehavior_EMPTY_BEHAVIOR_NULL:
				v = &c06V{cat: c06Null}
			case http.EmptyBehavior_EMPTY_BEHAVIOR_OMIT:
				v = nil
			}
		}
		if v != nil {
			doc.set(fjson, v)
		}
	case 2:
		arr := &c06V{cat: c06Arr, elems: []*c06V{one("f0")}}
		if verif.Bool("f.two") {
			arr.elems = append(arr.elems, one("f1"))
		}
		doc.set(fjson, arr)
	case 3:
		o := c06Object()
		o.set(verif.StringIn("f.key", verif.L(2), "a-z"), one("f0"))
		doc.set(fjson, o)
	}
	ok := e.valid(root, doc, 0)
	if nonFinite {
		verif.Expect("KF-C06-non-finite-float-is-a-string-on-the-wire-schema-says-number", ok)
		verif.Reach("C06/field/kf-nonfinite")
		return
	}
	verif.Assert("C06/field/populated-form-validates", ok)
	verif.Assert("C06/field/every-wire-key-is-described", e.allDescribed(root, doc))
	verif.Reach("C06/field/decided")
}

// VerifC06Flatten: a message with a flattened child (optional prefix): the wire form
// lifts the child's keys (prefix + JSON name) to the parent level.
func VerifC06Flatten() {
	w := c06NewWorld(false)
	msg := c06Msg("Msg")
	c06Add(msg, &verif.FieldDesc{FName: "id", FJSON: "id", FKind: protoreflect.StringKind})
	opts := &descriptorpb.FieldOptions{}
	verif.SetExt(opts, http.E_Flatten, true)
	prefix := ""
	if verif.Bool("prefix.set") {
		prefix = verif.StringIn("prefix", verif.L(3), "a-z_")
		verif.SetExt(opts, http.E_FlattenPrefix, prefix)
	}
	// rule R6: flattened keys do not collide with the parent's own keys
	verif.Assume(prefix+"street" != "id" && prefix+"zipCode" != "id")
	// the child may hold a member that is not a plain singular scalar: its cardinality and
	// nullability travel with it when it is promoted
	extra := verif.Choice("child.extra", 4)
	switch extra {
	case 1:
		c06Add(w.child, &verif.FieldDesc{FName: "lines", FJSON: "lines", FKind: protoreflect.StringKind, FList: true})
	case 2:
		entry := &protogen.Message{Desc: &verif.MessageDesc{MName: "LabelsEntry", MFullName: "acme.v1.Child.LabelsEntry", MMapEntry: true, MOpts: &descriptorpb.MessageOptions{}},
			GoIdent: protogen.GoIdent{GoName: "Child_LabelsEntry", GoImportPath: verif.ImportPath}}
		c06Add(entry, &verif.FieldDesc{FName: "key", FJSON: "key", FKind: protoreflect.StringKind})
		c06Add(entry, &verif.FieldDesc{FName: "value", FJSON: "value", FKind: protoreflect.StringKind})
		lf := c06Add(w.child, &verif.FieldDesc{FName: "labels", FJSON: "labels", FKind: protoreflect.MessageKind, FMap: true, FMsg: entry.Desc})
		lf.Message = entry
	case 3:
		no := &descriptorpb.FieldOptions{}
		verif.SetExt(no, http.E_Nullable, true)
		c06Add(w.child, &verif.FieldDesc{FName: "nick", FJSON: "nick", FKind: protoreflect.StringKind, FOptional: true, FOpts: no})
	}
	verif.Assume(prefix+"lines" != "id" && prefix+"labels" != "id" && prefix+"nick" != "id")
	extraValue := func(doc *c06V, pfx, name string) {
		if extra == 0 || !verif.Bool(name+".child.extra.set") {
			return
		}
		switch extra {
		case 1:
			doc.set(pfx+"lines", &c06V{cat: c06Arr, elems: []*c06V{{cat: c06Str}}})
		case 2:
			o := c06Object()
			o.set(verif.StringIn(name+".child.labels.key", verif.L(2), "a-z"), &c06V{cat: c06Str})
			doc.set(pfx+"labels", o)
		case 3:
			if verif.Bool(name + ".child.nick.null") {
				doc.set(pfx+"nick", &c06V{cat: c06Null})
			} else {
				doc.set(pfx+"nick", &c06V{cat: c06Str})
			}
		}
		verif.Reach("C06/flatten/child-member-with-cardinality")
	}
	d := &verif.FieldDesc{FName: "addr", FJSON: "addr", FKind: protoreflect.MessageKind, FOpts: opts, FMsg: w.child.Desc}
	f := c06Add(msg, d)
	f.Message = w.child
	withSecond := verif.Bool("second.flatten")
	if withSecond {
		// a second flattened field of the same child type under another prefix
		o2 := &descriptorpb.FieldOptions{}
		verif.SetExt(o2, http.E_Flatten, true)
		verif.SetExt(o2, http.E_FlattenPrefix, "b_")
		verif.Assume(prefix != "b_")
		d2 := &verif.FieldDesc{FName: "billing", FJSON: "billing", FKind: protoreflect.MessageKind, FOpts: o2, FMsg: w.child.Desc}
		f2 := c06Add(msg, d2)
		f2.Message = w.child
	}
	e := c06Generate(msg, w.child)
	root := e.root("Msg")
	verif.Assert("C06/flatten/default-form-validates", e.valid(root, c06Object(), 0))
	doc := c06Object()
	if verif.Bool("id.set") {
		doc.set("id", &c06V{cat: c06Str})
	}
	if verif.Bool("addr.set") {
		c := c06ChildValue(w, "addr")
		for i, k := range c.keys {
			doc.set(prefix+k, c.vals[i])
		}
		extraValue(doc, prefix, "addr")
	}
	if withSecond && verif.Bool("billing.set") {
		c := c06ChildValue(w, "billing")
		for i, k := range c.keys {
			doc.set("b_"+k, c.vals[i])
		}
		extraValue(doc, "b_", "billing")
	}
	verif.Assert("C06/flatten/populated-form-validates", e.valid(root, doc, 0))
	verif.Assert("C06/flatten/every-wire-key-is-described", e.allDescribed(root, doc))
	// the nested form must NOT be what the schema describes: "addr" itself is not a wire key
	verif.Reach("C06/flatten/decided")
}

// VerifC06Oneof: a message with a discriminated oneof of two variants (message or scalar
// variants, flattened or nested, custom discriminator values).
func VerifC06Oneof() {
	w := c06NewWorld(false)
	msg := c06Msg("Msg")
	c06Add(msg, &verif.FieldDesc{FName: "id", FJSON: "id", FKind: protoreflect.StringKind})
	flatten := verif.Bool("oneof.flatten")
	disc := verif.StringIn("oneof.discriminator", verif.L(4), "a-z")
	verif.Assume(disc != "")
	// rule R7: the discriminator is not the JSON name of another field; with flatten, not a child key
	verif.Assume(disc != "id" && disc != "text" && disc != "img")
	if flatten {
		verif.Assume(disc != "street" && disc != "zipCode" && disc != "w")
	}
	oo := &descriptorpb.OneofOptions{}
	verif.SetExt(oo, http.E_OneofConfig, &http.OneofConfig{Discriminator: disc, Flatten: flatten})
	od := &verif.OneofDesc{OName: "content", OFullName: "acme.v1.Msg.content", OOpts: oo}
	oneof := &protogen.Oneof{Desc: od, GoName: "Content", Parent: msg}
	msg.Oneofs = []*protogen.Oneof{oneof}

	other := c06Msg("Image")
	c06Add(other, &verif.FieldDesc{FName: "w", FJSON: "w", FKind: protoreflect.Int32Kind})

	secondIsMessage := flatten || verif.Bool("second.isMessage")
	vals := [2]string{"text", "img"}
	mk := func(i int, name string, isMsg bool, target *protogen.Message) *protogen.Field {
		o := &descriptorpb.FieldOptions{}
		if verif.Bool(name + ".customValue") {
			cv := verif.StringIn(name+".oneof_value", verif.L(3), "a-z")
			verif.Assume(cv != "")
			verif.SetExt(o, http.E_OneofValue, cv)
			vals[i] = cv
		}
		d := &verif.FieldDesc{FName: name, FJSON: name, FKind: protoreflect.StringKind, FOpts: o, FOneof: od}
		if isMsg {
			d.FKind = protoreflect.MessageKind
			d.FMsg = target.Desc
		}
		f := c06Add(msg, d)
		if isMsg {
			f.Message = target
		}
		f.Oneof = oneof
		oneof.Fields = append(oneof.Fields, f)
		return f
	}
	firstIsMessage := flatten || verif.Bool("first.isMessage")
	mk(0, "text", firstIsMessage, w.child)
	mk(1, "img", secondIsMessage, other)
	verif.Assume(vals[0] != vals[1])

	e := c06Generate(msg, w.child, other)
	root := e.root("Msg")

	doc := c06Object()
	if verif.Bool("id.set") {
		doc.set("id", &c06V{cat: c06Str})
	}
	which := verif.Choice("variant", 3) // 0 text, 1 img, 2 none
	var variant *c06V
	switch which {
	case 0:
		variant = &c06V{cat: c06Str}
		if firstIsMessage {
			variant = c06ChildValue(w, "text")
		}
	case 1:
		variant = &c06V{cat: c06Str}
		if secondIsMessage {
			variant = c06Object()
			if verif.Bool("img.w.set") {
				variant.set("w", &c06V{cat: c06Int})
			}
		}
	}
	if which < 2 {
		doc.set(disc, &c06V{cat: c06Str, s: vals[which]})
		if flatten {
			for i, k := range variant.keys {
				doc.set(k, variant.vals[i])
			}
		} else {
			doc.set([]string{"text", "img"}[which], variant)
		}
	}
	ok := e.valid(root, doc, 0)
	if which == 2 {
		// no variant set (this includes the default value of the type): the documented
		// mapping writes neither discriminator nor variant
		verif.Expect("KF-C06-message-with-discriminated-oneof-does-not-validate-when-no-variant-is-set", ok)
		verif.Reach("C06/oneof/kf-unset")
		return
	}
	if !flatten {
		verif.Expect("KF-C06-nested-oneof-variant-schemas-are-not-exclusive", ok)
		verif.Reach("C06/oneof/kf-nested")
		return
	}
	verif.Assert("C06/oneof/populated-form-validates", ok)
	verif.Assert("C06/oneof/every-wire-key-is-described", e.allDescribed(root, doc))
	verif.Reach("C06/oneof/decided")
}

// VerifC06Unwrap: root-level unwrap (list and map, with value unwrap) and map-value
// unwrap inside an ordinary message.
func VerifC06Unwrap() {
	w := c06NewWorld(false)
	shape := verif.Choice("shape", 4) // 0 root list, 1 root map, 2 root map + value unwrap, 3 ordinary message with map + value unwrap
	msg := c06Msg("Msg")
	opts := &descriptorpb.FieldOptions{}
	el := c06SymElem(w, "item", opts, false)
	verif.Assume(!(el.isTimestamp && el.tsFormat != 0) && !el.int64Number && !el.enumNumber)
	// the wrapper message of value unwrap: Wrapper{ repeated T items [unwrap] }
	wrapper := c06Msg("Wrapper")
	wo := &descriptorpb.FieldOptions{}
	verif.SetExt(wo, http.E_Unwrap, true)
	wd := &verif.FieldDesc{FName: "items", FJSON: "items", FKind: el.kind, FList: true, FOpts: wo}
	wf := c06Add(wrapper, wd)
	el.attach(w, wf, wd)

	mkMap := func(parent *protogen.Message, name string, o *descriptorpb.FieldOptions, valueKind protoreflect.Kind, valueMsg *protogen.Message, attachEl bool) {
		entry := &protogen.Message{Desc: &verif.MessageDesc{MName: "Entry", MFullName: "acme.v1.Msg.Entry", MMapEntry: true, MOpts: &descriptorpb.MessageOptions{}},
			GoIdent: protogen.GoIdent{GoName: "Msg_Entry", GoImportPath: verif.ImportPath}}
		c06Add(entry, &verif.FieldDesc{FName: "key", FJSON: "key", FKind: protoreflect.StringKind})
		vd := &verif.FieldDesc{FName: "value", FJSON: "value", FKind: valueKind}
		vf := c06Add(entry, vd)
		if attachEl {
			el.attach(w, vf, vd)
		} else if valueMsg != nil {
			vf.Message = valueMsg
			vd.FMsg = valueMsg.Desc
		}
		d := &verif.FieldDesc{FName: name, FJSON: name, FKind: protoreflect.MessageKind, FMap: true, FOpts: o, FMsg: entry.Desc}
		f := c06Add(parent, d)
		f.Message = entry
	}

	var doc *c06V
	elemArr := func(n string) *c06V {
		a := &c06V{cat: c06Arr}
		if verif.Bool(n + ".nonEmpty") {
			v, nf := el.value(w, n)
			verif.Assume(!nf)
			a.elems = append(a.elems, v)
		}
		return a
	}
	switch shape {
	case 0:
		verif.SetExt(opts, http.E_Unwrap, true)
		d := &verif.FieldDesc{FName: "items", FJSON: "items", FKind: el.kind, FList: true, FOpts: opts}
		f := c06Add(msg, d)
		el.attach(w, f, d)
		doc = elemArr("e")
	case 1:
		o := &descriptorpb.FieldOptions{}
		verif.SetExt(o, http.E_Unwrap, true)
		mkMap(msg, "by_key", o, el.kind, nil, true)
		doc = c06Object()
		if verif.Bool("entry.present") {
			v, nf := el.value(w, "e")
			verif.Assume(!nf)
			doc.set(verif.StringIn("key", verif.L(2), "a-z"), v)
		}
	case 2:
		o := &descriptorpb.FieldOptions{}
		verif.SetExt(o, http.E_Unwrap, true)
		mkMap(msg, "by_key", o, protoreflect.MessageKind, wrapper, false)
		doc = c06Object()
		if verif.Bool("entry.present") {
			doc.set(verif.StringIn("key", verif.L(2), "a-z"), elemArr("e"))
		}
	case 3:
		c06Add(msg, &verif.FieldDesc{FName: "id", FJSON: "id", FKind: protoreflect.StringKind})
		mkMap(msg, "by_key", &descriptorpb.FieldOptions{}, protoreflect.MessageKind, wrapper, false)
		doc = c06Object()
		if verif.Bool("entry.present") {
			m := c06Object()
			m.set(verif.StringIn("key", verif.L(2), "a-z"), elemArr("e"))
			doc.set("by_key", m)
		}
	}
	e := c06Generate(msg, wrapper, w.child)
	root := e.root("Msg")
	verif.Assert("C06/unwrap/wire-form-validates", e.valid(root, doc, 0))
	if doc.cat == c06Obj {
		verif.Assert("C06/unwrap/every-wire-key-is-described", e.allDescribed(root, doc))
	}
	// the wrapped form must not be the one described: a root list message is not an object
	if shape == 0 {
		verif.Assert("C06/unwrap/root-list-schema-rejects-the-wrapped-object", !e.valid(root, c06Object(), 0))
	}
	verif.Reach("C06/unwrap/decided")
}

// VerifC06Builtin: the built-in Error / ValidationError component schemas accept the
// protojson forms of sebuf.http.Error and sebuf.http.ValidationError the server writes.
func VerifC06Builtin() {
	e := c06Generate()
	errDoc := c06Object()
	if verif.Bool("error.message.nonEmpty") { // protojson omits the empty string
		errDoc.set("message", &c06V{cat: c06Str})
	}
	verif.Assert("C06/builtin/error-form-validates", e.valid(e.root("Error"), errDoc, 0))
	verif.Assert("C06/builtin/error-keys-described", e.allDescribed(e.root("Error"), errDoc))
	// the server never writes a ValidationError without violations; each violation names a
	// field and carries a description (both non-empty: see C02/C09 harnesses)
	vdoc := c06Object()
	arr := &c06V{cat: c06Arr}
	n := 1 + verif.Choice("violations", 2)
	for i := 0; i < n; i++ {
		fv := c06Object()
		fv.set("field", &c06V{cat: c06Str})
		fv.set("description", &c06V{cat: c06Str})
		arr.elems = append(arr.elems, fv)
	}
	vdoc.set("violations", arr)
	verif.Assert("C06/builtin/validation-error-form-validates", e.valid(e.root("ValidationError"), vdoc, 0))
	verif.Assert("C06/builtin/validation-error-keys-described", e.allDescribed(e.root("ValidationError"), vdoc))
	verif.Reach("C06/builtin/decided")
}

// VerifC06Parameters: the schema published for a path variable / query parameter accepts the
// text the clients put in the URL for a field of that kind (OpenAPI parameter values are
// text that is read according to the schema type): decimal text for 32-bit integers
// (integer), decimal text for 64-bit integers (string, as in proto3 JSON), true/false
// (boolean), a decimal number (number), arbitrary text (string); query parameters carry the
// declared required flag.
func VerifC06Parameters() {
	kinds := []protoreflect.Kind{protoreflect.StringKind, protoreflect.BoolKind, protoreflect.Int32Kind, protoreflect.Sint32Kind, protoreflect.Uint32Kind,
		protoreflect.Int64Kind, protoreflect.Uint64Kind, protoreflect.Sfixed64Kind, protoreflect.FloatKind, protoreflect.DoubleKind, protoreflect.Fixed32Kind, protoreflect.Sfixed32Kind}
	want := func(k protoreflect.Kind) string {
		switch k {
		case protoreflect.BoolKind:
			return "boolean"
		case protoreflect.Int32Kind, protoreflect.Sint32Kind, protoreflect.Uint32Kind, protoreflect.Fixed32Kind, protoreflect.Sfixed32Kind:
			return "integer"
		case protoreflect.FloatKind, protoreflect.DoubleKind:
			return "number"
		}
		return "string" // text, and 64-bit integers in their proto3 JSON string form
	}
	pk := kinds[verif.Choice("path.kind", len(kinds))]
	qk := kinds[verif.Choice("query.kind", len(kinds))]
	req := c06Msg("Req")
	c06Add(req, &verif.FieldDesc{FName: "item_id", FJSON: "itemId", FKind: pk})
	qo := &descriptorpb.FieldOptions{}
	qreq := verif.Bool("query.required")
	qname := verif.StringIn("query.name", 4, "a-z_")
	verif.Assume(qname != "")
	verif.SetExt(qo, http.E_Query, &http.QueryConfig{Name: qname, Required: qreq})
	c06Add(req, &verif.FieldDesc{FName: "limit", FJSON: "limit", FKind: qk, FOpts: qo})
	resp := c06Msg("Resp")
	svc := verif.NewService("acme.v1", "ItemService", &descriptorpb.ServiceOptions{})
	mo := &descriptorpb.MethodOptions{}
	verb := http.HttpMethod_HTTP_METHOD_GET
	if verif.Bool("verb.delete") {
		verb = http.HttpMethod_HTTP_METHOD_DELETE
	}
	verif.SetExt(mo, http.E_Config, &http.HttpConfig{Path: "/items/{item_id}", Method: verb})
	m := verif.NewMethod(svc, "GetItem", "GetItem", req, resp, mo)
	g := NewGenerator(FormatYAML)
	g.processMethod(svc, m)
	nPath, nQuery := 0, 0
	for pair := g.doc.Paths.PathItems.First(); pair != nil; pair = pair.Next() {
		for _, op := range []*v3.Operation{pair.Value().Get, pair.Value().Delete} {
			if op == nil {
				continue
			}
			for _, p := range op.Parameters {
				s := (&c06Eval{g: g}).resolve(p.Schema)
				typ := ""
				if s != nil && len(s.Type) == 1 {
					typ = s.Type[0]
				}
				switch p.In {
				case "path":
					nPath++
					verif.Show("pathType", typ)
					verif.Assert("C06/params/path-schema-accepts-the-text-sent", p.Name == "item_id" && typ == want(pk))
					verif.Assert("C06/params/path-parameter-required", p.Required != nil && *p.Required)
				case "query":
					nQuery++
					verif.Show("queryType", typ)
					verif.Assert("C06/params/query-schema-accepts-the-text-sent", p.Name == qname && typ == want(qk))
					verif.Assert("C06/params/query-required-flag-published", p.Required != nil && *p.Required == qreq)
				}
			}
		}
	}
	verif.Assert("C06/params/one-path-one-query-parameter", nPath == 1 && nQuery == 1)
	verif.Reach("C06/params/decided")
}
