package openapiv3

// Shared by the C06 (package openapiv3) and C07 (package tscommon, package clause rewritten
// by the driver) harnesses: abstract wire values, symbolic descriptors and the reference
// mapping M of DESIGN.md Appendix A.

import (
	"google.golang.org/protobuf/compiler/protogen"
	"google.golang.org/protobuf/reflect/protoreflect"
	"google.golang.org/protobuf/types/descriptorpb"

	"github.com/SebastienMelki/sebuf/http"
	verif "github.com/SebastienMelki/sebuf/internal/zzverif"
)

// ---- wire values: the reference mapping M of DESIGN.md Appendix A, as abstract JSON ----

const (
	c06Null = iota
	c06Bool
	c06Int // a JSON number with zero fraction
	c06Num // a JSON number with a non-zero fraction
	c06Str
	c06Arr
	c06Obj
)

type c06V struct {
	cat    int
	s      string // text of a string / decimal text of an enum number ("" = arbitrary)
	nonneg bool   // integers: value is known to be >= 0
	keys   []string
	vals   []*c06V
	elems  []*c06V
}

func c06Object() *c06V { return &c06V{cat: c06Obj} }
func (v *c06V) set(k string, x *c06V) {
	v.keys = append(v.keys, k)
	v.vals = append(v.vals, x)
}
func (v *c06V) get(k string) *c06V {
	for i, kk := range v.keys {
		if kk == k {
			return v.vals[i]
		}
	}
	return nil
}

// ---- descriptors ----

type c06World struct {
	child, ts, wrapper *protogen.Message
	enum               *protogen.Enum
	enumNames          [2]string // wire strings of the two enum values (custom value or proto name)
}

func c06Msg(name string) *protogen.Message {
	return &protogen.Message{Desc: &verif.MessageDesc{MName: name, MFullName: "acme.v1." + name, MOpts: &descriptorpb.MessageOptions{}},
		GoIdent: protogen.GoIdent{GoName: name, GoImportPath: verif.ImportPath}}
}

func c06Add(m *protogen.Message, d *verif.FieldDesc) *protogen.Field {
	if d.FOpts == nil {
		d.FOpts = &descriptorpb.FieldOptions{}
	}
	d.FNumber = int32(len(m.Fields) + 1)
	return verif.AddField(m, d, "F"+d.FName)
}

func c06NewWorld(customEnumValues bool) *c06World {
	w := &c06World{}
	w.child = c06Msg("Child")
	c06Add(w.child, &verif.FieldDesc{FName: "street", FJSON: "street", FKind: protoreflect.StringKind})
	c06Add(w.child, &verif.FieldDesc{FName: "zip_code", FJSON: "zipCode", FKind: protoreflect.Int32Kind})
	w.ts = &protogen.Message{Desc: &verif.MessageDesc{MName: "Timestamp", MFullName: "google.protobuf.Timestamp", MOpts: &descriptorpb.MessageOptions{}},
		GoIdent: protogen.GoIdent{GoName: "Timestamp", GoImportPath: "google.golang.org/protobuf/types/known/timestamppb"}}
	c06Add(w.ts, &verif.FieldDesc{FName: "seconds", FJSON: "seconds", FKind: protoreflect.Int64Kind})
	c06Add(w.ts, &verif.FieldDesc{FName: "nanos", FJSON: "nanos", FKind: protoreflect.Int32Kind})
	w.enum = &protogen.Enum{Desc: &verif.EnumDesc{EName: "Color", EFullName: "acme.v1.Color", EOpts: &descriptorpb.EnumOptions{}},
		GoIdent: protogen.GoIdent{GoName: "Color", GoImportPath: verif.ImportPath}}
	for i, n := range []string{"COLOR_UNSPECIFIED", "COLOR_RED"} {
		o := &descriptorpb.EnumValueOptions{}
		w.enumNames[i] = n
		if customEnumValues {
			cv := []string{"zero", "r3d"}[i]
			if !c06ConcreteEnum {
				cv = verif.StringIn("enum.custom"+string(rune('0'+i)), 3, "a-z0-9")
				verif.Assume(cv != "")
			}
			verif.SetExt(o, http.E_EnumValue, cv)
			w.enumNames[i] = cv
		}
		w.enum.Values = append(w.enum.Values, &protogen.EnumValue{
			Desc:    &verif.EnumValueDesc{VName: n, VNumber: int32(i), VOpts: o},
			GoIdent: protogen.GoIdent{GoName: "Color_" + n, GoImportPath: verif.ImportPath}, Parent: w.enum})
	}
	if customEnumValues {
		verif.Assume(w.enumNames[0] != w.enumNames[1])
	}
	return w
}

var c06ScalarKinds = []protoreflect.Kind{
	protoreflect.BoolKind, protoreflect.Int32Kind, protoreflect.Sint32Kind, protoreflect.Sfixed32Kind, protoreflect.Uint32Kind, protoreflect.Fixed32Kind,
	protoreflect.Int64Kind, protoreflect.Sint64Kind, protoreflect.Sfixed64Kind, protoreflect.Uint64Kind, protoreflect.Fixed64Kind,
	protoreflect.FloatKind, protoreflect.DoubleKind, protoreflect.StringKind, protoreflect.BytesKind, protoreflect.EnumKind, protoreflect.MessageKind,
}

func c06Is64(k protoreflect.Kind) bool {
	switch k {
	case protoreflect.Int64Kind, protoreflect.Sint64Kind, protoreflect.Sfixed64Kind, protoreflect.Uint64Kind, protoreflect.Fixed64Kind:
		return true
	}
	return false
}

func c06Unsigned(k protoreflect.Kind) bool {
	switch k {
	case protoreflect.Uint32Kind, protoreflect.Fixed32Kind, protoreflect.Uint64Kind, protoreflect.Fixed64Kind:
		return true
	}
	return false
}

// c06Elem describes one element type (kind + the annotations that act on elements) and
// yields the wire forms M gives to a value of it.
type c06Elem struct {
	kind        protoreflect.Kind
	isTimestamp bool
	int64Number bool
	enumNumber  bool
	tsFormat    http.TimestampFormat
}

// c06SymElem picks kind and element-level annotations symbolically (only combinations the
// annotation rules accept, Appendix B) and writes the annotations into opts.
func c06SymElem(w *c06World, name string, opts *descriptorpb.FieldOptions, customEnumValues bool) c06Elem {
	var el c06Elem
	el.kind = c06ScalarKinds[verif.Choice(name+".kind", len(c06ScalarKinds))]
	switch {
	case c06Is64(el.kind):
		switch verif.Choice(name+".int64_encoding", 3) {
		case 1:
			verif.SetExt(opts, http.E_Int64Encoding, http.Int64Encoding_INT64_ENCODING_STRING)
		case 2:
			verif.SetExt(opts, http.E_Int64Encoding, http.Int64Encoding_INT64_ENCODING_NUMBER)
			el.int64Number = true
		}
	case el.kind == protoreflect.EnumKind:
		switch verif.Choice(name+".enum_encoding", 3) {
		case 1:
			verif.SetExt(opts, http.E_EnumEncoding, http.EnumEncoding_ENUM_ENCODING_STRING)
		case 2:
			// rule R8: NUMBER together with custom values is refused by the generators
			verif.Assume(!customEnumValues)
			verif.SetExt(opts, http.E_EnumEncoding, http.EnumEncoding_ENUM_ENCODING_NUMBER)
			el.enumNumber = true
		}
	case el.kind == protoreflect.BytesKind:
		if e := verif.Choice(name+".bytes_encoding", 6); e != 0 {
			verif.SetExt(opts, http.E_BytesEncoding, http.BytesEncoding(e))
		}
	case el.kind == protoreflect.MessageKind:
		el.isTimestamp = verif.Bool(name + ".isTimestamp")
		if el.isTimestamp {
			el.tsFormat = http.TimestampFormat(verif.Choice(name+".timestamp_format", 5))
			if el.tsFormat != 0 {
				verif.SetExt(opts, http.E_TimestampFormat, el.tsFormat)
			}
		}
	}
	return el
}

func (el c06Elem) attach(w *c06World, f *protogen.Field, d *verif.FieldDesc) {
	switch {
	case el.kind == protoreflect.EnumKind:
		f.Enum = w.enum
		d.FEnum = w.enum.Desc
	case el.kind == protoreflect.MessageKind && el.isTimestamp:
		f.Message = w.ts
		d.FMsg = w.ts.Desc
	case el.kind == protoreflect.MessageKind:
		f.Message = w.child
		d.FMsg = w.child.Desc
	}
}

func c06ChildValue(w *c06World, name string) *c06V {
	o := c06Object()
	if verif.Bool(name + ".child.street.set") {
		o.set("street", &c06V{cat: c06Str})
	}
	if verif.Bool(name + ".child.zip.set") {
		o.set("zipCode", &c06V{cat: c06Int})
	}
	return o
}

// value: one wire form of a set element; nonFinite reports the "NaN"/"Infinity" strings of
// float kinds, which are reported under their own obligation.
func (el c06Elem) value(w *c06World, name string) (v *c06V, nonFinite bool) {
	k := el.kind
	switch {
	case k == protoreflect.BoolKind:
		return &c06V{cat: c06Bool}, false
	case c06Is64(k):
		if el.int64Number {
			return &c06V{cat: c06Int, nonneg: c06Unsigned(k)}, false
		}
		return &c06V{cat: c06Str}, false
	case k == protoreflect.FloatKind || k == protoreflect.DoubleKind:
		switch verif.Choice(name+".floatForm", 3) {
		case 0:
			return &c06V{cat: c06Num}, false
		case 1:
			return &c06V{cat: c06Int}, false
		}
		return &c06V{cat: c06Str, s: "NaN"}, true
	case k == protoreflect.StringKind || k == protoreflect.BytesKind:
		return &c06V{cat: c06Str}, false
	case k == protoreflect.EnumKind:
		i := verif.Choice(name+".enumValue", 2)
		if el.enumNumber {
			return &c06V{cat: c06Int, s: []string{"0", "1"}[i], nonneg: true}, false
		}
		return &c06V{cat: c06Str, s: w.enumNames[i]}, false
	case k == protoreflect.MessageKind && el.isTimestamp:
		switch el.tsFormat {
		case http.TimestampFormat_TIMESTAMP_FORMAT_UNIX_SECONDS, http.TimestampFormat_TIMESTAMP_FORMAT_UNIX_MILLIS:
			return &c06V{cat: c06Int}, false
		}
		return &c06V{cat: c06Str}, false
	case k == protoreflect.MessageKind:
		return c06ChildValue(w, name), false
	}
	// 32-bit integers
	return &c06V{cat: c06Int, nonneg: c06Unsigned(k)}, false
}

// c06ConcreteNames: harnesses whose oracle parses emitted text keep names concrete.
var c06ConcreteNames, c06ConcreteEnum bool

func c06JSONName(name string) string {
	if c06ConcreteNames {
		return name
	}
	s := verif.StringIn(name+".json", verif.L(3), "a-z")
	verif.Assume(s != "")
	return s
}

