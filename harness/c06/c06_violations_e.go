package binding

import (
	"buf.build/gen/go/bufbuild/protovalidate/protocolbuffers/go/buf/validate"
	"buf.build/go/protovalidate"
	"google.golang.org/protobuf/encoding/protojson"
	"google.golang.org/protobuf/proto"

	verif "verifmod/zzverif"
)

// VerifC06ValidationErrorBody: the 400 body the emitted server builds from a protovalidate
// error satisfies the published ValidationError / FieldViolation schemas: every violation
// object carries the required keys "field" and "description" (proto3 JSON omits empty
// strings, so both must be non-empty), for field-level violations (a path of 1..2 elements)
// and for message-level violations (no field path).
func VerifC06ValidationErrorBody() {
	n := 1 + verif.Choice("violations", 2)
	ve := &protovalidate.ValidationError{}
	for i := 0; i < n; i++ {
		id := string(rune('a' + i))
		// the rule's message: protovalidate always supplies one for its standard rules
		msg := verif.String(id+".message", verif.L(3))
		verif.Assume(msg != "")
		v := &validate.Violation{Message: proto.String(msg)}
		switch verif.Choice(id+".path", 4) {
		case 0: // message-level rule: no field path
		case 1: // a field path object without elements
			v.Field = &validate.FieldPath{}
		case 2:
			f := verif.StringIn(id+".f0", verif.L(3), "a-z_")
			verif.Assume(f != "")
			v.Field = &validate.FieldPath{Elements: []*validate.FieldPathElement{{FieldName: proto.String(f)}}}
		default:
			f, g := verif.StringIn(id+".f0", verif.L(3), "a-z_"), verif.StringIn(id+".f1", verif.L(3), "a-z_")
			verif.Assume(f != "" && g != "")
			v.Field = &validate.FieldPath{Elements: []*validate.FieldPathElement{{FieldName: proto.String(f)}, {FieldName: proto.String(g)}}}
		}
		ve.Violations = append(ve.Violations, &protovalidate.Violation{Proto: v})
	}
	out := convertProtovalidateError(ve)
	verif.Assert("C06/validation-body/one-violation-per-rule-violation", len(out.Violations) == n)
	body, err := protojson.Marshal(out)
	verif.Assert("C06/validation-body/marshals", err == nil)
	arr, ok := verif.JField(body, "violations")
	verif.Assert("C06/validation-body/violations-key-present", ok && verif.JKind(arr) == "arr" && verif.JLen(arr) == n)
	for i := 0; i < n && i < verif.JLen(arr); i++ {
		el := verif.JIndex(arr, i)
		_, hasField := verif.JField(el, "field")
		_, hasDesc := verif.JField(el, "description")
		verif.Assert("C06/validation-body/required-key-field-present", hasField)
		verif.Assert("C06/validation-body/required-key-description-present", hasDesc)
	}
	verif.Reach("C06/validation-body/decided")
}
