package binding

import (
	"net/http"
	"net/url"

	sebufhttp "github.com/SebastienMelki/sebuf/http"
	"google.golang.org/protobuf/encoding/protojson"

	verif "verifmod/zzverif"
)

var c02Verbs = []string{"GET", "POST", "PUT", "DELETE", "PATCH"}

// c02Violation decodes a 400 response into its violations (first field name).
func c02ViolationField(w *verif.Recorder) (string, int) {
	var ve sebufhttp.ValidationError
	if err := protojson.Unmarshal(w.Body, &ve); err != nil {
		return "<undecodable>", -1
	}
	if len(ve.Violations) == 0 {
		return "", 0
	}
	return ve.Violations[0].Field, len(ve.Violations)
}

// VerifC02UpdateReq: PUT/POST/... /items/{item_id}?count=N with a body that does not
// mention the URL-bound fields: the handler sees the URL's values; unconvertible
// values answer 400 naming the field and the handler is not invoked.
func VerifC02UpdateReq() {
	verb := c02Verbs[verif.Choice("verb", len(c02Verbs))]
	r := &http.Request{Method: verb, Header: http.Header{}, URL: &url.URL{Path: "/api/v1/items/x"}}
	r.Header["Content-Type"] = []string{"application/json"}
	itemID := verif.String("path.item_id", verif.L(5))
	r.SetPathValue("item_id", itemID)
	q := url.Values{}
	occ := verif.Choice("count.occurrences", 3)
	c1, c2 := verif.String("count.first", verif.L(11)), verif.String("count.second", verif.L(3))
	switch occ {
	case 1:
		q["count"] = []string{c1}
	case 2:
		q["count"] = []string{c1, c2}
	}
	verif.SetQuery(r, q)
	note := verif.String("body.note", verif.L(4))
	var body []byte
	bodyMentionsOther := false
	switch verif.Choice("body", 4) {
	case 0:
		body = nil
	case 1:
		body = []byte{}
	case 2:
		body = verif.JObj()
	default:
		body = verif.JObj("note", verif.JStr(note))
		bodyMentionsOther = true
	}
	r.Body = verif.Body(body)

	var seen *UpdateReq
	invoked := false
	next := http.HandlerFunc(func(_ http.ResponseWriter, r *http.Request) {
		seen = getRequest[*UpdateReq](r.Context())
		invoked = true
	})
	w := verif.NewRecorder()
	BindingMiddleware[UpdateReq](next, nil, nil, updateItemPathParams, updateItemQueryParams, verb, nil).ServeHTTP(w, r)

	// reference
	countVal, countOK := int64(0), true
	if occ >= 1 {
		v, ok := verif.AtoiRef(c1)
		countOK = verif.And(ok, v >= -2147483648, v <= 2147483647)
		countVal = v
	}
	hasBody := verb == "POST" || verb == "PUT" || verb == "PATCH"
	verif.Show("verb", verb)
	verif.Show("status", w.Status)
	verif.Show("invoked", invoked)
	if itemID == "" {
		// the property's own precondition: path-bound values are non-empty
		verif.Assert("C02/empty-path-value-is-rejected", !invoked && w.Status == 400)
		verif.Reach("C02/empty-path")
		return
	}
	if !countOK {
		verif.Assert("C02/unconvertible-query-value/400", w.Status == 400)
		verif.Assert("C02/unconvertible-query-value/handler-not-invoked", !invoked)
		f, n := c02ViolationField(w)
		verif.Assert("C02/unconvertible-query-value/violation-names-field", n == 1 && f == "count")
		verif.Reach("C02/unconvertible")
		return
	}
	verif.Assert("C02/handler-invoked", invoked && seen != nil)
	verif.Show("seen.item_id", seen.ItemId)
	verif.Show("seen.count", seen.Count)
	verif.Assert("C02/path-value-kept", seen.ItemId == itemID)
	verif.Assert("C02/query-value-kept", int64(seen.Count) == countVal)
	if hasBody && bodyMentionsOther {
		verif.Assert("C02/body-field-kept", seen.Note == note)
	}
	verif.Reach("C02/delivered")
}

var c02Fields = []string{"count", "big", "flag", "u32", "u64", "ratio", "f32", "tag", "limit"}

// VerifC02Kinds: GET /items/{item_id}?<param>=<value>: every scalar kind carried in
// the query string converts per its type, repeated occurrences are kept for
// repeated fields, required parameters must be present.
func VerifC02Kinds() {
	field := c02Fields[verif.Choice("field", len(c02Fields))]
	verbs := []string{"GET", "POST"}
	if verif.Thorough() {
		verbs = c02Verbs
	}
	verb := verbs[verif.Choice("verb", len(verbs))]
	r := &http.Request{Method: verb, Header: http.Header{}, URL: &url.URL{Path: "/api/v1/items/x"}}
	r.SetPathValue("item_id", "abc")
	q := url.Values{}
	hasBig := true
	if field == "big" {
		hasBig = verif.Bool("big.present")
	}
	// numeric parameters: digits, signs, dot, exponent letter, a blank and a foreign letter
	var v1 string
	switch field {
	case "count", "limit", "u32":
		v1 = verif.StringIn("value", verif.L(11), "0-9+-.e x")
	case "big", "u64", "ratio", "f32":
		v1 = verif.StringIn("value", verif.L(6), "0-9+-.e x")
	case "flag":
		v1 = verif.StringIn("value", verif.L(5), "a-zA-Z01")
	default:
		v1 = verif.String("value", verif.L(4))
	}
	v2 := verif.String("second", verif.L(2))
	two := false
	if field == "tag" || field == "count" {
		two = verif.Bool("twoOccurrences")
	}
	if field == "big" {
		if hasBig {
			q["big"] = []string{v1}
		}
	} else {
		if hasBig {
			q["big"] = []string{"7"}
		}
		if two {
			q[field] = []string{v1, v2}
		} else {
			q[field] = []string{v1}
		}
	}
	verif.SetQuery(r, q)
	r.Body = verif.Body(nil)
	var seen *ItemReq
	invoked := false
	next := http.HandlerFunc(func(_ http.ResponseWriter, r *http.Request) {
		seen = getRequest[*ItemReq](r.Context())
		invoked = true
	})
	w := verif.NewRecorder()
	BindingMiddleware[ItemReq](next, nil, nil, getItemPathParams, getItemQueryParams, verb, nil).ServeHTTP(w, r)
	verif.Show("field", field)
	verif.Show("status", w.Status)
	verif.Show("invoked", invoked)

	if !hasBig {
		verif.Assert("C02/kinds/missing-required/400-not-invoked", w.Status == 400 && !invoked)
		f, n := c02ViolationField(w)
		// a malformed value of an earlier parameter may be reported instead
		verif.Assert("C02/kinds/missing-required/names-a-field", n == 1 && (f == "big" || f == field || field == "tag"))
		verif.Reach("C02/kinds/missing-required")
		return
	}
	iv, iok := verif.AtoiRef(v1)
	accept, known := true, true
	switch field {
	case "count", "limit":
		accept = verif.And(iok, iv >= -2147483648, iv <= 2147483647)
	case "big":
		accept = iok
	case "u32":
		accept = verif.And(iok, iv >= 0, iv <= 4294967295, !verif.Matches(v1, `[+-].*`))
	case "u64":
		if verif.Matches(v1, `[0-9]{1,11}`) {
			accept = true
		} else {
			accept = false
			known = !verif.Matches(v1, `[0-9]+`)
		}
	case "flag":
		if v1 == "true" || v1 == "false" {
			accept = true
		} else {
			accept = false
			known = !verif.Matches(v1, `1|0|t|f|T|F|TRUE|FALSE|True|False`)
		}
	case "ratio", "f32":
		if verif.Matches(v1, `[+-]?[0-9]{1,6}(\.[0-9]{1,4})?`) {
			accept = true
		} else {
			accept = false
			known = !verif.Matches(v1, `[-+0-9a-zA-Z._]+`)
		}
	case "tag":
		accept = true
	}
	if !known {
		verif.Reach("C02/kinds/undecided-by-reference")
		return
	}
	if !accept {
		verif.Assert("C02/kinds/unconvertible/400-not-invoked", w.Status == 400 && !invoked)
		f, n := c02ViolationField(w)
		want := field
		if field == "tag" {
			want = "tags"
		}
		verif.Assert("C02/kinds/unconvertible/violation-names-field", n == 1 && f == want)
		verif.Reach("C02/kinds/unconvertible")
		return
	}
	verif.Assert("C02/kinds/handler-invoked", invoked && seen != nil && w.Status == 0)
	verif.Assert("C02/kinds/path-kept", seen.ItemId == "abc")
	switch field {
	case "count":
		verif.Assert("C02/kinds/int32-value", int64(seen.Count) == iv)
	case "limit":
		verif.Assert("C02/kinds/optional-int32-value", seen.Limit != nil && int64(*seen.Limit) == iv)
	case "big":
		verif.Assert("C02/kinds/int64-value", seen.Big == iv)
	case "u32":
		verif.Assert("C02/kinds/uint32-value", int64(seen.U32) == iv)
	case "u64":
		verif.Assert("C02/kinds/uint64-value", int64(seen.U64) == iv)
	case "flag":
		verif.Assert("C02/kinds/bool-value", seen.Flag == (v1 == "true"))
	case "tag":
		if two {
			verif.Assert("C02/kinds/repeated-values", len(seen.Tags) == 2 && seen.Tags[0] == v1 && seen.Tags[1] == v2)
		} else {
			verif.Assert("C02/kinds/repeated-values", len(seen.Tags) == 1 && seen.Tags[0] == v1)
		}
	}
	if field != "big" {
		verif.Assert("C02/kinds/other-required-kept", seen.Big == 7)
	}
	verif.Reach("C02/kinds/delivered")
}
