package httpgen

import (
	"strings"

	"google.golang.org/protobuf/compiler/protogen"
	"google.golang.org/protobuf/reflect/protoreflect"
	"google.golang.org/protobuf/types/descriptorpb"

	"github.com/SebastienMelki/sebuf/http"
	"github.com/SebastienMelki/sebuf/internal/clientgen"
	verif "github.com/SebastienMelki/sebuf/internal/zzverif"
)

// c14Name returns an arbitrary proto field name and an arbitrary (independent) JSON
// name: json_name may be set explicitly, so the two are unrelated in general.
var c14Concrete bool // scanners over the trace want concrete text

func c14Name(id string) (string, string) {
	if c14Concrete {
		return "f_" + strings.ReplaceAll(id, ".", "_"), "j" + strings.ReplaceAll(id, ".", "")
	}
	return verif.Seg(id+".name", 3), verif.Seg(id+".json", 3)
}

func c14Opts(set func(o *descriptorpb.FieldOptions)) *descriptorpb.FieldOptions {
	o := &descriptorpb.FieldOptions{}
	if set != nil {
		set(o)
	}
	return o
}

// c14File builds one file holding a message per codec feature, with symbolic field names.
func c14File(feature int, withService bool) (*protogen.File, string) {
	w := c12NewWorld()
	file := verif.NewFile("acme/v1/codec.proto", "acme.v1", "acmev1", "acme/v1/codec")
	m := verif.NewMessage("acme.v1", "M")
	suffix := ""
	switch feature {
	case 0: // int64_encoding = NUMBER (singular and repeated)
		n1, j1 := c14Name("f1")
		n2, j2 := c14Name("f2")
		verif.Assume(n1 != n2 && j1 != j2)
		num := c14Opts(func(o *descriptorpb.FieldOptions) { verif.SetExt(o, http.E_Int64Encoding, http.Int64Encoding_INT64_ENCODING_NUMBER) })
		num2 := c14Opts(func(o *descriptorpb.FieldOptions) { verif.SetExt(o, http.E_Int64Encoding, http.Int64Encoding_INT64_ENCODING_NUMBER) })
		verif.AddField(m, &verif.FieldDesc{FName: n1, FJSON: j1, FKind: protoreflect.Int64Kind, FNumber: 1, FOpts: num}, "F1")
		verif.AddField(m, &verif.FieldDesc{FName: n2, FJSON: j2, FKind: protoreflect.Uint64Kind, FList: true, FNumber: 2, FOpts: num2}, "F2")
		suffix = "_encoding.pb.go"
	case 1: // enum with partially annotated custom values
		custom := "red"
		if !c14Concrete {
			custom = verif.Seg("enum.custom", 3)
		}
		verif.SetExt(w.enum.Values[1].Desc.Options().(*descriptorpb.EnumValueOptions), http.E_EnumValue, custom)
		n1, j1 := c14Name("f1")
		f := verif.AddField(m, &verif.FieldDesc{FName: n1, FJSON: j1, FKind: protoreflect.EnumKind, FNumber: 1, FOpts: c14Opts(nil), FEnum: w.enum.Desc}, "F1")
		f.Enum = w.enum
		file.Enums = []*protogen.Enum{w.enum}
		suffix = "_enum_encoding.pb.go"
	case 2: // nullable
		n1, j1 := c14Name("f1")
		d := &verif.FieldDesc{FName: n1, FJSON: j1, FKind: protoreflect.StringKind, FOptional: true, FNumber: 1,
			FOpts: c14Opts(func(o *descriptorpb.FieldOptions) { verif.SetExt(o, http.E_Nullable, true) })}
		f := verif.AddField(m, d, "F1")
		f.Oneof = &protogen.Oneof{Desc: &verif.OneofDesc{OName: "_" + n1, OSynthetic: true, OOpts: &descriptorpb.OneofOptions{}}, GoName: "X_F1", Parent: m, Fields: []*protogen.Field{f}}
		d.FOneof = f.Oneof.Desc
		suffix = "_nullable.pb.go"
	case 3: // empty_behavior
		n1, j1 := c14Name("f1")
		eb := http.EmptyBehavior(1 + verif.Choice("emptyBehavior", 3))
		f := verif.AddField(m, &verif.FieldDesc{FName: n1, FJSON: j1, FKind: protoreflect.MessageKind, FNumber: 1, FMsg: w.child.Desc,
			FOpts: c14Opts(func(o *descriptorpb.FieldOptions) { verif.SetExt(o, http.E_EmptyBehavior, eb) })}, "F1")
		f.Message = w.child
		if verif.Bool("emptyBehavior.second") {
			// a second annotated field with its own behaviour (the codec's shape may depend
			// on the combination, not on one field)
			eb2 := http.EmptyBehavior(1 + verif.Choice("emptyBehavior2", 3))
			f2 := verif.AddField(m, &verif.FieldDesc{FName: "second_child", FJSON: "secondChild", FKind: protoreflect.MessageKind, FNumber: 2, FMsg: w.child.Desc,
				FOpts: c14Opts(func(o *descriptorpb.FieldOptions) { verif.SetExt(o, http.E_EmptyBehavior, eb2) })}, "SecondChild")
			f2.Message = w.child
		}
		suffix = "_empty_behavior.pb.go"
	case 4: // timestamp_format
		n1, j1 := c14Name("f1")
		tf := http.TimestampFormat(2 + verif.Choice("timestampFormat", 3))
		f := verif.AddField(m, &verif.FieldDesc{FName: n1, FJSON: j1, FKind: protoreflect.MessageKind, FNumber: 1, FMsg: w.ts.Desc,
			FOpts: c14Opts(func(o *descriptorpb.FieldOptions) { verif.SetExt(o, http.E_TimestampFormat, tf) })}, "F1")
		f.Message = w.ts
		suffix = "_timestamp_format.pb.go"
	case 5: // bytes_encoding
		n1, j1 := c14Name("f1")
		be := http.BytesEncoding(2 + verif.Choice("bytesEncoding", 4))
		verif.AddField(m, &verif.FieldDesc{FName: n1, FJSON: j1, FKind: protoreflect.BytesKind, FNumber: 1,
			FOpts: c14Opts(func(o *descriptorpb.FieldOptions) { verif.SetExt(o, http.E_BytesEncoding, be) })}, "F1")
		suffix = "_bytes_encoding.pb.go"
	case 6: // flatten with prefix
		n1, j1 := c14Name("f1")
		prefix := "p_"
		if !c14Concrete {
			prefix = verif.StringIn("prefix", verif.L(2), "a-z_")
		}
		f := verif.AddField(m, &verif.FieldDesc{FName: n1, FJSON: j1, FKind: protoreflect.MessageKind, FNumber: 1, FMsg: w.child.Desc,
			FOpts: c14Opts(func(o *descriptorpb.FieldOptions) {
				verif.SetExt(o, http.E_Flatten, true)
				if prefix != "" {
					verif.SetExt(o, http.E_FlattenPrefix, prefix)
				}
			})}, "F1")
		f.Message = w.child
		verif.Assume(prefix+"street" != "id" && prefix+"zipCode" != "id")
		verif.AddField(m, &verif.FieldDesc{FName: "id", FJSON: "id", FKind: protoreflect.StringKind, FNumber: 2, FOpts: c14Opts(nil)}, "Id")
		suffix = "_flatten.pb.go"
	case 8: // root unwrap (list)
		n1, j1 := c14Name("f1")
		verif.AddField(m, &verif.FieldDesc{FName: n1, FJSON: j1, FKind: protoreflect.StringKind, FList: true, FNumber: 1,
			FOpts: c14Opts(func(o *descriptorpb.FieldOptions) { verif.SetExt(o, http.E_Unwrap, true) })}, "F1")
		suffix = "_unwrap.pb.go"
	default: // discriminated oneof, flattened or not
		n1, j1 := c14Name("v1")
		n2, j2 := c14Name("v2")
		verif.Assume(n1 != n2 && j1 != j2)
		disc := "kind"
		if !c14Concrete {
			disc = verif.Seg("discriminator", 3)
		}
		flatten := verif.Bool("oneof.flatten")
		oo := &protogen.Oneof{Desc: &verif.OneofDesc{OName: "content", OOpts: &descriptorpb.OneofOptions{}}, GoName: "Content", Parent: m}
		verif.SetExt(oo.Desc.Options().(*descriptorpb.OneofOptions), http.E_OneofConfig, &http.OneofConfig{Discriminator: disc, Flatten: flatten})
		text := verif.NewMessage("acme.v1", "Text")
		verif.AddField(text, &verif.FieldDesc{FName: "body", FJSON: "body", FKind: protoreflect.StringKind, FNumber: 1, FOpts: c14Opts(nil)}, "Body")
		image := verif.NewMessage("acme.v1", "Image")
		verif.AddField(image, &verif.FieldDesc{FName: "url", FJSON: "url", FKind: protoreflect.StringKind, FNumber: 1, FOpts: c14Opts(nil)}, "Url")
		customVal := "txt"
		if !c14Concrete {
			customVal = verif.StringIn("v1.oneofValue", verif.L(3), "a-z")
		}
		v1 := verif.AddField(m, &verif.FieldDesc{FName: n1, FJSON: j1, FKind: protoreflect.MessageKind, FNumber: 1, FMsg: text.Desc, FOneof: oo.Desc,
			FOpts: c14Opts(func(o *descriptorpb.FieldOptions) {
				if customVal != "" {
					verif.SetExt(o, http.E_OneofValue, customVal)
				}
			})}, "V1")
		v1.Message, v1.Oneof = text, oo
		v2 := verif.AddField(m, &verif.FieldDesc{FName: n2, FJSON: j2, FKind: protoreflect.MessageKind, FNumber: 2, FMsg: image.Desc, FOneof: oo.Desc, FOpts: c14Opts(nil)}, "V2")
		v2.Message, v2.Oneof = image, oo
		oo.Fields = []*protogen.Field{v1, v2}
		m.Oneofs = []*protogen.Oneof{oo}
		verif.Assume(disc != "body" && disc != "url" && disc != "id")
		file.Messages = append(file.Messages, text, image)
		suffix = "_oneof_discriminator.pb.go"
	}
	if verif.Bool("annotatedMessageIsNested") {
		// the annotated message is declared inside a message that carries no annotation itself
		outer := verif.NewMessage("acme.v1", "Outer")
		verif.AddField(outer, &verif.FieldDesc{FName: "label", FJSON: "label", FKind: protoreflect.StringKind, FNumber: 1, FOpts: c14Opts(nil)}, "Label")
		outer.Messages = []*protogen.Message{m}
		file.Messages = append(file.Messages, outer, w.child)
		verif.Reach("C14/nested")
	} else {
		file.Messages = append(file.Messages, m, w.child)
	}
	if withService {
		req := verif.NewMessage("acme.v1", "PingRequest")
		verif.AddField(req, &verif.FieldDesc{FName: "id", FJSON: "id", FKind: protoreflect.StringKind, FNumber: 1, FOpts: c14Opts(nil)}, "Id")
		svc := verif.NewService("acme.v1", "PingService", &descriptorpb.ServiceOptions{})
		mo := &descriptorpb.MethodOptions{}
		verif.SetExt(mo, http.E_Config, &http.HttpConfig{Path: "/ping", Method: http.HttpMethod_HTTP_METHOD_POST})
		verif.NewMethod(svc, "Ping", "Ping", req, m, mo)
		file.Services = []*protogen.Service{svc}
		file.Messages = append(file.Messages, req)
	}
	return file, suffix
}

func c14Find(files []verif.TraceFile, suffix string) *verif.TraceFile {
	for i := range files {
		if strings.HasSuffix(files[i].Name, suffix) {
			return &files[i]
		}
	}
	return nil
}

// VerifC14CodecFiles: for every codec feature, the file go-http emits and the file
// go-client emits under the same name are identical apart from the header comment.
func VerifC14CodecFiles() {
	feature := verif.Choice("feature", 9)
	withService := verif.Bool("fileHasService")
	file, suffix := c14File(feature, withService)
	ps, pc := &protogen.Plugin{Files: []*protogen.File{file}}, &protogen.Plugin{Files: []*protogen.File{file}}
	errS := New(ps).Generate()
	errC := clientgen.VerifGenerateWith(pc)
	verif.Assert("C14/both-accept", errS == nil && errC == nil)
	fs, fc := c14Find(verif.Trace(ps), suffix), c14Find(verif.Trace(pc), suffix)
	verif.Assert("C14/server-emits-codec-file", fs != nil)
	if !withService && (feature == 0 || feature == 1) {
		verif.Reach("C14/no-service") // region of the defect repaired in b1a8671
	}
	if feature == 8 {
		// known finding: the client plugin has no unwrap emitter at all
		verif.Expect("KF-C14-client-has-no-unwrap-emitter", fc != nil)
		verif.Reach("C14/kf-unwrap")
		return
	}
	verif.Assert("C14/client-emits-codec-file", fc != nil)
	verif.Assert("C14/same-length", len(fs.Lines) == len(fc.Lines))
	same := true
	for i := 1; i < len(fs.Lines) && i < len(fc.Lines); i++ {
		same = verif.And(same, fs.Lines[i] == fc.Lines[i])
	}
	verif.Assert("C14/identical-apart-from-header", same)
	verif.Reach("C14/compared")
}
