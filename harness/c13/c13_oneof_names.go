package httpgen

import (
	"strings"

	"google.golang.org/protobuf/compiler/protogen"
	"google.golang.org/protobuf/reflect/protoreflect"
	"google.golang.org/protobuf/types/descriptorpb"

	"github.com/SebastienMelki/sebuf/http"
	"github.com/SebastienMelki/sebuf/internal/clientgen"
	verif "github.com/SebastienMelki/sebuf/internal/zzverif"
)

// VerifC13OneofWrapperNames: the oneof codecs name the Go wrapper struct of every variant by
// the identifier protoc-gen-go gave it (Field.GoIdent) — which differs from
// <Parent>_<Field> when that name collides with a nested message or enum (protoc-gen-go then
// appends "_") — so that "case *X:" and "&X{" refer to types that exist and implement the
// oneof interface. Both Go generators, nested and flattened oneofs.
func VerifC13OneofWrapperNames() {
	parent := verif.NewMessage("acme.v1", "Event")
	text := verif.NewMessage("acme.v1", "Text")
	verif.AddField(text, &verif.FieldDesc{FName: "body", FJSON: "body", FKind: protoreflect.StringKind, FNumber: 1, FOpts: &descriptorpb.FieldOptions{}}, "Body")
	clash := verif.Bool("variantNameClashesWithNestedMessage")
	if clash {
		// message Event { message Text {...} oneof content { Text text = 2; } }
		text = &protogen.Message{Desc: &verif.MessageDesc{MName: "Text", MFullName: "acme.v1.Event.Text", MOpts: &descriptorpb.MessageOptions{}},
			GoIdent: protogen.GoIdent{GoName: "Event_Text", GoImportPath: verif.ImportPath}, Fields: text.Fields}
		parent.Messages = []*protogen.Message{text}
	}
	verif.AddField(parent, &verif.FieldDesc{FName: "id", FJSON: "id", FKind: protoreflect.StringKind, FNumber: 1, FOpts: &descriptorpb.FieldOptions{}}, "Id")
	oo := &descriptorpb.OneofOptions{}
	verif.SetExt(oo, http.E_OneofConfig, &http.OneofConfig{Discriminator: "kind", Flatten: verif.Bool("flatten")})
	od := &verif.OneofDesc{OName: "content", OFullName: "acme.v1.Event.content", OOpts: oo}
	oneof := &protogen.Oneof{Desc: od, GoName: "Content", Parent: parent, GoIdent: protogen.GoIdent{GoName: "isEvent_Content", GoImportPath: verif.ImportPath}}
	parent.Oneofs = []*protogen.Oneof{oneof}
	wrappers := map[string]bool{}
	add := func(name, goName string, num int32, wrapper string) {
		d := &verif.FieldDesc{FName: name, FJSON: name, FKind: protoreflect.MessageKind, FNumber: num, FMsg: text.Desc, FOneof: od, FOpts: &descriptorpb.FieldOptions{}}
		f := verif.AddField(parent, d, goName)
		f.Message = text
		f.Oneof = oneof
		f.GoIdent = protogen.GoIdent{GoName: wrapper, GoImportPath: verif.ImportPath}
		oneof.Fields = append(oneof.Fields, f)
		wrappers[wrapper] = true
	}
	if clash {
		add("text", "Text", 2, "Event_Text_") // protoc-gen-go's conflict rule
	} else {
		add("text", "Text", 2, "Event_Text")
	}
	add("note", "Note", 3, "Event_Note")
	var files []*protogen.File
	imported := false
	if clash {
		files, imported = c12Place(parent)
	} else {
		files, imported = c12Place(parent, text)
	}
	ps, pc := &protogen.Plugin{Files: files}, &protogen.Plugin{Files: files}
	verif.Assert("C13/oneof-names/server-accepts", New(ps).Generate() == nil)
	verif.Assert("C13/oneof-names/client-accepts", clientgen.VerifGenerateWith(pc) == nil)
	seen := 0
	for _, t := range append(verif.Trace(ps), verif.Trace(pc)...) {
		if !strings.HasSuffix(t.Name, "_oneof_discriminator.pb.go") {
			continue
		}
		for _, l := range t.Lines {
			// type switch cases over the oneof field, and assignments to it
			for _, pfx := range []string{"case *", "x.Content = &"} {
				t := strings.TrimSpace(l)
				if !strings.HasPrefix(t, pfx) {
					continue
				}
				name := t[len(pfx):]
				if j := strings.IndexAny(name, ":{ ),"); j >= 0 {
					name = name[:j]
				}
				seen++
				verif.Show("typeName", name)
				verif.Assert("C13/oneof-names/wrapper-type-is-the-protoc-gen-go-identifier", wrappers[name])
			}
		}
	}
	verif.Assert("C13/oneof-names/codec-mentions-wrappers", imported || seen > 0)
	verif.Reach("C13/oneof-names/decided")
}
