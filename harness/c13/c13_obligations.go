package httpgen

import (
	"strings"

	"google.golang.org/protobuf/compiler/protogen"
	"google.golang.org/protobuf/reflect/protoreflect"
	"google.golang.org/protobuf/types/descriptorpb"

	"github.com/SebastienMelki/sebuf/http"
	"github.com/SebastienMelki/sebuf/internal/clientgen"
	"github.com/SebastienMelki/sebuf/internal/tsservergen"
	verif "github.com/SebastienMelki/sebuf/internal/zzverif"
)

func c13IsWordByte(c byte) bool {
	return c == '_' || (c >= 'a' && c <= 'z') || (c >= 'A' && c <= 'Z') || (c >= '0' && c <= '9')
}

// c13HasWord reports whether ident occurs in line as a whole word.
func c13HasWord(line, ident string) bool {
	for i := 0; i+len(ident) <= len(line); i++ {
		if line[i:i+len(ident)] != ident {
			continue
		}
		if i > 0 && c13IsWordByte(line[i-1]) {
			continue
		}
		if i+len(ident) < len(line) && c13IsWordByte(line[i+len(ident)]) {
			continue
		}
		return true
	}
	return false
}

// c13Idents extracts the identifiers a line declares with ":=" (plain and if-init forms).
func c13Idents(line string) []string {
	l := strings.TrimSpace(line)
	l = strings.TrimPrefix(l, "if ")
	i := strings.Index(l, " := ")
	if i <= 0 {
		return nil
	}
	var out []string
	for _, p := range strings.Split(l[:i], ",") {
		p = strings.TrimSpace(p)
		ok := p != "" && p != "_"
		for k := 0; k < len(p); k++ {
			if !c13IsWordByte(p[k]) {
				ok = false
			}
		}
		if ok {
			out = append(out, p)
		}
	}
	return out
}

// c13UnusedLocal returns a local declared with := that never occurs again before the
// next top-level func (the compiler's "declared and not used").
func c13UnusedLocal(lines []string) string {
	for i, line := range lines {
		for _, id := range c13Idents(line) {
			used := false
			// the rest of the declaring line after ":=" counts for if-init forms (`; ok {`)
			if k := strings.Index(line, " := "); k >= 0 && strings.Contains(line[k:], ";") && c13HasWord(line[k+4+strings.Index(line[k+4:], ";"):], id) {
				used = true
			}
			for j := i + 1; j < len(lines) && !used; j++ {
				if strings.HasPrefix(lines[j], "func ") {
					break
				}
				if c13HasWord(lines[j], id) {
					used = true
				}
			}
			if !used {
				return id + " in: " + line
			}
		}
	}
	return ""
}

// c13ImportProblem: an import that is never used, or a well-known package used without import.
func c13ImportProblem(lines []string) string {
	in := false
	var names []string
	end := 0
	for i, l := range lines {
		t := strings.TrimSpace(l)
		if t == "import (" {
			in = true
			continue
		}
		if in && t == ")" {
			end = i
			break
		}
		if in && t != "" {
			q := strings.Index(t, `"`)
			path := strings.Trim(t[q:], `"`)
			name := path[strings.LastIndex(path, "/")+1:]
			if q > 0 {
				name = strings.TrimSpace(t[:q])
			}
			if name != "_" {
				names = append(names, name)
			}
		}
	}
	for _, n := range names {
		used := false
		for _, l := range lines[end:] {
			if strings.Contains(l, n+".") {
				used = true
				break
			}
		}
		if !used {
			return "unused import " + n
		}
	}
	for _, pkg := range []string{"url", "bytes", "strings", "strconv", "json", "fmt", "time", "base64", "hex", "errors"} {
		imported := false
		for _, n := range names {
			if n == pkg {
				imported = true
			}
		}
		if imported {
			continue
		}
		for _, l := range lines[end:] {
			if c13HasWord(l, pkg) && strings.Contains(l, pkg+".") && !strings.HasPrefix(strings.TrimSpace(l), "//") {
				return "package " + pkg + " used but not imported: " + l
			}
		}
	}
	return ""
}

// VerifC13ClientImports: the imports of the emitted Go client match what it uses, for
// every verb x path-variable x query-annotation combination of a two-method service.
func VerifC13ClientImports() {
	mk := func(id string) (*protogen.Message, *descriptorpb.MethodOptions) {
		req := verif.NewMessage("acme.v1", "Req"+id)
		fo := &descriptorpb.FieldOptions{}
		hasQuery := verif.Bool(id + ".queryField")
		if hasQuery {
			verif.SetExt(fo, http.E_Query, &http.QueryConfig{Name: "q"})
		}
		verif.AddField(req, &verif.FieldDesc{FName: "name", FJSON: "name", FKind: protoreflect.StringKind, FNumber: 1, FOpts: fo}, "Name")
		mo := &descriptorpb.MethodOptions{}
		verb := http.HttpMethod(verif.Choice(id+".verb", 6))
		path := "/things"
		pathVar := verif.Bool(id + ".pathVar")
		if pathVar {
			path = "/things/{name}"
		}
		bodiless := verb == http.HttpMethod_HTTP_METHOD_GET || verb == http.HttpMethod_HTTP_METHOD_DELETE
		verif.Assume(!(pathVar && hasQuery))            // rejected by validation
		verif.Assume(!bodiless || pathVar || hasQuery) // rejected by validation
		verif.SetExt(mo, http.E_Config, &http.HttpConfig{Path: path, Method: verb})
		return req, mo
	}
	svc := verif.NewService("acme.v1", "ThingService", &descriptorpb.ServiceOptions{})
	resp := verif.NewMessage("acme.v1", "Resp")
	r1, o1 := mk("m1")
	verif.NewMethod(svc, "First", "First", r1, resp, o1)
	file := verif.NewFile("acme/v1/thing.proto", "acme.v1", "acmev1", "acme/v1/thing")
	file.Messages = []*protogen.Message{r1, resp}
	if verif.Bool("twoMethods") {
		r2, o2 := mk("m2")
		verif.NewMethod(svc, "Second", "Second", r2, resp, o2)
		file.Messages = append(file.Messages, r2)
	}
	file.Services = []*protogen.Service{svc}
	p := &protogen.Plugin{Files: []*protogen.File{file}}
	verif.Assert("C13/client/accepted", clientgen.VerifGenerateWith(p) == nil)
	f := c14Find(verif.Trace(p), "_client.pb.go")
	verif.Assert("C13/client/file-emitted", f != nil)
	problem := c13ImportProblem(f.Lines)
	verif.Show("problem", problem)
	verif.Assert("C13/client/imports-match-uses", problem == "")
	verif.Assert("C13/client/no-unused-local", c13UnusedLocal(f.Lines) == "")
	ps := &protogen.Plugin{Files: []*protogen.File{file}}
	verif.Assert("C13/server/accepted", New(ps).Generate() == nil)
	for _, t := range verif.Trace(ps) {
		verif.Assert("C13/server/imports-match-uses", c13ImportProblem(t.Lines) == "")
	}
	verif.Reach("C13/client-imports/decided")
}

// VerifC13CodecLocals: every codec file both Go generators emit declares no unused
// local and no unused import, for each codec feature and annotation value
// (including the explicit default values).
func VerifC13CodecLocals() {
	w := c12NewWorld()
	m := verif.NewMessage("acme.v1", "M")
	feature := verif.Choice("feature", 6)
	o := &descriptorpb.FieldOptions{}
	d := &verif.FieldDesc{FName: "f1", FJSON: "f1", FNumber: 1, FOpts: o}
	f := verif.AddField(m, d, "F1")
	var extra []*protogen.Message
	switch feature {
	case 4:
		// root unwrap: a single repeated field (scalar or message elements)
		d.FList = true
		verif.SetExt(o, http.E_Unwrap, true)
		if verif.Bool("unwrap.messageElements") {
			d.FKind, d.FMsg = protoreflect.MessageKind, w.child.Desc
			f.Message = w.child
		} else {
			d.FKind = protoreflect.StringKind
		}
	case 5:
		// map<string, Wrapper> whose value type has an unwrap list of scalars, next to a scalar field
		wrapper := verif.NewMessage("acme.v1", "Wrapper")
		wo := &descriptorpb.FieldOptions{}
		verif.SetExt(wo, http.E_Unwrap, true)
		verif.AddField(wrapper, &verif.FieldDesc{FName: "items", FJSON: "items", FKind: protoreflect.StringKind, FList: true, FNumber: 1, FOpts: wo}, "Items")
		entry := &protogen.Message{Desc: &verif.MessageDesc{MName: "F1Entry", MFullName: "acme.v1.M.F1Entry", MMapEntry: true},
			GoIdent: protogen.GoIdent{GoName: "M_F1Entry", GoImportPath: verif.ImportPath}}
		verif.AddField(entry, &verif.FieldDesc{FName: "key", FJSON: "key", FKind: protoreflect.StringKind, FNumber: 1}, "Key")
		vf := verif.AddField(entry, &verif.FieldDesc{FName: "value", FJSON: "value", FKind: protoreflect.MessageKind, FNumber: 2, FMsg: wrapper.Desc}, "Value")
		vf.Message = wrapper
		d.FKind, d.FMap, d.FMsg = protoreflect.MessageKind, true, entry.Desc
		f.Message = entry
		verif.AddField(m, &verif.FieldDesc{FName: "note", FJSON: "note", FKind: protoreflect.StringKind, FNumber: 2, FOpts: &descriptorpb.FieldOptions{}}, "Note")
		extra = append(extra, wrapper)
	case 0:
		d.FKind, d.FMsg = protoreflect.MessageKind, w.ts.Desc
		f.Message = w.ts
		verif.SetExt(o, http.E_TimestampFormat, http.TimestampFormat(verif.Choice("timestampFormat", 5)))
	case 1:
		d.FKind = protoreflect.BytesKind
		verif.SetExt(o, http.E_BytesEncoding, http.BytesEncoding(verif.Choice("bytesEncoding", 6)))
	case 2:
		d.FKind, d.FMsg = protoreflect.MessageKind, w.child.Desc
		f.Message = w.child
		verif.SetExt(o, http.E_EmptyBehavior, http.EmptyBehavior(verif.Choice("emptyBehavior", 4)))
	default:
		d.FKind = []protoreflect.Kind{protoreflect.Int64Kind, protoreflect.Uint64Kind, protoreflect.Sint64Kind, protoreflect.Fixed64Kind}[verif.Choice("kind64", 4)]
		d.FList = verif.Bool("repeated")
		verif.SetExt(o, http.E_Int64Encoding, http.Int64Encoding(verif.Choice("int64Encoding", 3)))
	}
	files, _ := c12Place(m, append([]*protogen.Message{w.child}, extra...)...)
	ps, pc := &protogen.Plugin{Files: files}, &protogen.Plugin{Files: files}
	verif.Assert("C13/codec/server-accepts", New(ps).Generate() == nil)
	verif.Assert("C13/codec/client-accepts", clientgen.VerifGenerateWith(pc) == nil)
	for _, t := range append(verif.Trace(ps), verif.Trace(pc)...) {
		if !strings.HasSuffix(t.Name, ".go") {
			continue
		}
		verif.Show("file", t.Name)
		u := c13UnusedLocal(t.Lines)
		verif.Show("unused", u)
		verif.Assert("C13/codec/no-unused-local", u == "")
		verif.Assert("C13/codec/imports-match-uses", c13ImportProblem(t.Lines) == "")
	}
	verif.Reach("C13/codec-locals/decided")
}

// VerifC13TSRouteConsts: within one emitted TS route handler no const is declared twice.
func VerifC13TSRouteConsts() {
	req := verif.NewMessage("acme.v1", "Req")
	o1, o2 := &descriptorpb.FieldOptions{}, &descriptorpb.FieldOptions{}
	pathVar, hasQuery := verif.Bool("pathVar"), verif.Bool("queryField")
	if hasQuery {
		verif.SetExt(o2, http.E_Query, &http.QueryConfig{Name: "q"})
	}
	if pathVar || verif.Bool("unboundIdField") {
		verif.AddField(req, &verif.FieldDesc{FName: "id", FJSON: "id", FKind: protoreflect.StringKind, FNumber: 1, FOpts: o1}, "Id")
	}
	verif.AddField(req, &verif.FieldDesc{FName: "q", FJSON: "q", FKind: protoreflect.StringKind, FNumber: 2, FOpts: o2}, "Q")
	verb := http.HttpMethod(verif.Choice("verb", 6))
	path := "/things"
	if pathVar {
		path = "/things/{id}"
	}
	mo := &descriptorpb.MethodOptions{}
	verif.SetExt(mo, http.E_Config, &http.HttpConfig{Path: path, Method: verb})
	// service base path: none, plain, or with a variable of its own
	so := &descriptorpb.ServiceOptions{}
	switch verif.Choice("basePath", 3) {
	case 1:
		verif.SetExt(so, http.E_ServiceConfig, &http.ServiceConfig{BasePath: "/api/v1"})
	case 2:
		verif.SetExt(so, http.E_ServiceConfig, &http.ServiceConfig{BasePath: "/orgs/{org_id}"})
		if verif.Bool("basePathVariableIsAField") {
			verif.AddField(req, &verif.FieldDesc{FName: "org_id", FJSON: "orgId", FKind: protoreflect.StringKind, FNumber: 3, FOpts: &descriptorpb.FieldOptions{}}, "OrgId")
		}
	}
	svc := verif.NewService("acme.v1", "ThingService", so)
	m := verif.NewMethod(svc, "Get", "Get", req, verif.NewMessage("acme.v1", "Resp"), mo)
	lines, err := tsservergen.VerifRouteLines(svc, m)
	if err != nil {
		verif.Reach("C13/ts/refused")
		return
	}
	dup := ""
	for i, l := range lines {
		t := strings.TrimSpace(l)
		if !strings.HasPrefix(t, "const ") {
			continue
		}
		name := t[6:]
		if k := strings.IndexAny(name, " :="); k > 0 {
			name = name[:k]
		}
		for _, l2 := range lines[:i] {
			t2 := strings.TrimSpace(l2)
			if strings.HasPrefix(t2, "const "+name+" ") || strings.HasPrefix(t2, "const "+name+":") {
				// same indentation level = same block in the emitted handler
				if len(l)-len(strings.TrimLeft(l, " ")) == len(l2)-len(strings.TrimLeft(l2, " ")) {
					dup = name
				}
			}
		}
	}
	verif.Show("duplicate", dup)
	if pathVar && hasQuery && (verb == http.HttpMethod_HTTP_METHOD_GET || verb == http.HttpMethod_HTTP_METHOD_DELETE) {
		verif.Reach("C13/ts/path-and-query") // the region of the defect repaired in 8a59333
	}
	verif.Assert("C13/ts/no-duplicate-const-in-route", dup == "")
	verif.Reach("C13/ts/decided")
}

// VerifC13GoIdentifiers: the Go identifier the client derives from a path-variable name
// by string conversion is the identifier protoc-gen-go declares for that field.
// Names are built over the word shapes of the quantifier (letters, digits, single and
// doubled separators, trailing separator), letters and digits symbolic.
func VerifC13GoIdentifiers() {
	w := func(id string) string { return verif.StringN(id, 1+verif.Choice(id+".len", 2), "a-c") }
	d := func(id string) string { return verif.StringN(id, 1, "0-9") }
	var name string
	irregular := false
	switch verif.Choice("shape", 9) {
	case 0:
		name = w("w1")
	case 1:
		name = w("w1") + "_" + w("w2")
	case 2:
		name = w("w1") + "_" + w("w2") + "_" + w("w3")
	case 3:
		name = w("w1") + d("d1")
	case 4:
		name = w("w1") + d("d1") + "_" + w("w2")
	case 5:
		name, irregular = w("w1")+"_"+d("d1"), true
	case 6:
		name, irregular = w("w1")+"__"+w("w2"), true
	case 7:
		name, irregular = w("w1")+"_", true
	default:
		name, irregular = w("w1")+"_"+d("d1")+w("w2"), true
	}
	// the request field as protoc-gen-go declares it
	want := verif.GoCamelCase(name)
	req := verif.NewMessage("acme.v1", "Req")
	verif.AddField(req, &verif.FieldDesc{FName: name, FJSON: name, FKind: protoreflect.StringKind, FNumber: 1, FOpts: &descriptorpb.FieldOptions{}}, want)
	lines := verif.Trace(clientgen.VerifURLLinesFor(req, "/x/{"+name+"}", []string{name}))[0].Lines
	// the emitted replacement line must name the field by protoc-gen-go's identifier
	wantLine := "path = strings.Replace(path, \"{" + name + "}\", url.PathEscape(fmt.Sprint(req." + want + ")), 1)"
	found := false
	for _, l := range lines {
		found = verif.Or(found, l == wantLine)
	}
	verif.Show("name", name)
	verif.Show("protoc-gen-go", want)
	if irregular {
		// an underscore that is not followed by a lower-case letter (digit, underscore, end):
		// the region of the defect repaired in 72ff63d
		verif.Reach("C13/idents/irregular")
	}
	verif.Assert("C13/client-go-identifier=protoc-gen-go-identifier", found)
	verif.Reach("C13/idents/decided")
}

// VerifC13OneMarshalerPerType: over all files a plugin writes into the package, a Go
// type gets at most one MarshalJSON and one UnmarshalJSON declaration, for every pair
// of codec features placed on two fields of one message.
func VerifC13OneMarshalerPerType() {
	w := c12NewWorld()
	m := verif.NewMessage("acme.v1", "M")
	add := func(idx int, feature int) {
		o := &descriptorpb.FieldOptions{}
		name := []string{"f1", "f2"}[idx]
		d := &verif.FieldDesc{FName: name, FJSON: name, FNumber: int32(idx + 1), FOpts: o}
		f := verif.AddField(m, d, []string{"F1", "F2"}[idx])
		switch feature {
		case 0:
			d.FKind = protoreflect.Int64Kind
			verif.SetExt(o, http.E_Int64Encoding, http.Int64Encoding_INT64_ENCODING_NUMBER)
		case 1:
			d.FKind, d.FOptional = protoreflect.StringKind, true
			verif.SetExt(o, http.E_Nullable, true)
			f.Oneof = &protogen.Oneof{Desc: &verif.OneofDesc{OName: "_" + name, OSynthetic: true, OOpts: &descriptorpb.OneofOptions{}}, GoName: "X_" + name, Parent: m, Fields: []*protogen.Field{f}}
			d.FOneof = f.Oneof.Desc
		case 2:
			d.FKind, d.FMsg = protoreflect.MessageKind, w.child.Desc
			f.Message = w.child
			verif.SetExt(o, http.E_EmptyBehavior, http.EmptyBehavior_EMPTY_BEHAVIOR_NULL)
		case 3:
			d.FKind, d.FMsg = protoreflect.MessageKind, w.ts.Desc
			f.Message = w.ts
			verif.SetExt(o, http.E_TimestampFormat, http.TimestampFormat_TIMESTAMP_FORMAT_UNIX_SECONDS)
		default:
			d.FKind = protoreflect.BytesKind
			verif.SetExt(o, http.E_BytesEncoding, http.BytesEncoding_BYTES_ENCODING_HEX)
		}
	}
	a, b := verif.Choice("feature1", 5), verif.Choice("feature2", 5)
	add(0, a)
	add(1, b)
	files, _ := c12Place(m, w.child)
	client := verif.Bool("goClient")
	p := &protogen.Plugin{Files: files}
	var err error
	if client {
		err = clientgen.VerifGenerateWith(p)
	} else {
		err = New(p).Generate()
	}
	if err != nil {
		verif.Reach("C13/marshalers/refused")
		return
	}
	nm, nu := 0, 0
	for _, t := range verif.Trace(p) {
		for _, l := range t.Lines {
			if strings.HasPrefix(l, "func (x *M) MarshalJSON(") {
				nm++
			}
			if strings.HasPrefix(l, "func (x *M) UnmarshalJSON(") {
				nu++
			}
		}
	}
	verif.Show("marshalers", nm)
	if a != b {
		verif.Expect("KF-C13-two-codec-features-on-one-message-emit-two-MarshalJSON", nm <= 1 && nu <= 1)
		verif.Reach("C13/marshalers/kf")
		return
	}
	verif.Assert("C13/at-most-one-MarshalJSON-per-type", nm <= 1 && nu <= 1)
	verif.Reach("C13/marshalers/decided")
}

// c13PrintfProblem: a fmt.Errorf/Sprintf call whose constant format has fewer verbs than
// the call has operands (what `go vet`'s printf check, run by `go test`, rejects).
func c13PrintfProblem(lines []string) string {
	for _, l := range lines {
		for _, fn := range []string{"fmt.Errorf(\"", "fmt.Sprintf(\""} {
			i := strings.Index(l, fn)
			if i < 0 {
				continue
			}
			rest := l[i+len(fn):]
			// end of the format literal
			j := 0
			for j < len(rest) && !(rest[j] == '"' && (j == 0 || rest[j-1] != '\\')) {
				j++
			}
			if j >= len(rest) {
				continue
			}
			format, args := rest[:j], rest[j+1:]
			verbs := 0
			for k := 0; k < len(format); k++ {
				if format[k] == '%' {
					if k+1 < len(format) && format[k+1] == '%' {
						k++
						continue
					}
					verbs++
				}
			}
			// operands: top-level commas before the closing parenthesis of the call
			depth, nargs, inStr := 0, 0, false
			for k := 0; k < len(args); k++ {
				c := args[k]
				switch {
				case inStr:
					if c == '"' && args[k-1] != '\\' {
						inStr = false
					}
				case c == '"':
					inStr = true
				case c == '(' || c == '[' || c == '{':
					depth++
				case c == ')' || c == ']' || c == '}':
					if depth == 0 {
						k = len(args)
						break
					}
					depth--
				case c == ',' && depth == 0:
					nargs++
				}
			}
			if verbs != nargs {
				return l
			}
		}
	}
	return ""
}

// VerifC13PrintfArity: every formatted-error call the codec emitters print has as many
// verbs as operands, for every codec feature (both Go generators).
func VerifC13PrintfArity() {
	feature := verif.Choice("feature", 9)
	c14Concrete = true
	file, _ := c14File(feature, true)
	ps, pc := &protogen.Plugin{Files: []*protogen.File{file}}, &protogen.Plugin{Files: []*protogen.File{file}}
	verif.Assert("C13/printf/server-accepts", New(ps).Generate() == nil)
	verif.Assert("C13/printf/client-accepts", clientgen.VerifGenerateWith(pc) == nil)
	for _, t := range append(verif.Trace(ps), verif.Trace(pc)...) {
		p := c13PrintfProblem(t.Lines)
		verif.Show("line", p)
		verif.Assert("C13/printf/verbs-match-operands", p == "")
	}
	verif.Reach("C13/printf/decided")
}
