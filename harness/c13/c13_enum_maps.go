package httpgen

import (
	"strings"

	"google.golang.org/protobuf/compiler/protogen"
	"google.golang.org/protobuf/reflect/protoreflect"
	"google.golang.org/protobuf/types/descriptorpb"

	"github.com/SebastienMelki/sebuf/http"
	"github.com/SebastienMelki/sebuf/internal/clientgen"
	verif "github.com/SebastienMelki/sebuf/internal/zzverif"
)

// c13DuplicateKey: the first key written twice inside one composite literal of the form
// "var x = map[...]...{" ... "}" (a duplicate constant key in a map literal does not compile).
func c13DuplicateKey(lines []string) string {
	in := false
	var keys []string
	for _, l := range lines {
		switch {
		case strings.HasPrefix(l, "var ") && strings.Contains(l, "= map[") && strings.HasSuffix(l, "{"):
			in, keys = true, nil
		case in && l == "}":
			in = false
		case in:
			i := strings.Index(l, ": ")
			if i < 0 {
				continue
			}
			k := l[:i]
			for _, p := range keys {
				if p == k {
					return k
				}
			}
			keys = append(keys, k)
		}
	}
	return ""
}

// VerifC13EnumMapLiterals: the lookup tables emitted for an enum with custom JSON values never
// repeat a key, whichever of the enum's values carry an enum_value annotation (all, some, one
// spelled like the value's own proto name).
func VerifC13EnumMapLiterals() {
	w := c12NewWorld()
	w.enum.Values = append(w.enum.Values, &protogen.EnumValue{
		Desc:    &verif.EnumValueDesc{VName: "COLOR_BLUE", VNumber: 2, VOpts: &descriptorpb.EnumValueOptions{}},
		GoIdent: protogen.GoIdent{GoName: "Color_COLOR_BLUE", GoImportPath: verif.ImportPath}, Parent: w.enum})
	annotated := 0
	for i, v := range w.enum.Values {
		switch verif.Choice("value"+string(rune('0'+i))+".enum_value", 3) {
		case 1:
			verif.SetExt(v.Desc.Options().(*descriptorpb.EnumValueOptions), http.E_EnumValue, []string{"none", "red", "blue"}[i])
			annotated++
		case 2:
			verif.SetExt(v.Desc.Options().(*descriptorpb.EnumValueOptions), http.E_EnumValue, string(v.Desc.Name()))
			annotated++
			verif.Reach("C13/enum-maps/custom-value-is-the-proto-name")
		}
	}
	verif.Assume(annotated > 0)
	m := verif.NewMessage("acme.v1", "M")
	f := verif.AddField(m, &verif.FieldDesc{FName: "f1", FJSON: "f1", FKind: protoreflect.EnumKind, FNumber: 1, FOpts: &descriptorpb.FieldOptions{}, FEnum: w.enum.Desc}, "F1")
	f.Enum = w.enum
	files, _ := c12Place(m)
	for _, fl := range files {
		if len(fl.Messages) > 0 && fl.Enums == nil {
			fl.Enums = []*protogen.Enum{w.enum}
		}
	}
	ps, pc := &protogen.Plugin{Files: files}, &protogen.Plugin{Files: files}
	verif.Assert("C13/enum-maps/server-accepts", New(ps).Generate() == nil)
	verif.Assert("C13/enum-maps/client-accepts", clientgen.VerifGenerateWith(pc) == nil)
	seen := 0
	for _, t := range append(verif.Trace(ps), verif.Trace(pc)...) {
		if !strings.HasSuffix(t.Name, "_enum_encoding.pb.go") {
			continue
		}
		seen++
		dup := c13DuplicateKey(t.Lines)
		verif.Show("file", t.Name)
		verif.Show("duplicateKey", dup)
		verif.Assert("C13/enum-maps/no-key-written-twice-in-a-map-literal", dup == "")
	}
	verif.Assert("C13/enum-maps/codec-files-emitted", seen >= 2)
	verif.Reach("C13/enum-maps/decided")
}
