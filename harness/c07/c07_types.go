package tscommon

import (
	"fmt"
	"strings"

	"google.golang.org/protobuf/compiler/protogen"
	"google.golang.org/protobuf/reflect/protoreflect"
	"google.golang.org/protobuf/types/descriptorpb"

	"github.com/SebastienMelki/sebuf/http"
	verif "github.com/SebastienMelki/sebuf/internal/zzverif"
)

// The TypeScript side is read from the declarations the real tscommon emitters print:
// interfaces, string-literal unions, object-literal union branches, intersections,
// Record<string, T>, T[], optional markers and "| null".

type c07Decls struct{ lines []string }

func (d *c07Decls) printer() Printer {
	return func(format string, args ...interface{}) { d.lines = append(d.lines, fmt.Sprintf(format, args...)) }
}

type c07Prop struct {
	name     string
	optional bool
	typ      string
}

// c07ParseMember parses "name?: T" / "name: T".
func c07ParseMember(s string) (c07Prop, bool) {
	if i := strings.Index(s, "?: "); i >= 0 {
		return c07Prop{name: s[:i], optional: true, typ: s[i+3:]}, true
	}
	if i := strings.Index(s, ": "); i >= 0 {
		return c07Prop{name: s[:i], typ: s[i+2:]}, true
	}
	return c07Prop{}, false
}

// c07Interface returns the members of "export interface <name> {".
func (d *c07Decls) iface(name string) ([]c07Prop, bool) {
	for i, l := range d.lines {
		if l != "export interface "+name+" {" {
			continue
		}
		var out []c07Prop
		for _, m := range d.lines[i+1:] {
			if m == "}" {
				return out, true
			}
			if p, ok := c07ParseMember(strings.TrimSuffix(strings.TrimPrefix(m, "  "), ";")); ok {
				out = append(out, p)
			}
		}
	}
	return nil, false
}

// alias returns the right-hand side of a one-line "export type <name> = ...;".
func (d *c07Decls) alias(name string) (string, bool) {
	pfx := "export type " + name + " = "
	for _, l := range d.lines {
		if strings.HasPrefix(l, pfx) && strings.HasSuffix(l, ";") {
			return l[len(pfx) : len(l)-1], true
		}
	}
	return "", false
}

// union returns the object-literal branches of a multi-line "export type <name> =".
func (d *c07Decls) union(name string) ([][]c07Prop, bool) {
	for i, l := range d.lines {
		if l != "export type "+name+" =" {
			continue
		}
		var out [][]c07Prop
		for _, b := range d.lines[i+1:] {
			if !strings.HasPrefix(b, "  | { ") {
				break
			}
			body := strings.TrimSuffix(strings.TrimSuffix(strings.TrimPrefix(b, "  | { "), ";"), " }")
			var props []c07Prop
			for _, m := range strings.Split(body, "; ") {
				if p, ok := c07ParseMember(m); ok {
					props = append(props, p)
				}
			}
			out = append(out, props)
		}
		return out, true
	}
	return nil, false
}

// members: the properties type <name> declares for the object value v (interfaces,
// intersections, and the union branch whose literal-typed discriminator matches v).
func (d *c07Decls) members(name string, v *c06V, depth int) ([]c07Prop, bool) {
	if depth > 6 {
		return nil, false
	}
	if ps, ok := d.iface(name); ok {
		return ps, true
	}
	if rhs, ok := d.alias(name); ok && strings.Contains(rhs, " & ") {
		var all []c07Prop
		for _, part := range strings.Split(rhs, " & ") {
			ps, ok := d.members(part, v, depth+1)
			if !ok {
				return nil, false
			}
			all = append(all, ps...)
		}
		return all, true
	}
	if branches, ok := d.union(name); ok {
		for _, b := range branches {
			match := true
			for _, p := range b {
				if strings.HasPrefix(p.typ, "\"") {
					x := v.get(p.name)
					if x == nil || x.cat != c06Str || "\""+x.s+"\"" != p.typ {
						match = false
					}
				}
			}
			if match {
				return b, true
			}
		}
		return nil, false
	}
	return nil, false
}

// accepts: v is a value of TypeScript type typ, and every property of v (recursively) is declared.
func (d *c07Decls) accepts(typ string, v *c06V, depth int) bool {
	if depth > 8 {
		return false
	}
	if strings.HasSuffix(typ, " | null") {
		if v.cat == c06Null {
			return true
		}
		typ = strings.TrimSuffix(typ, " | null")
	}
	switch {
	case strings.HasSuffix(typ, "[]"):
		if v.cat != c06Arr {
			return false
		}
		for _, x := range v.elems {
			if !d.accepts(typ[:len(typ)-2], x, depth+1) {
				return false
			}
		}
		return true
	case strings.HasPrefix(typ, "Record<string, ") && strings.HasSuffix(typ, ">"):
		if v.cat != c06Obj {
			return false
		}
		inner := typ[len("Record<string, ") : len(typ)-1]
		for _, x := range v.vals {
			if !d.accepts(inner, x, depth+1) {
				return false
			}
		}
		return true
	case typ == TSString:
		return v.cat == c06Str
	case typ == TSNumber:
		return v.cat == c06Int || v.cat == c06Num
	case typ == TSBoolean:
		return v.cat == c06Bool
	case strings.HasPrefix(typ, "\""):
		return v.cat == c06Str && "\""+v.s+"\"" == typ
	}
	// a named type: string-literal union (enum) or an object type
	if rhs, ok := d.alias(typ); ok && !strings.Contains(rhs, " & ") {
		if rhs == TSString {
			return v.cat == c06Str
		}
		// "A" | "B": v.s must be one of the literals (literals carry no quotes or spaces in the bound)
		return v.cat == c06Str && strings.Contains(" | "+rhs+" | ", " | \""+v.s+"\" | ")
	}
	if v.cat != c06Obj {
		return false
	}
	props, ok := d.members(typ, v, depth)
	if !ok {
		return false
	}
	for i, k := range v.keys {
		found := false
		for _, p := range props {
			if p.name == k {
				found = true
				if !d.accepts(p.typ, v.vals[i], depth+1) {
					return false
				}
			}
		}
		if !found {
			return false
		}
	}
	return true
}

// requiredPresent: every property declared without "?" is present in v (top level).
func (d *c07Decls) requiredPresent(typ string, v *c06V) bool {
	props, ok := d.members(typ, v, 0)
	if !ok {
		return false
	}
	for _, p := range props {
		if !p.optional && v.get(p.name) == nil {
			return false
		}
	}
	return true
}

func c07Emit(w *c06World, msgs ...*protogen.Message) *c07Decls {
	d := &c07Decls{}
	for _, m := range msgs {
		GenerateInterface(d.printer(), m)
	}
	GenerateEnumType(d.printer(), w.enum)
	return d
}

// VerifC07Field: a message with one field of arbitrary kind, cardinality and (valid)
// annotations: every wire form M gives to a value of the message is a value of the
// interface the real emitters declare (present keys are declared with an accepting type),
// and keys M omits are declared optional.
func VerifC07Field() {
	c06ConcreteNames = true
	custom := verif.Bool("enum.customValues")
	w := c06NewWorld(custom)
	msg := c06Msg("Msg")
	c06Add(msg, &verif.FieldDesc{FName: "note", FJSON: "note", FKind: protoreflect.StringKind})
	opts := &descriptorpb.FieldOptions{}
	el := c06SymElem(w, "f", opts, custom)
	if el.kind != protoreflect.EnumKind {
		verif.Assume(!custom)
	}
	card := verif.Choice("f.cardinality", 4)
	fjson := c06JSONName("f")
	verif.Assume(fjson != "note")
	d := &verif.FieldDesc{FName: "f", FJSON: fjson, FKind: el.kind, FOpts: opts}
	nullable, emptyBehavior := false, http.EmptyBehavior(0)
	switch card {
	case 1:
		d.FOptional = true
		if el.kind != protoreflect.MessageKind {
			nullable = verif.Bool("f.nullable")
			if nullable {
				verif.SetExt(opts, http.E_Nullable, true)
			}
		}
	case 2:
		d.FList = true
		verif.Assume(!(el.isTimestamp && el.tsFormat != 0))
	case 3:
		d.FMap = true
	}
	if card == 0 && el.kind == protoreflect.MessageKind && !el.isTimestamp {
		emptyBehavior = http.EmptyBehavior(verif.Choice("f.empty_behavior", 4))
		if emptyBehavior != 0 {
			verif.SetExt(opts, http.E_EmptyBehavior, emptyBehavior)
		}
	}
	var f *protogen.Field
	if card == 3 {
		verif.Assume(!el.int64Number && !el.enumNumber && el.tsFormat == 0)
		entry := &protogen.Message{Desc: &verif.MessageDesc{MName: "FEntry", MFullName: "acme.v1.Msg.FEntry", MMapEntry: true, MOpts: &descriptorpb.MessageOptions{}},
			GoIdent: protogen.GoIdent{GoName: "Msg_FEntry", GoImportPath: verif.ImportPath}}
		c06Add(entry, &verif.FieldDesc{FName: "key", FJSON: "key", FKind: protoreflect.StringKind})
		vd := &verif.FieldDesc{FName: "value", FJSON: "value", FKind: el.kind}
		vf := c06Add(entry, vd)
		el.attach(w, vf, vd)
		d.FKind = protoreflect.MessageKind
		f = c06Add(msg, d)
		f.Message = entry
		d.FMsg = entry.Desc
	} else {
		f = c06Add(msg, d)
		el.attach(w, f, d)
		if d.FOptional {
			f.Oneof = &protogen.Oneof{Desc: &verif.OneofDesc{OName: "_f", OSynthetic: true, OOpts: &descriptorpb.OneofOptions{}}, GoName: "X_F", Parent: msg, Fields: []*protogen.Field{f}}
			d.FOneof = f.Oneof.Desc
		}
	}

	decls := c07Emit(w, msg, w.child)

	doc := c06Object()
	doc.set("note", &c06V{cat: c06Str})
	present := verif.Bool("f.set")
	nonFinite := false
	one := func(n string) *c06V {
		v, nf := el.value(w, n)
		nonFinite = nonFinite || nf
		return v
	}
	if present {
		switch card {
		case 0, 1:
			v := one("f")
			if emptyBehavior != 0 && len(v.keys) == 0 {
				switch emptyBehavior {
				case http.EmptyBehavior_EMPTY_BEHAVIOR_NULL:
					v = &c06V{cat: c06Null}
				case http.EmptyBehavior_EMPTY_BEHAVIOR_OMIT:
					v = nil
				}
			}
			if v != nil {
				doc.set(fjson, v)
			}
		case 2:
			doc.set(fjson, &c06V{cat: c06Arr, elems: []*c06V{one("f0")}})
		case 3:
			o := c06Object()
			o.set(verif.StringIn("f.key", verif.L(2), "a-z"), one("f0"))
			doc.set(fjson, o)
		}
	} else if nullable {
		doc.set(fjson, &c06V{cat: c06Null})
	}
	verif.Assume(!nonFinite) // "NaN"/"Infinity" strings of float kinds: reported under C06
	ok := decls.accepts("Msg", doc, 0)
	if doc.get(fjson) != nil && doc.get(fjson).cat == c06Null && emptyBehavior == http.EmptyBehavior_EMPTY_BEHAVIOR_NULL {
		verif.Reach("C07/field/empty-null") // region of the defect repaired in the TS emitters
	}
	verif.Assert("C07/field/wire-value-inhabits-declared-type", ok)
	req := decls.requiredPresent("Msg", doc)
	if doc.get(fjson) == nil && !d.FOptional && !(card == 0 && el.kind == protoreflect.MessageKind) {
		// implicit-presence scalar, repeated and map fields at their zero value
		verif.Expect("KF-C07-zero-valued-field-is-omitted-on-the-wire-but-declared-required", req)
		verif.Reach("C07/field/kf-zero-omitted")
		return
	}
	verif.Assert("C07/field/omitted-key-is-declared-optional", req)
	verif.Reach("C07/field/decided")
}

// VerifC07Flatten: flattened child keys (prefix + JSON name) are declared at the parent level.
func VerifC07Flatten() {
	w := c06NewWorld(false)
	msg := c06Msg("Msg")
	c06Add(msg, &verif.FieldDesc{FName: "id", FJSON: "id", FKind: protoreflect.StringKind})
	opts := &descriptorpb.FieldOptions{}
	verif.SetExt(opts, http.E_Flatten, true)
	// the emitted text is parsed by the oracle: the prefix is one of a few concrete strings
	prefix := []string{"", "p_", "addr", "i"}[verif.Choice("prefix", 4)]
	if prefix != "" {
		verif.SetExt(opts, http.E_FlattenPrefix, prefix)
	}
	// the child also has a proto3-optional field, nullable or not
	nickNullable := verif.Bool("child.nick.nullable")
	no := &descriptorpb.FieldOptions{}
	if nickNullable {
		verif.SetExt(no, http.E_Nullable, true)
	}
	nd := &verif.FieldDesc{FName: "nick", FJSON: "nick", FKind: protoreflect.StringKind, FOptional: true, FOpts: no}
	nf := c06Add(w.child, nd)
	nf.Oneof = &protogen.Oneof{Desc: &verif.OneofDesc{OName: "_nick", OSynthetic: true, OOpts: &descriptorpb.OneofOptions{}}, GoName: "X_Nick", Parent: w.child, Fields: []*protogen.Field{nf}}
	nd.FOneof = nf.Oneof.Desc
	d := &verif.FieldDesc{FName: "addr", FJSON: "addr", FKind: protoreflect.MessageKind, FOpts: opts, FMsg: w.child.Desc}
	f := c06Add(msg, d)
	f.Message = w.child
	decls := c07Emit(w, msg, w.child)
	doc := c06Object()
	doc.set("id", &c06V{cat: c06Str})
	switch {
	case verif.Bool("child.nick.set"):
		doc.set(prefix+"nick", &c06V{cat: c06Str})
	case nickNullable:
		doc.set(prefix+"nick", &c06V{cat: c06Null})
	}
	// the child is set with both fields non-zero (zero-valued keys: see KF-C07-zero-valued-...)
	doc.set(prefix+"street", &c06V{cat: c06Str})
	doc.set(prefix+"zipCode", &c06V{cat: c06Int})
	verif.Assert("C07/flatten/wire-value-inhabits-declared-type", decls.accepts("Msg", doc, 0))
	verif.Assert("C07/flatten/omitted-key-is-declared-optional", decls.requiredPresent("Msg", doc))
	verif.Assert("C07/flatten/nested-key-is-not-declared", !decls.accepts("Msg", func() *c06V {
		o := c06Object()
		o.set("id", &c06V{cat: c06Str})
		c := c06Object()
		c.set("street", &c06V{cat: c06Str})
		o.set("addr", c)
		return o
	}(), 0))
	verif.Reach("C07/flatten/decided")
}

// VerifC07Oneof: discriminated oneof, nested and flattened.
func VerifC07Oneof() {
	w := c06NewWorld(false)
	msg := c06Msg("Msg")
	c06Add(msg, &verif.FieldDesc{FName: "id", FJSON: "id", FKind: protoreflect.StringKind})
	flatten := verif.Bool("oneof.flatten")
	disc := "kind"
	oo := &descriptorpb.OneofOptions{}
	verif.SetExt(oo, http.E_OneofConfig, &http.OneofConfig{Discriminator: disc, Flatten: flatten})
	od := &verif.OneofDesc{OName: "content", OFullName: "acme.v1.Msg.content", OOpts: oo}
	oneof := &protogen.Oneof{Desc: od, GoName: "Content", Parent: msg}
	msg.Oneofs = []*protogen.Oneof{oneof}
	other := c06Msg("Image")
	c06Add(other, &verif.FieldDesc{FName: "w", FJSON: "w", FKind: protoreflect.Int32Kind})
	vals := [2]string{"text", "img"}
	mk := func(i int, name string, isMsg bool, target *protogen.Message) {
		o := &descriptorpb.FieldOptions{}
		if verif.Bool(name + ".customValue") {
			cv := []string{"t", "i"}[i]
			verif.SetExt(o, http.E_OneofValue, cv)
			vals[i] = cv
		}
		d := &verif.FieldDesc{FName: name, FJSON: name, FKind: protoreflect.StringKind, FOpts: o, FOneof: od}
		if isMsg {
			d.FKind = protoreflect.MessageKind
			d.FMsg = target.Desc
		}
		f := c06Add(msg, d)
		if isMsg {
			f.Message = target
		}
		f.Oneof = oneof
		oneof.Fields = append(oneof.Fields, f)
	}
	firstIsMessage := flatten || verif.Bool("first.isMessage")
	secondIsMessage := flatten || verif.Bool("second.isMessage")
	mk(0, "text", firstIsMessage, w.child)
	mk(1, "img", secondIsMessage, other)
	decls := c07Emit(w, msg, w.child, other)

	doc := c06Object()
	doc.set("id", &c06V{cat: c06Str})
	which := verif.Choice("variant", 3)
	var variant *c06V
	switch which {
	case 0:
		variant = &c06V{cat: c06Str}
		if firstIsMessage {
			variant = c06Object()
			variant.set("street", &c06V{cat: c06Str})
			variant.set("zipCode", &c06V{cat: c06Int})
		}
	case 1:
		variant = &c06V{cat: c06Str}
		if secondIsMessage {
			variant = c06Object()
			variant.set("w", &c06V{cat: c06Int})
		}
	}
	if which < 2 {
		doc.set(disc, &c06V{cat: c06Str, s: vals[which]})
		if flatten {
			for i, k := range variant.keys {
				doc.set(k, variant.vals[i])
			}
		} else {
			doc.set([]string{"text", "img"}[which], variant)
		}
	}
	ok := decls.accepts("Msg", doc, 0)
	switch {
	case which == 2 && flatten:
		verif.Expect("KF-C07-flattened-oneof-type-has-no-branch-for-an-unset-oneof", ok)
		verif.Reach("C07/oneof/kf-unset")
	case which == 2:
		verif.Assert("C07/oneof/unset-value-inhabits-declared-type", ok)
		verif.Reach("C07/oneof/unset-decided")
	case !flatten:
		verif.Expect("KF-C07-nested-oneof-is-declared-under-the-oneof-name-but-sent-at-the-parent-level", ok)
		verif.Reach("C07/oneof/kf-nested")
	default:
		verif.Assert("C07/oneof/flattened-value-inhabits-declared-type", ok)
		verif.Reach("C07/oneof/decided")
	}
}

// VerifC07Unwrap: the result type of a root-unwrapped response and the declared type of a
// map whose values are unwrapped.
func VerifC07Unwrap() {
	w := c06NewWorld(false)
	shape := verif.Choice("shape", 4)
	msg := c06Msg("Msg")
	opts := &descriptorpb.FieldOptions{}
	el := c06SymElem(w, "item", opts, false)
	verif.Assume(!(el.isTimestamp && el.tsFormat != 0) && !el.int64Number && !el.enumNumber)
	wrapper := c06Msg("Wrapper")
	wo := &descriptorpb.FieldOptions{}
	verif.SetExt(wo, http.E_Unwrap, true)
	wd := &verif.FieldDesc{FName: "items", FJSON: "items", FKind: el.kind, FList: true, FOpts: wo}
	wf := c06Add(wrapper, wd)
	el.attach(w, wf, wd)
	mkMap := func(parent *protogen.Message, name string, o *descriptorpb.FieldOptions, valueKind protoreflect.Kind, valueMsg *protogen.Message, attachEl bool) {
		entry := &protogen.Message{Desc: &verif.MessageDesc{MName: "Entry", MFullName: "acme.v1.Msg.Entry", MMapEntry: true, MOpts: &descriptorpb.MessageOptions{}},
			GoIdent: protogen.GoIdent{GoName: "Msg_Entry", GoImportPath: verif.ImportPath}}
		c06Add(entry, &verif.FieldDesc{FName: "key", FJSON: "key", FKind: protoreflect.StringKind})
		vd := &verif.FieldDesc{FName: "value", FJSON: "value", FKind: valueKind}
		vf := c06Add(entry, vd)
		if attachEl {
			el.attach(w, vf, vd)
		} else if valueMsg != nil {
			vf.Message = valueMsg
			vd.FMsg = valueMsg.Desc
		}
		d := &verif.FieldDesc{FName: name, FJSON: name, FKind: protoreflect.MessageKind, FMap: true, FOpts: o, FMsg: entry.Desc}
		f := c06Add(parent, d)
		f.Message = entry
	}
	elemArr := func(n string) *c06V {
		a := &c06V{cat: c06Arr}
		v, nf := el.value(w, n)
		verif.Assume(!nf)
		a.elems = append(a.elems, v)
		return a
	}
	var doc *c06V
	switch shape {
	case 0:
		verif.SetExt(opts, http.E_Unwrap, true)
		d := &verif.FieldDesc{FName: "items", FJSON: "items", FKind: el.kind, FList: true, FOpts: opts}
		f := c06Add(msg, d)
		el.attach(w, f, d)
		doc = elemArr("e")
	case 1:
		o := &descriptorpb.FieldOptions{}
		verif.SetExt(o, http.E_Unwrap, true)
		mkMap(msg, "by_key", o, el.kind, nil, true)
		doc = c06Object()
		v, nf := el.value(w, "e")
		verif.Assume(!nf)
		doc.set(verif.StringIn("key", verif.L(2), "a-z"), v)
	case 2:
		o := &descriptorpb.FieldOptions{}
		verif.SetExt(o, http.E_Unwrap, true)
		mkMap(msg, "by_key", o, protoreflect.MessageKind, wrapper, false)
		doc = c06Object()
		doc.set(verif.StringIn("key", verif.L(2), "a-z"), elemArr("e"))
	case 3:
		c06Add(msg, &verif.FieldDesc{FName: "id", FJSON: "id", FKind: protoreflect.StringKind})
		mkMap(msg, "by_key", &descriptorpb.FieldOptions{}, protoreflect.MessageKind, wrapper, false)
		doc = c06Object()
		doc.set("id", &c06V{cat: c06Str})
		m := c06Object()
		m.set(verif.StringIn("key", verif.L(2), "a-z"), elemArr("e"))
		doc.set("by_key", m)
	}
	decls := c07Emit(w, w.child, wrapper)
	typ := "Msg"
	if shape < 3 {
		// the client's result type for a root-unwrapped response (tsclientgen.resolveOutputType)
		typ = RootUnwrapTSType(msg)
	} else {
		GenerateInterface(decls.printer(), msg)
	}
	verif.Show("type", typ)
	verif.Assert("C07/unwrap/wire-value-inhabits-declared-type", decls.accepts(typ, doc, 0))
	verif.Reach("C07/unwrap/decided")
}

// VerifC07ResultAccepts: does the TypeScript type expression typ, read over the declarations the
// real emitters give for msgs, accept the wire form of a response of the given shape
// (0 bare list of strings, 1 bare map of strings, 2 bare map of Child objects, 3 the object {ok}).
func VerifC07ResultAccepts(typ string, shape int, msgs []*protogen.Message) bool {
	d := &c07Decls{}
	for _, m := range msgs {
		GenerateInterface(d.printer(), m)
	}
	var doc *c06V
	switch shape {
	case 0:
		doc = &c06V{cat: c06Arr, elems: []*c06V{{cat: c06Str}}}
	case 1:
		doc = c06Object()
		doc.set(verif.StringIn("key", 2, "a-z"), &c06V{cat: c06Str})
	case 2:
		c := c06Object()
		c.set("street", &c06V{cat: c06Str})
		doc = c06Object()
		doc.set(verif.StringIn("key", 2, "a-z"), c)
	default:
		doc = c06Object()
		doc.set("ok", &c06V{cat: c06Bool})
	}
	return d.accepts(typ, doc, 0)
}
