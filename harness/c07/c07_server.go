package tsservergen

import (
	"strings"

	"google.golang.org/protobuf/compiler/protogen"
	"google.golang.org/protobuf/reflect/protoreflect"
	"google.golang.org/protobuf/types/descriptorpb"

	"github.com/SebastienMelki/sebuf/http"
	"github.com/SebastienMelki/sebuf/internal/tsclientgen"
	"github.com/SebastienMelki/sebuf/internal/tscommon"
	verif "github.com/SebastienMelki/sebuf/internal/zzverif"
)

var c07URLKinds = []protoreflect.Kind{
	protoreflect.StringKind, protoreflect.BoolKind, protoreflect.Int32Kind, protoreflect.Uint32Kind, protoreflect.Sint32Kind,
	protoreflect.Int64Kind, protoreflect.Uint64Kind, protoreflect.Sfixed64Kind, protoreflect.FloatKind, protoreflect.DoubleKind,
}

func c07Field(m *protogen.Message, name, json string, kind protoreflect.Kind, o *descriptorpb.FieldOptions) *protogen.Field {
	return verif.AddField(m, &verif.FieldDesc{FName: name, FJSON: json, FKind: kind, FNumber: int32(len(m.Fields) + 1), FOpts: o}, strings.ToUpper(name[:1])+name[1:])
}

// c07ExprType: the TypeScript type of the expression the route entry builds for a
// URL-carried field.
func c07ExprType(expr string) string {
	switch {
	case strings.HasPrefix(expr, "Number("):
		return tscommon.TSNumber
	case strings.HasSuffix(expr, `=== "true"`):
		return tscommon.TSBoolean
	case strings.HasPrefix(expr, "pathParams[") && strings.HasSuffix(expr, "]"), strings.HasPrefix(expr, "params.get("):
		return tscommon.TSString
	}
	return "?"
}

// VerifC07HandlerArg: the object the TS server passes to a handler is a value of the
// declared request interface: the expression built for each query parameter and each
// path variable has the TypeScript type declared for that field.
func VerifC07HandlerArg() {
	req := verif.NewMessage("acme.v1", "GetReq")
	pk := c07URLKinds[verif.Choice("path.kind", len(c07URLKinds))]
	qk := c07URLKinds[verif.Choice("query.kind", len(c07URLKinds))]
	pf := c07Field(req, "item_id", "itemId", pk, &descriptorpb.FieldOptions{})
	qo := &descriptorpb.FieldOptions{}
	verif.SetExt(qo, http.E_Query, &http.QueryConfig{Name: "q"})
	if c07Is64(qk) && verif.Bool("query.int64_number") {
		verif.SetExt(qo, http.E_Int64Encoding, http.Int64Encoding_INT64_ENCODING_NUMBER)
	}
	qf := c07Field(req, "limit", "limit", qk, qo)
	resp := verif.NewMessage("acme.v1", "GetResp")
	c07Field(resp, "ok", "ok", protoreflect.BoolKind, &descriptorpb.FieldOptions{})
	svc := verif.NewService("acme.v1", "ItemService", &descriptorpb.ServiceOptions{})
	mo := &descriptorpb.MethodOptions{}
	verb := http.HttpMethod_HTTP_METHOD_GET
	if verif.Bool("verb.delete") {
		verb = http.HttpMethod_HTTP_METHOD_DELETE
	}
	verif.SetExt(mo, http.E_Config, &http.HttpConfig{Path: "/items/{item_id}", Method: verb})
	m := verif.NewMethod(svc, "GetItem", "GetItem", req, resp, mo)
	lines, err := VerifRouteLines(svc, m)
	verif.Assume(err == nil)
	qExpr, pExpr := "", ""
	for _, l := range lines {
		t := strings.TrimSpace(l)
		if strings.HasPrefix(t, "limit: ") {
			qExpr = strings.TrimSuffix(strings.TrimPrefix(t, "limit: "), ",")
		}
		if strings.HasPrefix(t, "body.itemId = ") {
			pExpr = strings.TrimSuffix(strings.TrimPrefix(t, "body.itemId = "), ";")
		}
	}
	verif.Show("queryExpr", qExpr)
	verif.Show("pathExpr", pExpr)
	verif.Assert("C07/handler/query-field-is-built", qExpr != "")
	verif.Assert("C07/handler/path-field-is-built", pExpr != "")
	verif.Assert("C07/handler/query-value-has-declared-type", c07ExprType(qExpr) == tscommon.TSFieldType(qf))
	if tscommon.TSFieldType(pf) != tscommon.TSString {
		verif.Reach("C07/handler/non-string-path") // region of the defect repaired in the TS server emitter
	}
	verif.Assert("C07/handler/path-value-has-declared-type", c07ExprType(pExpr) == tscommon.TSFieldType(pf))
	verif.Reach("C07/handler/decided")
}

func c07Is64(k protoreflect.Kind) bool {
	switch k {
	case protoreflect.Int64Kind, protoreflect.Sint64Kind, protoreflect.Sfixed64Kind, protoreflect.Uint64Kind, protoreflect.Fixed64Kind:
		return true
	}
	return false
}

// c07DeclSection: the message/enum declaration lines of a generated TS module: from
// the first declaration up to the shared error types.
func c07DeclSection(lines []string) []string {
	start, end := -1, len(lines)
	for i, l := range lines {
		if start < 0 && (strings.HasPrefix(l, "export interface ") || strings.HasPrefix(l, "export type ")) {
			start = i
		}
		if l == "export interface FieldViolation {" {
			end = i
			break
		}
	}
	if start < 0 || start > end {
		return nil
	}
	return lines[start:end]
}

// VerifC07SameDeclarations: ts-client and ts-server emit the same type declarations for
// the same messages (relational: both complete generators on the same file).
func VerifC07SameDeclarations() {
	kinds := []protoreflect.Kind{protoreflect.StringKind, protoreflect.Int32Kind, protoreflect.Int64Kind, protoreflect.BoolKind, protoreflect.DoubleKind, protoreflect.BytesKind, protoreflect.EnumKind, protoreflect.MessageKind}
	child := verif.NewMessage("acme.v1", "Child")
	c07Field(child, "street", "street", protoreflect.StringKind, &descriptorpb.FieldOptions{})
	enum := &protogen.Enum{Desc: &verif.EnumDesc{EName: "Color", EFullName: "acme.v1.Color", EOpts: &descriptorpb.EnumOptions{}},
		GoIdent: protogen.GoIdent{GoName: "Color", GoImportPath: verif.ImportPath}}
	for i, n := range []string{"COLOR_UNSPECIFIED", "COLOR_RED"} {
		o := &descriptorpb.EnumValueOptions{}
		if verif.Bool("enum.custom") {
			verif.SetExt(o, http.E_EnumValue, []string{"none", "red"}[i])
		}
		enum.Values = append(enum.Values, &protogen.EnumValue{Desc: &verif.EnumValueDesc{VName: n, VNumber: int32(i), VOpts: o},
			GoIdent: protogen.GoIdent{GoName: "Color_" + n, GoImportPath: verif.ImportPath}, Parent: enum})
	}
	req := verif.NewMessage("acme.v1", "Req")
	c07Field(req, "id", "id", protoreflect.StringKind, &descriptorpb.FieldOptions{})
	resp := verif.NewMessage("acme.v1", "Resp")
	k := kinds[verif.Choice("f.kind", len(kinds))]
	fo := &descriptorpb.FieldOptions{}
	d := &verif.FieldDesc{FName: "f", FJSON: "f", FKind: k, FNumber: 1, FOpts: fo, FList: verif.Bool("f.repeated")}
	if !d.FList {
		d.FOptional = verif.Bool("f.optional")
		if d.FOptional && k != protoreflect.MessageKind && verif.Bool("f.nullable") {
			verif.SetExt(fo, http.E_Nullable, true)
		}
	}
	if c07Is64(k) && verif.Bool("f.int64_number") {
		verif.SetExt(fo, http.E_Int64Encoding, http.Int64Encoding_INT64_ENCODING_NUMBER)
	}
	if k == protoreflect.EnumKind && verif.Bool("f.enum_number") {
		verif.SetExt(fo, http.E_EnumEncoding, http.EnumEncoding_ENUM_ENCODING_NUMBER)
	}
	f := verif.AddField(resp, d, "F")
	switch k {
	case protoreflect.EnumKind:
		f.Enum = enum
		d.FEnum = enum.Desc
	case protoreflect.MessageKind:
		f.Message = child
		d.FMsg = child.Desc
		if !d.FList && !d.FOptional && verif.Bool("f.flatten") {
			verif.SetExt(fo, http.E_Flatten, true)
			verif.SetExt(fo, http.E_FlattenPrefix, "c_")
		}
	}
	if d.FOptional {
		f.Oneof = &protogen.Oneof{Desc: &verif.OneofDesc{OName: "_f", OSynthetic: true, OOpts: &descriptorpb.OneofOptions{}}, GoName: "X_F", Parent: resp, Fields: []*protogen.Field{f}}
		d.FOneof = f.Oneof.Desc
	}
	// an extra error message (collected by the "...Error" naming convention) and an unreferenced one
	nf := verif.NewMessage("acme.v1", "NotFoundError")
	c07Field(nf, "resource", "resource", protoreflect.StringKind, &descriptorpb.FieldOptions{})
	unused := verif.NewMessage("acme.v1", "Unused")
	c07Field(unused, "x", "x", protoreflect.StringKind, &descriptorpb.FieldOptions{})

	svc := verif.NewService("acme.v1", "ItemService", &descriptorpb.ServiceOptions{})
	mo := &descriptorpb.MethodOptions{}
	verif.SetExt(mo, http.E_Config, &http.HttpConfig{Path: "/items", Method: http.HttpMethod_HTTP_METHOD_POST})
	verif.NewMethod(svc, "Create", "Create", req, resp, mo)
	file := verif.NewFile("acme/v1/svc.proto", "acme.v1", "acmev1", "acme/v1/svc")
	file.Generate = true
	file.Services = []*protogen.Service{svc}
	file.Messages = []*protogen.Message{req, resp, child, nf, unused}
	file.Enums = []*protogen.Enum{enum}

	ps, pc := &protogen.Plugin{Files: []*protogen.File{file}}, &protogen.Plugin{Files: []*protogen.File{file}}
	errS := VerifGenerateWith(ps)
	errC := tsclientgen.VerifGenerateWith(pc)
	verif.Assert("C07/decls/both-generators-succeed", errS == nil && errC == nil)
	ts, tc := verif.Trace(ps), verif.Trace(pc)
	verif.Assert("C07/decls/one-module-each", len(ts) == 1 && len(tc) == 1)
	if len(ts) != 1 || len(tc) != 1 {
		return
	}
	ds, dc := c07DeclSection(ts[0].Lines), c07DeclSection(tc[0].Lines)
	verif.Assert("C07/decls/sections-found", len(ds) > 0 && len(dc) > 0)
	same := len(ds) == len(dc)
	if same {
		for i := range ds {
			if ds[i] != dc[i] {
				same = false
				verif.Show("serverLine", ds[i])
				verif.Show("clientLine", dc[i])
			}
		}
	}
	verif.Assert("C07/decls/client-and-server-declare-the-same-types", same)
	verif.Reach("C07/decls/decided")
}

// c07PromiseType: the type argument of the last Promise<...> on the line.
func c07PromiseType(l string) string {
	i := strings.LastIndex(l, "Promise<")
	j := strings.LastIndex(l, ">")
	if i < 0 || j < i {
		return ""
	}
	return l[i+len("Promise<") : j]
}

// VerifC07ResultType: the result type both TS generators declare for an RPC is inhabited by
// what the Go server writes for that response — the bare list or map for a root-unwrapped
// response message, the object otherwise.
func VerifC07ResultType() {
	shape := verif.Choice("response.shape", 4)
	child := verif.NewMessage("acme.v1", "Child")
	c07Field(child, "street", "street", protoreflect.StringKind, &descriptorpb.FieldOptions{})
	req := verif.NewMessage("acme.v1", "Req")
	c07Field(req, "id", "id", protoreflect.StringKind, &descriptorpb.FieldOptions{})
	resp := verif.NewMessage("acme.v1", "Resp")
	uo := &descriptorpb.FieldOptions{}
	verif.SetExt(uo, http.E_Unwrap, true)
	switch shape {
	case 0:
		verif.AddField(resp, &verif.FieldDesc{FName: "items", FJSON: "items", FKind: protoreflect.StringKind, FList: true, FNumber: 1, FOpts: uo}, "Items")
	case 1, 2:
		entry := &protogen.Message{Desc: &verif.MessageDesc{MName: "ByKeyEntry", MFullName: "acme.v1.Resp.ByKeyEntry", MMapEntry: true},
			GoIdent: protogen.GoIdent{GoName: "Resp_ByKeyEntry", GoImportPath: verif.ImportPath}}
		c07Field(entry, "key", "key", protoreflect.StringKind, &descriptorpb.FieldOptions{})
		if shape == 1 {
			c07Field(entry, "value", "value", protoreflect.StringKind, &descriptorpb.FieldOptions{})
		} else {
			vd := &verif.FieldDesc{FName: "value", FJSON: "value", FKind: protoreflect.MessageKind, FNumber: 2, FOpts: &descriptorpb.FieldOptions{}, FMsg: child.Desc}
			verif.AddField(entry, vd, "Value").Message = child
		}
		verif.AddField(resp, &verif.FieldDesc{FName: "by_key", FJSON: "byKey", FKind: protoreflect.MessageKind, FMap: true, FNumber: 1, FOpts: uo, FMsg: entry.Desc}, "ByKey").Message = entry
	default:
		c07Field(resp, "ok", "ok", protoreflect.BoolKind, &descriptorpb.FieldOptions{})
	}
	svc := verif.NewService("acme.v1", "ItemService", &descriptorpb.ServiceOptions{})
	mo := &descriptorpb.MethodOptions{}
	verif.SetExt(mo, http.E_Config, &http.HttpConfig{Path: "/items", Method: http.HttpMethod_HTTP_METHOD_POST})
	m := verif.NewMethod(svc, "List", "List", req, resp, mo)
	clientLines := tsclientgen.VerifMethodLines(svc, m)
	verif.Assert("C07/result/client-method-emitted", len(clientLines) > 0)
	clientType := c07PromiseType(clientLines[0])
	serverType := (&Generator{}).resolveOutputType(m)
	verif.Show("clientType", clientType)
	verif.Show("serverType", serverType)
	msgs := []*protogen.Message{req, resp, child}
	verif.Assert("C07/result/client-result-type-is-inhabited-by-the-wire-form", tscommon.VerifC07ResultAccepts(clientType, shape, msgs))
	verif.Assert("C07/result/server-handler-result-type-is-inhabited-by-the-wire-form", tscommon.VerifC07ResultAccepts(serverType, shape, msgs))
	verif.Reach("C07/result/decided")
}
