package main

import (
	"google.golang.org/protobuf/proto"
	"google.golang.org/protobuf/types/descriptorpb"
	"google.golang.org/protobuf/types/pluginpb"

	verif "github.com/SebastienMelki/sebuf/internal/zzverif"
)

// c16Request: a well-formed request that protogen refuses (file without go_package).
func c16Request() *pluginpb.CodeGeneratorRequest {
	return &pluginpb.CodeGeneratorRequest{
		FileToGenerate: []string{"plain/plain.proto"},
		ProtoFile: []*descriptorpb.FileDescriptorProto{{
			Name: proto.String("plain/plain.proto"), Package: proto.String("plain.v1"), Syntax: proto.String("proto3"),
			MessageType: []*descriptorpb.DescriptorProto{{Name: proto.String("Req")}},
		}},
	}
}

// VerifC16MainSetup: plugin set-up may fail (protogen.Options.New returns an error,
// as its signature documents); the plugin must not panic on that path.
// Symbolically Options.New is a stub that returns either an error or an empty plugin.
func VerifC16MainSetup() {
	req := c16Request()
	format := parseFormat(req)
	plugin, err := createPlugin(req)
	if err != nil {
		verif.Reach("C16/main/setup-error-returned")
		return
	}
	generateOpenAPIFiles(plugin, format)
	verif.Reach("C16/main/setup-ok")
}
