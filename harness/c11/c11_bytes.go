package codecs

import (
	verif "verifmod/zzverif"
)

// texts for a HEX-encoded bytes field: valid hex, and texts that are not hex but would decode
// under another alphabet (base64) if the field's own decoding error were swallowed
var c11HexTexts = []string{"", "00ff", "QUJD", "zz==", "0g", "abc", "ABCD", "4142"}
var c11HexValid = []bool{true, true, false, false, false, false, true, true}

// VerifC11BytesDecoder: a text that is not valid in the field's declared encoding makes the decode
// fail; an accepted text is delivered as the bytes it denotes in that encoding.
func VerifC11BytesDecoder() {
	i := verif.Choice("hex.text", len(c11HexTexts))
	var m BytesMsg
	err := m.UnmarshalJSON(verif.JObj("hexData", verif.JStr(c11HexTexts[i]), "id", verif.JStr("x")))
	if !c11HexValid[i] {
		verif.Reach("C11/bytes/invalid-text")
	}
	verif.Show("text", c11HexTexts[i])
	verif.Show("accepted", err == nil)
	if err != nil {
		verif.Assert("C11/bytes/valid-text-is-accepted", !c11HexValid[i])
		verif.Reach("C11/bytes/rejected")
		return
	}
	verif.Assert("C11/bytes/text-outside-the-declared-encoding-never-accepted", c11HexValid[i]) // the defect repaired in f63fb45
	switch i {
	case 1:
		verif.Assert("C11/bytes/accepted-value-is-delivered", len(m.HexData) == 2 && m.HexData[0] == 0 && m.HexData[1] == 0xff)
	case 6:
		verif.Assert("C11/bytes/accepted-value-is-delivered", len(m.HexData) == 2 && m.HexData[0] == 0xab && m.HexData[1] == 0xcd)
	case 7:
		verif.Assert("C11/bytes/accepted-value-is-delivered", string(m.HexData) == "AB")
	}
	verif.Reach("C11/bytes/accepted")
}
