package codecs

import (
	"net/http"
	"net/url"

	verif "verifmod/zzverif"
)

// c11Value returns an arbitrary JSON value (any category) for a key and a description of it.
func c11Value(id string) (doc []byte, kind string, i int64, s string) {
	switch verif.Choice(id+".kind", 8) {
	case 0:
		i = verif.Int64(id + ".int")
		return verif.JInt(i), "int", i, ""
	case 1:
		s = verif.StringIn(id+".str", verif.L(4), "0-9a.-")
		return verif.JStr(s), "str", 0, s
	case 2:
		return verif.JRaw("1.5"), "fraction", 0, ""
	case 3:
		return verif.JRaw("1e30"), "huge", 0, ""
	case 4:
		return verif.JBool(verif.Bool(id + ".bool")), "bool", 0, ""
	case 5:
		return verif.JNull(), "null", 0, ""
	case 6:
		return verif.JArr(verif.JInt(1)), "arr", 0, ""
	default:
		return verif.JObj("k", verif.JStr("v")), "obj", 0, ""
	}
}

// VerifC11Int64Decoder: arbitrary JSON for a NUMBER-encoded int64 field: the decoder
// either fails or yields exactly the integer that was sent; it never panics and never
// succeeds on a value it could not decode (fractions, out-of-range numbers, wrong types).
func VerifC11Int64Decoder() {
	top := verif.Choice("top", 3)
	var body []byte
	v, kind, iv, sv := c11Value("big")
	switch top {
	case 0:
		body = verif.JObj("big", v, "name", verif.JStr("n"))
	case 1:
		body = verif.JObj("ubig", v)
	default:
		body = verif.JObj("bigs", verif.JArr(v))
	}
	var m Int64Msg
	err := m.UnmarshalJSON(body)
	if top == 2 && kind == "null" {
		verif.Reach("C11/int64/null-list-element")
	}
	verif.Show("kind", kind)
	verif.Show("accepted", err == nil)
	if err != nil {
		verif.Reach("C11/int64/rejected")
		return
	}
	switch kind {
	case "int":
		switch top {
		case 0:
			verif.Assert("C11/int64/accepted-integer-is-delivered", m.Big == iv)
		case 1:
			verif.Assert("C11/int64/negative-rejected-for-unsigned", iv >= 0 && m.Ubig == uint64(iv))
		default:
			verif.Assert("C11/int64/accepted-integer-is-delivered", len(m.Bigs) == 1 && m.Bigs[0] == iv)
		}
	case "str":
		// proto3 JSON also allows the decimal-string form of 64-bit integers
		ref, ok := verif.AtoiRef(sv)
		verif.Assert("C11/int64/accepted-string-is-a-decimal-integer", ok)
		if top == 0 {
			verif.Assert("C11/int64/accepted-string-value-is-delivered", m.Big == ref)
		}
	case "null":
		if top == 2 {
			// proto3 JSON: null is not a value of a list element (protojson rejects it)
			verif.Assert("C11/int64/null-list-element-never-accepted", false) // the defect repaired in 0348d49
		}
		verif.Assert("C11/int64/null-leaves-default", m.Big == 0 && m.Ubig == 0)
	default:
		verif.Assert("C11/int64/undecodable-value-never-accepted", false)
	}
	verif.Reach("C11/int64/accepted")
}

// VerifC11TopLevel: any top-level JSON category for every custom decoder: error or
// success, never a panic; non-objects are rejected.
func VerifC11TopLevel() {
	var body []byte
	isObj := false
	switch verif.Choice("top", 8) {
	case 0:
		body = verif.JNull()
	case 1:
		body = verif.JBool(true)
	case 2:
		body = verif.JInt(7)
	case 3:
		body = verif.JStr("x")
	case 4:
		body = verif.JArr()
	case 5:
		body = verif.JInvalid()
	case 6:
		body, isObj = verif.JObj(), true
	default:
		body, isObj = verif.JObj("unknownKey", verif.JInt(1)), true
	}
	var err error
	switch verif.Choice("decoder", 7) {
	case 0:
		err = new(Int64Msg).UnmarshalJSON(body)
	case 1:
		err = new(NullableMsg).UnmarshalJSON(body)
	case 2:
		err = new(EmptyMsg).UnmarshalJSON(body)
	case 3:
		err = new(FlattenMsg).UnmarshalJSON(body)
	case 4:
		err = new(OneofMsg).UnmarshalJSON(body)
	case 5:
		err = new(OneofFlatMsg).UnmarshalJSON(body)
	default:
		err = new(BytesMsg).UnmarshalJSON(body)
	}
	verif.Show("accepted", err == nil)
	if !isObj {
		verif.Assert("C11/top-level/non-object-body-is-rejected", err != nil)
	} else if verif.Choice("top", 8) == 7 {
		_ = err
	}
	verif.Reach("C11/top-level/decided")
}

// VerifC11OneofDecoder: arbitrary discriminator and variant values for the discriminated
// oneof decoders (flattened and not): error or a message whose variant matches the
// discriminator; never a panic.
func VerifC11OneofDecoder() {
	disc, dkind, _, ds := c11Value("disc")
	switch verif.Choice("disc.valid", 3) {
	case 1:
		disc, dkind, ds = verif.JStr("text"), "str", "text"
	case 2:
		disc, dkind, ds = verif.JStr("img"), "str", "img"
	}
	flat := verif.Bool("flattened")
	if flat {
		bodyVal, _, _, _ := c11Value("body")
		var m OneofFlatMsg
		err := m.UnmarshalJSON(verif.JObj("kind", disc, "body", bodyVal, "id", verif.JStr("i")))
		if err == nil && dkind == "str" {
			verif.Assert("C11/oneof/variant-matches-discriminator", (ds == "text") == (m.GetText() != nil) && (ds == "img") == (m.GetImageData() != nil))
		}
		if err == nil && dkind != "str" && dkind != "null" {
			verif.Assert("C11/oneof/non-string-discriminator-never-accepted", false)
		}
	} else {
		textVal, _, _, _ := c11Value("text")
		var m OneofMsg
		err := m.UnmarshalJSON(verif.JObj("type", disc, "text", textVal))
		if err == nil && dkind != "str" && dkind != "null" {
			verif.Assert("C11/oneof/non-string-discriminator-never-accepted", false)
		}
	}
	verif.Reach("C11/oneof/decided")
}

// VerifC11TimeDecoder: arbitrary JSON for the three timestamp_format fields: the decoder
// never panics; when it accepts an integer for a UNIX field the instant delivered is the
// one that was sent; values of other categories are never accepted for a UNIX field.
func VerifC11TimeDecoder() {
	field := []string{"created", "updated", "day"}[verif.Choice("field", 3)]
	var v []byte
	kind, iv := "", int64(0)
	switch verif.Choice("value.kind", 7) {
	case 0:
		iv = verif.IntRange("value.int", -62135596800, 253402300799)
		v, kind = verif.JInt(iv), "int"
	case 1:
		v, kind = verif.JStr(verif.StringIn("value.str", verif.L(12), "0-9T:Z-")), "str"
	case 2:
		v, kind = verif.JRaw("1.5"), "fraction"
	case 3:
		v, kind = verif.JBool(verif.Bool("value.bool")), "bool"
	case 4:
		v, kind = verif.JNull(), "null"
	case 5:
		v, kind = verif.JArr(verif.JInt(1)), "arr"
	default:
		v, kind = verif.JObj("seconds", verif.JInt(1)), "obj"
	}
	var m TimeMsg
	err := m.UnmarshalJSON(verif.JObj(field, v, "id", verif.JStr("x")))
	verif.Show("kind", kind)
	verif.Show("accepted", err == nil)
	if err != nil {
		verif.Reach("C11/time/rejected")
		return
	}
	verif.Reach("C11/time/accepted")
	switch {
	case kind == "null":
		verif.Assert("C11/time/null-leaves-default", m.Created == nil && m.Updated == nil && m.Day == nil)
	case kind == "int" && field == "created":
		verif.Assert("C11/time/accepted-seconds-are-delivered", m.Created != nil && verif.And(m.Created.Seconds == iv, m.Created.Nanos == 0))
	case kind == "int" && field == "updated":
		verif.Assert("C11/time/accepted-millis-are-delivered", m.Updated != nil && verif.And(m.Updated.Seconds == verif.FloorDiv(iv, 1000), int64(m.Updated.Nanos) == verif.MulC(iv-verif.MulC(verif.FloorDiv(iv, 1000), 1000), 1000000)))
	case kind == "str":
		// text: an RFC 3339 / date text accepted by the library parsers (trusted) or rejected
	case field != "day" || kind != "str":
		verif.Assert("C11/time/undecodable-value-never-accepted", false)
	}
}

// VerifC11BinderRejectsTrailingData: a request body that is a complete JSON document followed
// by further non-blank data is not a JSON document: the binder of the emitted server rejects
// it for messages with and without a generated decoder (it is never "decoded up to the first
// value" and dispatched).
func VerifC11BinderRejectsTrailingData() {
	custom := verif.Bool("customDecoder")
	key := "v" // Small{v}
	if custom {
		key = "name" // Int64Msg{name}
	}
	first := verif.JObj(key, verif.JStr(verif.String("text", verif.L(2))))
	body := first
	trailing := verif.Bool("trailing")
	if trailing {
		body = verif.JTrailing(first)
	}
	r := &http.Request{Method: "POST", Header: http.Header{"Content-Type": []string{"application/json"}}, URL: &url.URL{Path: "/x"}}
	r.Body = verif.Body(body)
	var err error
	if custom {
		err = bindDataFromJSONRequest(r, &Int64Msg{})
	} else {
		err = bindDataFromJSONRequest(r, &Small{})
	}
	if trailing {
		verif.Assert("C11/binder/trailing-data-rejected", err != nil)
	} else {
		verif.Assert("C11/binder/well-formed-body-accepted", err == nil)
	}
	verif.Reach("C11/binder/decided")
}

// VerifC11FlattenChildDecoder: arbitrary JSON for the promoted keys of a flattened child that has
// no decoder of its own: a value the child's field cannot hold makes the whole decode fail; what
// is accepted is delivered.
func VerifC11FlattenChildDecoder() {
	which := verif.Choice("key", 2)
	v, kind, iv, sv := c11Value("v")
	var body []byte
	if which == 0 {
		body = verif.JObj("id", verif.JStr("a"), "streetName", v, "zipCode", verif.JInt(5))
	} else {
		body = verif.JObj("id", verif.JStr("a"), "streetName", verif.JStr("s"), "zipCode", v)
	}
	var m FlattenChildMsg
	err := m.UnmarshalJSON(body)
	verif.Show("kind", kind)
	verif.Show("accepted", err == nil)
	if err != nil {
		verif.Reach("C11/flatten-child/rejected")
		return
	}
	verif.Assert("C11/flatten-child/parent-field-delivered", m.Id == "a")
	switch {
	case kind == "null":
		if which == 0 {
			verif.Assert("C11/flatten-child/null-leaves-default", m.GetHome().GetStreetName() == "" && m.GetHome().GetZipCode() == 5)
		} else {
			verif.Assert("C11/flatten-child/null-leaves-default", m.GetHome().GetStreetName() == "s" && m.GetHome().GetZipCode() == 0)
		}
	case which == 0 && kind == "str":
		verif.Assert("C11/flatten-child/accepted-value-is-delivered", m.GetHome().GetStreetName() == sv && m.GetHome().GetZipCode() == 5)
	case which == 1 && kind == "int":
		verif.Assert("C11/flatten-child/accepted-value-is-delivered", m.GetHome().GetZipCode() == iv && m.GetHome().GetStreetName() == "s")
	case which == 1 && kind == "str":
		ref, ok := verif.AtoiRef(sv)
		verif.Assert("C11/flatten-child/accepted-string-is-a-decimal-integer", ok)
		verif.Assert("C11/flatten-child/accepted-value-is-delivered", m.GetHome().GetZipCode() == ref)
	default:
		verif.Assert("C11/flatten-child/undecodable-value-never-accepted", false)
	}
	verif.Reach("C11/flatten-child/accepted")
}
