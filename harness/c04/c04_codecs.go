package codecs

import (
	"strconv"

	verif "verifmod/zzverif"
)

// ---- reference mapping M (proto3 JSON + annotations), written from annotations.proto ----

func refSmall(m *Small) []byte { return verif.JObjOpt("v", verif.JStr(m.V), m.V != "") }

func refInt64Msg(m *Int64Msg) []byte {
	var bigs [][]byte
	for _, b := range m.Bigs {
		bigs = append(bigs, verif.JInt(b))
	}
	return verif.JObjOpt(
		"big", verif.JInt(m.Big), m.Big != 0,
		"ubig", verif.JUint(m.Ubig), m.Ubig != 0,
		"bigs", verif.JArr(bigs...), len(m.Bigs) > 0,
		"name", verif.JStr(m.Name), m.Name != "",
		"plain", verif.JStr(strconv.FormatInt(m.Plain, 10)), m.Plain != 0,
	)
}

func refNullableMsg(m *NullableMsg) []byte {
	nick, age := verif.JNull(), verif.JNull()
	if m.NickName != nil {
		nick = verif.JStr(*m.NickName)
	}
	if m.Age != nil {
		age = verif.JInt(int64(*m.Age))
	}
	return verif.JObjOpt("nickName", nick, true, "age", age, true, "id", verif.JStr(m.Id), m.Id != "")
}

func smallEmpty(s *Small) bool { return s.V == "" }

func refEmptyMsg(m *EmptyMsg) []byte {
	keep, asNull, drop := verif.JNull(), verif.JNull(), verif.JNull()
	hasKeep, hasNull, hasDrop := m.Keep != nil, m.AsNull != nil, false
	if m.Keep != nil {
		keep = refSmall(m.Keep)
	}
	if m.AsNull != nil && !smallEmpty(m.AsNull) {
		asNull = refSmall(m.AsNull)
	}
	if m.Drop != nil && !smallEmpty(m.Drop) {
		drop, hasDrop = refSmall(m.Drop), true
	}
	return verif.JObjOpt("keep", keep, hasKeep, "asNull", asNull, hasNull, "drop", drop, hasDrop, "id", verif.JStr(m.Id), m.Id != "")
}

func refFlattenMsg(m *FlattenMsg) []byte {
	return verif.JObjOpt("id", verif.JStr(m.Id), m.Id != "",
		"addr_v", verif.JStr(smallV(m.Addr)), m.Addr != nil && m.Addr.V != "")
}

func smallV(s *Small) string {
	if s == nil {
		return ""
	}
	return s.V
}

func refFlattenChildMsg(m *FlattenChildMsg) []byte {
	street, zip := "", int64(0)
	if m.Home != nil {
		street, zip = m.Home.StreetName, m.Home.ZipCode
	}
	return verif.JObjOpt("id", verif.JStr(m.Id), m.Id != "",
		"streetName", verif.JStr(street), street != "",
		"zipCode", verif.JStr(strconv.FormatInt(zip, 10)), zip != 0)
}

func refText(t *Text) []byte { return verif.JObjOpt("body", verif.JStr(t.Body), t.Body != "") }
func refImage(i *Image) []byte {
	return verif.JObjOpt("url", verif.JStr(i.Url), i.Url != "", "width", verif.JInt(int64(i.Width)), i.Width != 0,
		"altText", verif.JStr(i.AltText), i.AltText != "", "byteSize", verif.JStr(strconv.FormatInt(i.ByteSize, 10)), i.ByteSize != 0)
}

func refOneofMsg(m *OneofMsg) []byte {
	t, img := m.GetText(), m.GetImageData()
	disc := "text"
	if img != nil {
		disc = "img"
	}
	tv, iv := verif.JNull(), verif.JNull()
	if t != nil {
		tv = refText(t)
	}
	if img != nil {
		iv = refImage(img)
	}
	return verif.JObjOpt("id", verif.JStr(m.Id), m.Id != "",
		"type", verif.JStr(disc), t != nil || img != nil,
		"text", tv, t != nil, "imageData", iv, img != nil)
}

func refOneofFlatMsg(m *OneofFlatMsg) []byte {
	t, img := m.GetText(), m.GetImageData()
	disc := "text"
	if img != nil {
		disc = "img"
	}
	body, url, width, alt, size := "", "", int32(0), "", int64(0)
	if t != nil {
		body = t.Body
	}
	if img != nil {
		url, width, alt, size = img.Url, img.Width, img.AltText, img.ByteSize
	}
	return verif.JObjOpt("id", verif.JStr(m.Id), m.Id != "",
		"kind", verif.JStr(disc), t != nil || img != nil,
		"body", verif.JStr(body), body != "", "url", verif.JStr(url), url != "", "width", verif.JInt(int64(width)), width != 0,
		"altText", verif.JStr(alt), alt != "", "byteSize", verif.JStr(strconv.FormatInt(size, 10)), size != 0)
}

// ---- symbolic message values ----

func symSmall(id string) *Small {
	if !verif.Bool(id + ".present") {
		return nil
	}
	return &Small{V: verif.String(id+".v", verif.L(2))}
}

// ---- C04/C05 per message type ----

func VerifC04Int64() {
	m := &Int64Msg{Big: verif.Int64("big"), Ubig: verif.Uint64("ubig"), Name: verif.String("name", verif.L(2)), Plain: verif.Int64("plain")}
	nBigs := 3
	if verif.Thorough() {
		nBigs = 4
	}
	switch verif.Choice("bigs.len", nBigs) {
	case 1:
		m.Bigs = []int64{verif.Int64("bigs0")}
	case 2:
		m.Bigs = []int64{verif.Int64("bigs0"), verif.Int64("bigs1")}
	case 3:
		m.Bigs = []int64{verif.Int64("bigs0"), verif.Int64("bigs1"), verif.Int64("bigs2")}
	}
	data, err := m.MarshalJSON()
	verif.Assert("C04/int64/marshal-ok", err == nil)
	verif.Assert("C05/int64/wire=reference-mapping", verif.JEqual(data, refInt64Msg(m)))
	var back Int64Msg
	verif.Assert("C04/int64/unmarshal-own-output", back.UnmarshalJSON(data) == nil)
	same := verif.And(back.Big == m.Big, back.Ubig == m.Ubig, back.Name == m.Name, back.Plain == m.Plain, len(back.Bigs) == len(m.Bigs))
	for i := range m.Bigs {
		if i < len(back.Bigs) {
			same = verif.And(same, back.Bigs[i] == m.Bigs[i])
		}
	}
	verif.Assert("C04/int64/round-trip", same)
	var back2 Int64Msg
	verif.Assert("C04/int64/accepts-canonical-form", back2.UnmarshalJSON(refInt64Msg(m)) == nil && back2.Big == m.Big && back2.Ubig == m.Ubig && back2.Plain == m.Plain && back2.Name == m.Name)
	verif.Reach("C04/int64/decided")
}

func VerifC04Nullable() {
	m := &NullableMsg{Id: verif.String("id", verif.L(2))}
	if verif.Bool("nick.set") {
		s := verif.String("nick", verif.L(2))
		m.NickName = &s
	}
	if verif.Bool("age.set") {
		a := verif.Int32("age")
		m.Age = &a
	}
	data, err := m.MarshalJSON()
	verif.Assert("C04/nullable/marshal-ok", err == nil)
	verif.Assert("C05/nullable/wire=reference-mapping", verif.JEqual(data, refNullableMsg(m)))
	var back NullableMsg
	verif.Assert("C04/nullable/unmarshal-own-output", back.UnmarshalJSON(data) == nil)
	same := verif.And(back.Id == m.Id, (back.NickName == nil) == (m.NickName == nil), (back.Age == nil) == (m.Age == nil))
	if m.NickName != nil && back.NickName != nil {
		same = verif.And(same, *back.NickName == *m.NickName)
	}
	if m.Age != nil && back.Age != nil {
		same = verif.And(same, *back.Age == *m.Age)
	}
	verif.Assert("C04/nullable/round-trip", same)
	verif.Reach("C04/nullable/decided")
}

func VerifC04EmptyBehavior() {
	m := &EmptyMsg{Id: verif.String("id", verif.L(2)), Keep: symSmall("keep"), AsNull: symSmall("asNull"), Drop: symSmall("drop")}
	data, err := m.MarshalJSON()
	verif.Assert("C04/empty_behavior/marshal-ok", err == nil)
	verif.Assert("C05/empty_behavior/wire=reference-mapping", verif.JEqual(data, refEmptyMsg(m)))
	var back EmptyMsg
	verif.Assert("C04/empty_behavior/unmarshal-own-output", back.UnmarshalJSON(data) == nil)
	// documented loss: an empty child under NULL/OMIT may come back absent
	same := verif.And(back.Id == m.Id, (back.Keep == nil) == (m.Keep == nil), smallV(back.Keep) == smallV(m.Keep),
		smallV(back.AsNull) == smallV(m.AsNull), smallV(back.Drop) == smallV(m.Drop))
	verif.Assert("C04/empty_behavior/round-trip-up-to-documented-loss", same)
	verif.Reach("C04/empty_behavior/decided")
}

func VerifC04Flatten() {
	m := &FlattenMsg{Id: verif.String("id", verif.L(2)), Addr: symSmall("addr")}
	data, err := m.MarshalJSON()
	verif.Assert("C04/flatten/marshal-ok", err == nil)
	verif.Assert("C05/flatten/wire=reference-mapping", verif.JEqual(data, refFlattenMsg(m)))
	var back FlattenMsg
	uerr := back.UnmarshalJSON(data)
	verif.Show("unmarshal-error", uerr != nil)
	ok := verif.And(uerr == nil, back.Id == m.Id, smallV(back.Addr) == smallV(m.Addr))
	if m.Addr != nil && m.Addr.V != "" {
		verif.Reach("C04/flatten/child-non-default") // region of the decoder defect repaired in b096e46
	}
	verif.Assert("C04/flatten/round-trip", ok)
	verif.Reach("C04/flatten/decided")
}

func VerifC04FlattenChild() {
	m := &FlattenChildMsg{Id: verif.String("id", verif.L(2))}
	if verif.Bool("home.present") {
		m.Home = &Child{StreetName: verif.String("street", verif.L(2)), ZipCode: verif.Int64("zip")}
	}
	data, err := m.MarshalJSON()
	verif.Assert("C04/flatten-child/marshal-ok", err == nil)
	if m.Home != nil && (m.Home.StreetName != "" || m.Home.ZipCode != 0) {
		verif.Reach("C05/flatten-child/non-default") // region of the struct-tag encoding defect repaired in c03bf04
	}
	verif.Assert("C05/flatten-child/wire=reference-mapping", verif.JEqual(data, refFlattenChildMsg(m)))
	var back FlattenChildMsg
	verif.Assert("C04/flatten-child/unmarshal-own-output", back.UnmarshalJSON(data) == nil)
	same := verif.And(back.Id == m.Id, (back.Home != nil) == (m.Home != nil && (m.Home.StreetName != "" || m.Home.ZipCode != 0)))
	if back.Home != nil && m.Home != nil {
		same = verif.And(same, back.Home.StreetName == m.Home.StreetName, back.Home.ZipCode == m.Home.ZipCode)
	}
	verif.Assert("C04/flatten-child/round-trip", same)
	verif.Reach("C04/flatten-child/decided")
}

func symContent(m *OneofMsg, f *OneofFlatMsg) {
	switch verif.Choice("content", 3) {
	case 1:
		t := &Text{Body: verif.String("text.body", verif.L(2))}
		if m != nil {
			m.Content = &OneofMsg_Text{Text: t}
		} else {
			f.Content = &OneofFlatMsg_Text{Text: t}
		}
	case 2:
		i := &Image{Url: verif.String("image.url", verif.L(2)), Width: verif.Int32("image.width"), AltText: verif.String("image.alt", verif.L(2)), ByteSize: verif.Int64("image.bytes")}
		if m != nil {
			m.Content = &OneofMsg_ImageData{ImageData: i}
		} else {
			f.Content = &OneofFlatMsg_ImageData{ImageData: i}
		}
	}
}

func VerifC04Oneof() {
	m := &OneofMsg{Id: verif.String("id", verif.L(2))}
	symContent(m, nil)
	data, err := m.MarshalJSON()
	verif.Assert("C04/oneof/marshal-ok", err == nil)
	verif.Assert("C05/oneof/wire=reference-mapping", verif.JEqual(data, refOneofMsg(m)))
	var back OneofMsg
	verif.Assert("C04/oneof/unmarshal-own-output", back.UnmarshalJSON(data) == nil)
	same := verif.And(back.Id == m.Id, (back.GetText() == nil) == (m.GetText() == nil), (back.GetImageData() == nil) == (m.GetImageData() == nil))
	if m.GetText() != nil && back.GetText() != nil {
		same = verif.And(same, back.GetText().Body == m.GetText().Body)
	}
	if m.GetImageData() != nil && back.GetImageData() != nil {
		same = verif.And(same, back.GetImageData().Url == m.GetImageData().Url, back.GetImageData().Width == m.GetImageData().Width,
			back.GetImageData().AltText == m.GetImageData().AltText, back.GetImageData().ByteSize == m.GetImageData().ByteSize)
	}
	verif.Assert("C04/oneof/round-trip", same)
	verif.Reach("C04/oneof/decided")
}

func VerifC04OneofFlat() {
	m := &OneofFlatMsg{Id: verif.String("id", verif.L(2))}
	symContent(nil, m)
	data, err := m.MarshalJSON()
	verif.Assert("C04/oneof-flat/marshal-ok", err == nil)
	verif.Assert("C05/oneof-flat/wire=reference-mapping", verif.JEqual(data, refOneofFlatMsg(m)))
	var back OneofFlatMsg
	verif.Assert("C04/oneof-flat/unmarshal-own-output", back.UnmarshalJSON(data) == nil)
	same := verif.And(back.Id == m.Id, (back.GetText() == nil) == (m.GetText() == nil), (back.GetImageData() == nil) == (m.GetImageData() == nil))
	if m.GetText() != nil && back.GetText() != nil {
		same = verif.And(same, back.GetText().Body == m.GetText().Body)
	}
	if m.GetImageData() != nil && back.GetImageData() != nil {
		same = verif.And(same, back.GetImageData().Url == m.GetImageData().Url, back.GetImageData().Width == m.GetImageData().Width,
			back.GetImageData().AltText == m.GetImageData().AltText, back.GetImageData().ByteSize == m.GetImageData().ByteSize)
	}
	verif.Assert("C04/oneof-flat/round-trip", same)
	verif.Reach("C04/oneof-flat/decided")
}

func VerifC04Bytes() {
	m := &BytesMsg{Id: verif.String("id", verif.L(2)), HexData: []byte(verif.String("hex", verif.L(2))), UrlData: []byte(verif.String("url", verif.L(2)))}
	data, err := m.MarshalJSON()
	verif.Assert("C04/bytes/marshal-ok", err == nil)
	var back BytesMsg
	verif.Assert("C04/bytes/unmarshal-own-output", back.UnmarshalJSON(data) == nil)
	verif.Assert("C04/bytes/round-trip", verif.And(back.Id == m.Id, string(back.HexData) == string(m.HexData), string(back.UrlData) == string(m.UrlData)))
	verif.Reach("C04/bytes/decided")
}

func VerifC05FlattenAnnotatedChild() {
	m := &FlattenAnnotatedMsg{Id: verif.String("id", verif.L(2))}
	if verif.Bool("stats.present") {
		m.Stats = &Int64Msg{Big: verif.Int64("stats.big"), Name: verif.String("stats.name", verif.L(2)), Plain: verif.Int64("stats.plain")}
	}
	data, err := m.MarshalJSON()
	verif.Assert("C05/flatten-annotated/marshal-ok", err == nil)
	big, name, plain := int64(0), "", int64(0)
	if m.Stats != nil {
		big, name, plain = m.Stats.Big, m.Stats.Name, m.Stats.Plain
	}
	want := verif.JObjOpt("id", verif.JStr(m.Id), m.Id != "",
		"s_big", verif.JInt(big), big != 0,
		"s_name", verif.JStr(name), name != "",
		"s_plain", verif.JStr(strconv.FormatInt(plain, 10)), plain != 0)
	verif.Assert("C05/flatten-annotated/child-keeps-its-own-annotations", verif.JEqual(data, want))
	verif.Reach("C05/flatten-annotated/decided")
}

// VerifC04FlattenSameName: a flattened field whose own JSON name equals one of the promoted
// child keys (Price{ Money amount [flatten] } with Money{currency_code, amount}).
func VerifC04FlattenSameName() {
	m := &PriceMsg{Sku: verif.String("sku", verif.L(2))}
	if verif.Bool("amount.present") {
		m.Amount = &Money{CurrencyCode: verif.String("currency", verif.L(2)), Amount: verif.Int64("amount")}
	}
	data, err := m.MarshalJSON()
	verif.Assert("C04/flatten-same-name/marshal-ok", err == nil)
	cur, amt := "", int64(0)
	if m.Amount != nil {
		cur, amt = m.Amount.CurrencyCode, m.Amount.Amount
	}
	want := verif.JObjOpt("sku", verif.JStr(m.Sku), m.Sku != "", "currencyCode", verif.JStr(cur), cur != "",
		"amount", verif.JStr(strconv.FormatInt(amt, 10)), amt != 0)
	verif.Assert("C05/flatten-same-name/wire=reference-mapping", verif.JEqual(data, want))
	var back PriceMsg
	verif.Assert("C04/flatten-same-name/unmarshal-own-output", back.UnmarshalJSON(data) == nil)
	same := verif.And(back.Sku == m.Sku, (back.Amount != nil) == (cur != "" || amt != 0))
	if back.Amount != nil {
		same = verif.And(same, back.Amount.CurrencyCode == cur, back.Amount.Amount == amt)
	}
	verif.Assert("C04/flatten-same-name/round-trip", same)
	verif.Reach("C04/flatten-same-name/decided")
}
