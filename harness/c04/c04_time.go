package codecs

import (
	"google.golang.org/protobuf/types/known/timestamppb"

	verif "verifmod/zzverif"
)

// valid Timestamps: 0001-01-01T00:00:00Z .. 9999-12-31T23:59:59.999999999Z
const (
	c04MinSec = -62135596800
	c04MaxSec = 253402300799
)

func symTimestamp(name string) *timestamppb.Timestamp {
	if !verif.Bool(name + ".set") {
		return nil
	}
	s, n := verif.IntRange(name+".seconds", c04MinSec, c04MaxSec), verif.IntRange32(name+".nanos", 0, 999999999)
	return &timestamppb.Timestamp{Seconds: s, Nanos: n}
}

// refTimeMsg: UNIX_SECONDS -> integer seconds (nanos dropped), UNIX_MILLIS -> integer
// milliseconds (sub-millisecond dropped), DATE -> "YYYY-MM-DD" of the UTC day, unannotated ->
// RFC 3339.
func refTimeMsg(m *TimeMsg) []byte {
	created, updated, day, plain := verif.JNull(), verif.JNull(), verif.JNull(), verif.JNull()
	if m.Created != nil {
		created = verif.JInt(m.Created.Seconds)
	}
	if m.Updated != nil {
		updated = verif.JInt(verif.MulC(m.Updated.Seconds, 1000) + verif.FloorDiv(int64(m.Updated.Nanos), 1000000))
	}
	if m.Day != nil {
		day = verif.JStr(verif.TimeDate(m.Day.Seconds))
	}
	if m.Plain != nil {
		plain = verif.JStr(verif.TimeRFC3339(m.Plain.Seconds, m.Plain.Nanos))
	}
	return verif.JObjOpt("created", created, m.Created != nil, "updated", updated, m.Updated != nil,
		"day", day, m.Day != nil, "plain", plain, m.Plain != nil, "id", verif.JStr(m.Id), m.Id != "")
}

func tsEq(a *timestamppb.Timestamp, sec int64, nanos int64) bool {
	return a != nil && verif.And(a.Seconds == sec, int64(a.Nanos) == nanos)
}

// VerifC04Time: timestamp_format codecs: the wire form is the documented one and decoding
// returns the instant up to the documented truncation of each format.
func VerifC04Time() {
	m := &TimeMsg{Id: verif.String("id", verif.L(2)), Created: symTimestamp("created"), Updated: symTimestamp("updated"), Day: symTimestamp("day"), Plain: symTimestamp("plain")}
	data, err := m.MarshalJSON()
	verif.Assert("C04/time/marshal-ok", err == nil)
	verif.Assert("C05/time/wire=reference-mapping", verif.JEqual(data, refTimeMsg(m)))
	var back TimeMsg
	verif.Assert("C04/time/unmarshal-own-output", back.UnmarshalJSON(data) == nil)
	same := verif.And(back.Id == m.Id, (back.Created == nil) == (m.Created == nil), (back.Updated == nil) == (m.Updated == nil),
		(back.Day == nil) == (m.Day == nil), (back.Plain == nil) == (m.Plain == nil))
	if m.Created != nil {
		same = verif.And(same, tsEq(back.Created, m.Created.Seconds, 0))
	}
	if m.Updated != nil {
		ms := verif.FloorDiv(int64(m.Updated.Nanos), 1000000)
		same = verif.And(same, tsEq(back.Updated, m.Updated.Seconds, verif.MulC(ms, 1000000)))
	}
	if m.Day != nil {
		same = verif.And(same, tsEq(back.Day, verif.MulC(verif.FloorDiv(m.Day.Seconds, 86400), 86400), 0))
	}
	if m.Plain != nil {
		same = verif.And(same, tsEq(back.Plain, m.Plain.Seconds, int64(m.Plain.Nanos)))
	}
	verif.Assert("C04/time/round-trip-up-to-documented-truncation", same)
	var back2 TimeMsg
	verif.Assert("C04/time/accepts-canonical-form", back2.UnmarshalJSON(refTimeMsg(m)) == nil)
	verif.Reach("C04/time/decided")
}
