package roundtrip

import (
	"context"
	"errors"
	"fmt"
	"net/http"
	"net/url"

	"google.golang.org/protobuf/encoding/protojson"
	"google.golang.org/protobuf/proto"

	sebufhttp "github.com/SebastienMelki/sebuf/http"

	verif "verifmod/zzverif"
)

var c10ContentTypes = []string{"application/json", "application/x-protobuf", "application/octet-stream", "", "application/json; charset=utf-8", "text/plain"}

func c10Binary(ct string) bool {
	return ct == "application/x-protobuf" || ct == "application/octet-stream"
}

// c10Decode decodes a response body in the encoding the request's content type selects.
func c10Decode(body []byte, ct string, m proto.Message) bool {
	if c10Binary(ct) {
		return proto.Unmarshal(body, m) == nil
	}
	return protojson.Unmarshal(body, m) == nil
}

// VerifC10HandlerError: a handler error goes through genericHandler and
// writeErrorWithHandler with an arbitrary error hook; then the emitted client maps
// the response to an error value.
func VerifC10HandlerError() {
	ct := c10ContentTypes[verif.Choice("contentType", len(c10ContentTypes))]
	r := &http.Request{Method: "POST", Header: http.Header{}, URL: &url.URL{Path: "/api/v1/things"}}
	if ct != "" {
		r.Header["Content-Type"] = []string{ct}
	}
	msg := verif.String("err.message", verif.L(4))
	fld, desc := verif.String("violation.field", verif.L(4)), verif.String("violation.description", verif.L(4))
	rt, rid := verif.String("nf.type", verif.L(3)), verif.String("nf.id", verif.L(3))
	var herr error
	src := verif.Choice("errorSource", 6)
	isValidation, isCustom := false, false
	switch src {
	case 0:
		herr = errors.New(msg)
	case 1:
		herr = &sebufhttp.Error{Message: msg}
	case 2:
		herr = &sebufhttp.ValidationError{Violations: []*sebufhttp.FieldViolation{{Field: fld, Description: desc}}}
		isValidation = true
	case 3:
		herr = &NotFoundError{ResourceType: rt, ResourceId: rid}
		isCustom = true
	case 4:
		herr = fmt.Errorf("wrapped: %w", &sebufhttp.Error{Message: msg})
	default:
		herr = &sebufhttp.ValidationError{}
		isValidation = true
	}
	// error hook: arbitrary behaviour within its documented interface
	hookMode := verif.Choice("hook", 3) // 0 none, 1 returns nil, 2 returns a message
	setsHeader, setsStatus, writes := false, false, false
	code := []int{400, 404, 409, 503}[verif.Choice("hook.status", 4)]
	var hook ErrorHandler
	var hookSaw error
	if hookMode != 0 {
		setsHeader, setsStatus, writes = verif.Bool("hook.setsHeader"), verif.Bool("hook.setsStatus"), verif.Bool("hook.writesBody")
		hook = func(w http.ResponseWriter, _ *http.Request, err error) proto.Message {
			hookSaw = err
			if setsHeader {
				w.Header().Set("X-Hook", "1")
			}
			if setsStatus {
				w.WriteHeader(code)
			}
			if writes {
				_, _ = w.Write([]byte("custom"))
			}
			if hookMode == 2 {
				return &sebufhttp.Error{Message: "from-hook"}
			}
			return nil
		}
	}
	w := verif.NewRecorder()
	serve := func(context.Context, *CreateReq) (*Thing, error) { return nil, herr }
	genericHandler(serve, hook).ServeHTTP(w, r)

	verif.Show("status", w.Status)
	verif.Show("writes", w.Writes)
	// ---- status ----
	wantStatus := 500
	if setsStatus {
		wantStatus = code
	} else if writes {
		wantStatus = 200 // the hook's own Write commits 200, as net/http documents
	}
	if isValidation && !setsStatus && !writes {
		// a ValidationError returned by the handler: the statement allows 400 (validation) and says 500 (handler error)
		verif.Assert("C10/handler/status-validation", w.Status == 400 || w.Status == 500)
	} else {
		verif.Assert("C10/handler/status", w.Status == wantStatus)
	}
	if hookMode != 0 {
		verif.Assert("C10/handler/hook-sees-an-error", hookSaw != nil)
		if setsHeader {
			verif.Assert("C10/handler/hook-header-kept", w.Frozen.Get("X-Hook") == "1")
		}
	}
	// ---- body ----
	if writes {
		verif.Assert("C10/handler/hook-body-is-final", w.Writes == 1 && string(w.Body) == "custom")
		verif.Reach("C10/handler/hook-wrote")
		return
	}
	verif.Assert("C10/handler/one-body-write", w.Writes == 1)
	if !setsStatus {
		wantCT := "application/json"
		if c10Binary(ct) {
			wantCT = "application/x-protobuf"
		}
		verif.Assert("C10/handler/content-type-header", w.Frozen.Get("Content-Type") == wantCT)
	}
	switch {
	case hookMode == 2:
		var got sebufhttp.Error
		verif.Assert("C10/handler/hook-message-is-body", c10Decode(w.Body, ct, &got) && got.Message == "from-hook")
	case isValidation:
		var got sebufhttp.ValidationError
		ok := c10Decode(w.Body, ct, &got)
		if src == 2 {
			verif.Assert("C10/handler/violations-in-body", ok && len(got.Violations) == 1 && got.Violations[0].Field == fld && got.Violations[0].Description == desc)
		} else {
			verif.Assert("C10/handler/violations-in-body", ok && len(got.Violations) == 0)
		}
	case isCustom:
		var got NotFoundError
		verif.Assert("C10/handler/custom-error-serialised-as-itself", c10Decode(w.Body, ct, &got) && got.ResourceType == rt && got.ResourceId == rid)
	default:
		var got sebufhttp.Error
		ok := c10Decode(w.Body, ct, &got)
		want := msg
		if src == 4 {
			want = "wrapped: " + (&sebufhttp.Error{Message: msg}).Error()
		} else if src == 1 {
			want = msg
		}
		if src == 1 && msg == "" {
			// *sebufhttp.Error with empty message: serialised as itself (empty message)
			verif.Assert("C10/handler/message-in-body", ok && got.Message == "")
		} else {
			verif.Assert("C10/handler/message-in-body", ok && got.Message == want)
		}
	}

	// ---- client side: what the emitted Go client makes of this response ----
	if w.Status >= 400 {
		clientCT := "application/json"
		if c10Binary(ct) {
			clientCT = "application/x-protobuf"
		}
		bodyIsVE := isValidation && hookMode != 2
		bodyIsError := hookMode == 2 || (!isValidation && !isCustom)
		// binary transport: decoding bytes of one message type as another type is outside the model
		binaryInModel := (w.Status == 400 && bodyIsVE) || (w.Status != 400 && bodyIsError)
		if ct == "application/json" || (ct == "application/x-protobuf" && binaryInModel) {
			c := &thingServiceClient{}
			cerr := c.handleErrorResponse(w.Status, w.Body, clientCT)
			verif.Assert("C10/client/returns-error", cerr != nil)
			var cv *sebufhttp.ValidationError
			var ce *sebufhttp.Error
			switch {
			case w.Status == 400 && isValidation && hookMode != 2:
				okV := errors.As(cerr, &cv)
				if src == 2 {
					verif.Assert("C10/client/400-is-validation-error-with-same-violations", okV && len(cv.Violations) == 1 && cv.Violations[0].Field == fld && cv.Violations[0].Description == desc)
				} else {
					verif.Assert("C10/client/400-is-validation-error-with-same-violations", okV && len(cv.Violations) == 0)
				}
			case hookMode == 2:
				verif.Assert("C10/client/error-carries-message", errors.As(cerr, &ce) && ce.Message == "from-hook" && !errors.As(cerr, &cv))
			case isCustom && clientCT == "application/json" && (rt != "" || rid != ""):
				// (an all-default custom error serialises as {} and cannot be told apart)
				// a custom error message is neither an Error nor a ValidationError: the client
				// must fall back to an error carrying status and body
				verif.Assert("C10/client/custom-error-is-not-mistyped", !errors.As(cerr, &ce) && !errors.As(cerr, &cv))
			case !isValidation && !isCustom && !(src == 1 && msg == "") && !(src == 0 && msg == ""):
				verif.Assert("C10/client/error-carries-message", errors.As(cerr, &ce) && ce.Message != "" && !errors.As(cerr, &cv))
			}
			verif.Reach("C10/client/mapped")
		}
	}
	verif.Reach("C10/handler/decided")
}
