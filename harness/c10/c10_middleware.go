package roundtrip

import (
	"errors"
	"net/http"
	"net/url"

	"google.golang.org/protobuf/proto"

	sebufhttp "github.com/SebastienMelki/sebuf/http"

	verif "verifmod/zzverif"
)

// VerifC10RequestErrors: every way a request can be refused before the handler runs (missing
// required header, body that does not parse, URL value that does not convert, required URL
// parameter absent) goes through the configured error hook like any other error: the hook sees
// the ValidationError and decides status, headers and body; without a hook the answer is 400
// with the ValidationError.
func VerifC10RequestErrors() {
	source := verif.Choice("refusal", 4)
	hookMode := verif.Choice("hook", 3) // 0 none, 1 returns nil, 2 returns a message
	setsHeader, setsStatus, writes := false, false, false
	code := []int{422, 404, 409, 503}[verif.Choice("hook.status", 4)]
	var hookSaw error
	opts := []ServerOption{}
	mux := http.NewServeMux()
	opts = append(opts, WithMux(mux))
	if hookMode != 0 {
		setsHeader, setsStatus, writes = verif.Bool("hook.setsHeader"), verif.Bool("hook.setsStatus"), verif.Bool("hook.writesBody")
		opts = append(opts, WithErrorHandler(func(w http.ResponseWriter, _ *http.Request, err error) proto.Message {
			hookSaw = err
			if setsHeader {
				w.Header().Set("X-Hook", "1")
			}
			if setsStatus {
				w.WriteHeader(code)
			}
			if writes {
				_, _ = w.Write([]byte("custom"))
			}
			if hookMode == 2 {
				return &sebufhttp.Error{Message: "from-hook"}
			}
			return nil
		}))
	}
	srv := &c01Server{ret: &Thing{Id: "x"}}
	verif.Assert("C10/request/register", RegisterThingServiceServer(srv, opts...) == nil)
	r := &http.Request{Header: http.Header{}, URL: &url.URL{}}
	r.Header["Content-Type"] = []string{"application/json"}
	r.Header["X-Api-Key"] = []string{"k"}
	r.Body = verif.Body(nil)
	switch source {
	case 0: // required service header absent
		delete(r.Header, "X-Api-Key")
		r.Method, r.URL.Path = "POST", "/api/v1/things"
		r.Body = verif.Body(verif.JObj("note", verif.JStr("n")))
	case 1: // body that does not parse
		r.Method, r.URL.Path = "POST", "/api/v1/things"
		r.Body = verif.Body(verif.JInvalid())
	case 2: // query value that does not convert
		r.Method, r.URL.Path = "GET", "/api/v1/things/a"
		verif.SetQuery(r, url.Values{"big": {"5"}, "page": {"zz"}})
	default: // required query parameter absent
		r.Method, r.URL.Path = "GET", "/api/v1/things/a"
		verif.SetQuery(r, url.Values{})
	}
	w := verif.NewRecorder()
	mux.ServeHTTP(w, r)
	verif.Show("status", w.Status)
	verif.Assert("C10/request/handler-not-invoked", srv.calls == 0)
	if hookMode != 0 {
		var ve *sebufhttp.ValidationError
		verif.Assert("C10/request/hook-sees-the-validation-error", hookSaw != nil && errors.As(hookSaw, &ve))
		if setsHeader {
			verif.Assert("C10/request/hook-header-kept", w.Frozen.Get("X-Hook") == "1")
		}
	}
	wantStatus := 400
	if setsStatus {
		wantStatus = code
	} else if writes {
		wantStatus = 200
	}
	verif.Assert("C10/request/status", w.Status == wantStatus)
	if writes {
		verif.Assert("C10/request/hook-body-is-final", w.Writes == 1 && string(w.Body) == "custom")
		verif.Reach("C10/request/hook-wrote")
		return
	}
	verif.Assert("C10/request/one-body-write", w.Writes == 1)
	if hookMode == 2 {
		var got sebufhttp.Error
		verif.Assert("C10/request/hook-message-is-body", c10Decode(w.Body, "application/json", &got) && got.Message == "from-hook")
	} else {
		var got sebufhttp.ValidationError
		verif.Assert("C10/request/validation-error-is-body", c10Decode(w.Body, "application/json", &got) && len(got.Violations) == 1)
	}
	verif.Reach("C10/request/decided")
}
