// Package zzverif is the harness support library of /verif. It is injected into
// the module under test through a build overlay (never written under /repo).
//
// Symbolically (engine gosym) every function of the "nondet / obligation" API is
// intercepted; natively the same functions read a replay vector
// (VERIF_REPLAY=<file.json>) so that a solver counterexample can be re-executed
// against the real code with `go test`.
package zzverif

import (
	"encoding/json"
	"fmt"
	"math"
	"math/big"
	"os"
	"sort"
	"strconv"
	"time"
)

type stopHarness struct{ why string }

var (
	replay   map[string]interface{}
	seen     = map[string]int{}
	Failed   []string // ids of failed Assert/Expect in native mode
	Reached  []string
	Shown    = map[string]string{}
	loadOnce bool
)

// LoadReplay makes the nondet functions return the values of the given replay file.
func LoadReplay(path string) {
	loadOnce = false
	os.Setenv("VERIF_REPLAY", path)
	load()
}

func load() {
	if loadOnce {
		return
	}
	loadOnce = true
	replay = map[string]interface{}{}
	if p := os.Getenv("VERIF_REPLAY"); p != "" {
		b, err := os.ReadFile(p)
		if err != nil {
			panic(err)
		}
		var doc struct {
			Model map[string]interface{} `json:"model"`
		}
		if err := json.Unmarshal(b, &doc); err != nil {
			panic(err)
		}
		replay = doc.Model
	}
}

func key(name string) string {
	load()
	seen[name]++
	if n := seen[name]; n > 1 {
		return fmt.Sprintf("%s#%d", name, n)
	}
	return name
}

func rawInt(name string) int64 {
	v, ok := replay[key(name)]
	if !ok {
		return 0
	}
	switch x := v.(type) {
	case string:
		i, err := strconv.ParseInt(x, 10, 64)
		if err != nil {
			u, _ := strconv.ParseUint(x, 10, 64)
			return int64(u)
		}
		return i
	case float64:
		return int64(x)
	}
	return 0
}

func Bool(name string) bool {
	v, _ := replay[key(name)].(bool)
	return v
}
func Int32(name string) int32   { return int32(rawInt(name)) }
func Int64(name string) int64   { return rawInt(name) }
func Int(name string) int       { return int(rawInt(name)) }
func Uint32(name string) uint32 { return uint32(rawInt(name)) }
func Uint64(name string) uint64 { return uint64(rawInt(name)) }
func Byte(name string) byte     { return byte(rawInt(name)) }

func Float64(name string) float64 {
	v, ok := replay[key(name)]
	if !ok {
		return 0
	}
	switch x := v.(type) {
	case string:
		switch x {
		case "NaN":
			return math.NaN()
		case "+Inf":
			return math.Inf(1)
		case "-Inf":
			return math.Inf(-1)
		case "-0":
			return math.Copysign(0, -1)
		}
		f, _ := strconv.ParseFloat(x, 64)
		return f
	case float64:
		return x
	}
	return 0
}
func Float32(name string) float32 { return float32(Float64(name)) }

// String returns an arbitrary printable-ASCII string of length <= maxLen.
func String(name string, maxLen int) string {
	v, _ := replay[key(name)].(string)
	return v
}

// StringIn returns an arbitrary string over the character class (e.g. "a-z0-9_/").
func StringIn(name string, maxLen int, alphabet string) string {
	v, _ := replay[key(name)].(string)
	return v
}

// Choice returns an arbitrary value in [0,n).
func Choice(name string, n int) int { return int(rawInt(name)) }

// Assume restricts the inputs under consideration.
func Assume(c bool) {
	if !c {
		panic(stopHarness{"assumption false"})
	}
}

// Assert states a property obligation.
func Assert(id string, c bool) {
	if !c {
		Failed = append(Failed, id)
		fmt.Printf("ASSERT-FAIL %s\n", id)
		panic(stopHarness{"assert " + id})
	}
}

// Expect states an obligation that is listed as a known finding: it is decided
// like Assert, but a counterexample is reported as KNOWN-FINDING by the driver.
func Expect(id string, c bool) {
	if !c {
		Failed = append(Failed, id)
		fmt.Printf("EXPECT-FAIL %s\n", id)
	}
}

// Reach marks a program point that must be reachable (vacuity guard).
func Reach(id string) { Reached = append(Reached, id) }

// Show attaches a labelled value to counterexamples.
func Show(label string, v interface{}) {
	Shown[label] = fmt.Sprint(v)
}

// Symbolic reports whether the harness runs under the symbolic engine.
func Symbolic() bool { return false }

// Run executes a harness natively and prints a report.
func Run(name string, f func()) (failed []string) {
	Failed, Reached = nil, nil
	Shown = map[string]string{}
	seen = map[string]int{}
	func() {
		defer func() {
			if r := recover(); r != nil {
				if s, ok := r.(stopHarness); ok {
					fmt.Printf("HARNESS-STOP %s: %s\n", name, s.why)
					return
				}
				Failed = append(Failed, "no-panic")
				fmt.Printf("GO-PANIC %s: %v\n", name, r)
			}
		}()
		f()
	}()
	keys := make([]string, 0, len(Shown))
	for k := range Shown {
		keys = append(keys, k)
	}
	sort.Strings(keys)
	for _, k := range keys {
		fmt.Printf("SHOW %s = %q\n", k, Shown[k])
	}
	fmt.Printf("REPLAY-RESULT %s failed=%v reached=%v\n", name, Failed, Reached)
	return Failed
}

// Seg returns an arbitrary non-empty identifier-like segment over [a-z_].
func Seg(name string, max int) string {
	s := StringIn(name, max, "a-z_")
	Assume(s != "")
	return s
}

// RunBatch replays every entry of the batch file named by VERIF_REPLAY_BATCH:
// a JSON list of {"harness": name, "file": replay file}. Output is framed by
// BEGIN-REPLAY / END-REPLAY lines so the driver can attribute results.
func RunBatch(harnesses map[string]func()) {
	p := os.Getenv("VERIF_REPLAY_BATCH")
	if p == "" {
		return
	}
	b, err := os.ReadFile(p)
	if err != nil {
		panic(err)
	}
	var batch []struct {
		Harness string `json:"harness"`
		File    string `json:"file"`
	}
	if err := json.Unmarshal(b, &batch); err != nil {
		panic(err)
	}
	for i, e := range batch {
		f, ok := harnesses[e.Harness]
		fmt.Printf("BEGIN-REPLAY %d %s %s\n", i, e.Harness, e.File)
		if !ok {
			fmt.Printf("UNKNOWN-HARNESS %s\n", e.Harness)
		} else {
			LoadReplay(e.File)
			Run(e.Harness, f)
		}
		fmt.Printf("END-REPLAY %d\n", i)
	}
}

// Thorough reports whether the thorough tier was requested (VERIF_TIER=thorough).
func Thorough() bool { return os.Getenv("VERIF_TIER") == "thorough" }

// StringN returns an arbitrary string of exactly n characters over the class
// (empty class: printable ASCII).
func StringN(name string, n int, alphabet string) string {
	v, _ := replay[key(name)].(string)
	return v
}

// And/Or/Not/Implies combine conditions without branching (the symbolic engine
// builds one formula instead of forking on each operand).
func And(cs ...bool) bool {
	for _, c := range cs {
		if !c {
			return false
		}
	}
	return true
}
func Or(cs ...bool) bool {
	for _, c := range cs {
		if c {
			return true
		}
	}
	return false
}
func Implies(a, b bool) bool { return !a || b }

// CmpIntFloat compares an integer with a float64 exactly (-1, 0, +1); NaN compares as +1.
func CmpIntFloat(v int64, f float64) int {
	bf := new(big.Float).SetInt64(v)
	if math.IsNaN(f) {
		return 1
	}
	if math.IsInf(f, 1) {
		return -1
	}
	if math.IsInf(f, -1) {
		return 1
	}
	return bf.Cmp(big.NewFloat(f))
}

// Budget runs f and requires it to finish within a work budget: symbolically
// maxSteps executed SSA instructions and the engine's call-depth bound; natively
// maxMillis of wall time (unbounded recursion crashes the replay process with a
// stack overflow, which the driver also takes as confirmation).
func Budget(id string, maxSteps int, maxMillis int, f func()) {
	done := make(chan struct{})
	var rec interface{}
	go func() {
		defer func() {
			rec = recover()
			close(done)
		}()
		f()
	}()
	select {
	case <-done:
		if rec != nil {
			panic(rec)
		}
	case <-time.After(time.Duration(maxMillis) * time.Millisecond):
		Assert(id, false)
	}
}

// ExpectBudget is Budget for an obligation listed as a known finding.
func ExpectBudget(id string, maxSteps int, maxMillis int, f func()) {
	done := make(chan struct{})
	go func() {
		defer func() { recover(); close(done) }()
		f()
	}()
	select {
	case <-done:
	case <-time.After(time.Duration(maxMillis) * time.Millisecond):
		Expect(id, false)
	}
}

// GoCamelCase is protoc-gen-go's field-name rule (google.golang.org/protobuf/internal/strs,
// BSD-licensed, reproduced because the package is internal): the identifier
// protoc-gen-go declares for a proto field name.
func GoCamelCase(s string) string {
	lower := func(c byte) bool { return 'a' <= c && c <= 'z' }
	digit := func(c byte) bool { return '0' <= c && c <= '9' }
	var b []byte
	for i := 0; i < len(s); i++ {
		c := s[i]
		switch {
		case c == '.' && i+1 < len(s) && lower(s[i+1]):
		case c == '.':
			b = append(b, '_')
		case c == '_' && (i == 0 || s[i-1] == '.'):
			b = append(b, 'X')
		case c == '_' && i+1 < len(s) && lower(s[i+1]):
		case digit(c):
			b = append(b, c)
		default:
			if lower(c) {
				c -= 'a' - 'A'
			}
			b = append(b, c)
			for ; i+1 < len(s) && lower(s[i+1]); i++ {
				b = append(b, s[i+1])
			}
		}
	}
	return string(b)
}

// L scales a string-length bound with the tier: n in the quick tier, a larger bound in the
// thorough tier (n+2 up to 4, n+4 beyond).
func L(n int) int {
	if !Thorough() {
		return n
	}
	if n <= 4 {
		return n + 2
	}
	return n + 4
}
