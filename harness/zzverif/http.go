package zzverif

import (
	"bytes"
	"io"
	"regexp"
	"unicode/utf8"
)

// Matches reports whether s matches the (RE2) pattern entirely. Symbolically it
// becomes an SMT regular-expression membership constraint.
func Matches(s, pattern string) bool {
	return regexp.MustCompile("^(?:" + pattern + ")$").MatchString(s)
}

func ValidUTF8(s string) bool { return utf8.ValidString(s) }

type countingBody struct {
	r *bytes.Reader
}

var bodyReads int

func (b *countingBody) Read(p []byte) (int, error) {
	bodyReads++
	return b.r.Read(p)
}
func (b *countingBody) Close() error { return nil }

// Body wraps bytes as a request body whose reads are counted (BodyReads).
func Body(b []byte) io.ReadCloser {
	bodyReads = 0
	return &countingBody{r: bytes.NewReader(b)}
}

// BodyReads reports how many times the last Body was read from (0: never touched).
func BodyReads() int { return bodyReads }

func bytesReader(b []byte) *bytes.Reader { return bytes.NewReader(b) }
