package zzverif

import (
	"encoding/json"
	"net/http"
	"net/url"
	"reflect"
	"strconv"
	"strings"
	"time"

	"google.golang.org/protobuf/encoding/protojson"
	"google.golang.org/protobuf/types/known/timestamppb"
)

// ---- JSON builders (natively: JSON text; symbolically: abstract documents) ----

func JStr(s string) []byte   { b, _ := json.Marshal(s); return b }
func JInt(i int64) []byte    { return []byte(strconv.FormatInt(i, 10)) }
func JBool(b bool) []byte    { return []byte(strconv.FormatBool(b)) }
func JNull() []byte          { return []byte("null") }
func JInvalid() []byte       { return []byte(`{"unterminated`) }

// JTrailing is the text of doc followed by further non-blank data.
func JTrailing(doc []byte) []byte { return append(append([]byte{}, doc...), []byte(` {"x":1}`)...) }
func JArr(elems ...[]byte) []byte {
	out := []byte("[")
	for i, e := range elems {
		if i > 0 {
			out = append(out, ',')
		}
		out = append(out, e...)
	}
	return append(out, ']')
}

// JObj builds an object from alternating keys (string) and values ([]byte).
func JObj(kv ...interface{}) []byte {
	out := []byte("{")
	for i := 0; i+1 < len(kv); i += 2 {
		if i > 0 {
			out = append(out, ',')
		}
		k, _ := json.Marshal(kv[i].(string))
		out = append(out, k...)
		out = append(out, ':')
		out = append(out, kv[i+1].([]byte)...)
	}
	return append(out, '}')
}

func jparse(doc []byte) (interface{}, bool) {
	var v interface{}
	d := json.NewDecoder(bytesReader(doc))
	d.UseNumber()
	if err := d.Decode(&v); err != nil {
		return nil, false
	}
	return v, true
}

// JField returns the value of key in an object document.
func JField(doc []byte, key string) ([]byte, bool) {
	var m map[string]json.RawMessage
	if err := json.Unmarshal(doc, &m); err != nil {
		return nil, false
	}
	v, ok := m[key]
	return v, ok
}

// JKind: null bool num str arr obj invalid
func JKind(doc []byte) string {
	v, ok := jparse(doc)
	if !ok {
		return "invalid"
	}
	switch v.(type) {
	case nil:
		return "null"
	case bool:
		return "bool"
	case json.Number:
		return "num"
	case string:
		return "str"
	case []interface{}:
		return "arr"
	case map[string]interface{}:
		return "obj"
	}
	return "invalid"
}

func JAsString(doc []byte) string {
	var s string
	json.Unmarshal(doc, &s)
	return s
}

func JAsInt(doc []byte) int64 {
	var n json.Number
	json.Unmarshal(doc, &n)
	i, _ := n.Int64()
	return i
}

func JLen(doc []byte) int {
	v, _ := jparse(doc)
	switch x := v.(type) {
	case []interface{}:
		return len(x)
	case map[string]interface{}:
		return len(x)
	}
	return 0
}

func JIndex(doc []byte, i int) []byte {
	var a []json.RawMessage
	json.Unmarshal(doc, &a)
	if i < len(a) {
		return a[i]
	}
	return nil
}

// ---- HTTP helpers ----

// Recorder is a minimal http.ResponseWriter following net/http's rule that the
// status and headers are frozen by the first WriteHeader/Write.
type Recorder struct {
	Hdr         http.Header
	Frozen      http.Header
	Status      int
	Body        []byte
	WroteHeader bool
	Writes      int
}

func NewRecorder() *Recorder { return &Recorder{Hdr: http.Header{}} }

func (r *Recorder) Header() http.Header { return r.Hdr }
func (r *Recorder) WriteHeader(code int) {
	if r.WroteHeader {
		return
	}
	r.WroteHeader = true
	r.Status = code
	r.Frozen = http.Header{}
	for k, v := range r.Hdr {
		r.Frozen[k] = v
	}
}
func (r *Recorder) Write(b []byte) (int, error) {
	if !r.WroteHeader {
		r.WriteHeader(http.StatusOK)
	}
	r.Writes++
	r.Body = b
	return len(b), nil
}

// SetQuery installs the query string of a request.
func SetQuery(r *http.Request, q url.Values) {
	if r.URL == nil {
		r.URL = &url.URL{}
	}
	r.URL.RawQuery = q.Encode()
}

// AtoiRef is the reference decimal parser of the oracle: (value, ok) for
// strings of the form [+-]?[0-9]+ that fit 64 bits.
func AtoiRef(s string) (int64, bool) {
	v, err := strconv.ParseInt(s, 10, 64)
	return v, err == nil
}

// CodecMismatches counts decoder calls applied to bytes produced by a different
// codec (symbolic engine only).
func CodecMismatches() int { return 0 }

func JUint(u uint64) []byte { return []byte(strconv.FormatUint(u, 10)) }

// JObjOpt builds an object from (key string, value []byte, present bool) triples.
func JObjOpt(kvp ...interface{}) []byte {
	var kv []interface{}
	for i := 0; i+2 < len(kvp); i += 3 {
		if kvp[i+2].(bool) {
			kv = append(kv, kvp[i], kvp[i+1])
		}
	}
	return JObj(kv...)
}

// JEqual compares two JSON documents structurally (object key order is irrelevant;
// numbers compare by their text).
func JEqual(a, b []byte) bool {
	va, oka := jparse(a)
	vb, okb := jparse(b)
	return oka && okb && reflect.DeepEqual(va, vb)
}

// JRaw is literal JSON text.
func JRaw(text string) []byte { return []byte(text) }

// TimeRFC3339 is the proto3 JSON text of the Timestamp (seconds, nanos).
func TimeRFC3339(sec int64, nanos int32) string {
	b, err := protojson.Marshal(&timestamppb.Timestamp{Seconds: sec, Nanos: nanos})
	if err != nil {
		return "!invalid-timestamp"
	}
	return strings.Trim(string(b), `"`)
}

// TimeDate is the UTC calendar date (YYYY-MM-DD) of the instant.
func TimeDate(sec int64) string { return time.Unix(sec, 0).UTC().Format("2006-01-02") }

// FloorDiv is floor(a / b) for b > 0.
func FloorDiv(a, b int64) int64 {
	q := a / b
	if a%b != 0 && (a < 0) != (b < 0) {
		q--
	}
	return q
}

// IntRange is an arbitrary integer in [lo, hi].
func IntRange(name string, lo, hi int64) int64 { return rawInt(name) }

// IntRange32 is an arbitrary integer in [lo, hi].
func IntRange32(name string, lo, hi int32) int32 { return int32(rawInt(name)) }

// MulC is a*c (the caller states that the product does not overflow).
func MulC(a, c int64) int64 { return a * c }
