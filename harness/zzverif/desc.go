package zzverif

// Symbolic descriptors: protogen structures whose Desc fields are small fake
// implementations of the protoreflect descriptor interfaces. Only the methods
// the generators call are implemented; any other method dereferences the embedded
// nil interface and is reported by the engine as a panic (a signal to extend the
// fake, never a finding).

import (
	"google.golang.org/protobuf/compiler/protogen"
	"google.golang.org/protobuf/proto"
	"google.golang.org/protobuf/reflect/protoreflect"
	"google.golang.org/protobuf/types/descriptorpb"
)

type FieldDesc struct {
	protoreflect.FieldDescriptor
	FName     string
	FFullName string
	FJSON     string
	FKind     protoreflect.Kind
	FList     bool
	FMap      bool
	FOptional bool
	FNumber   int32
	FOpts     *descriptorpb.FieldOptions
	FMsg      protoreflect.MessageDescriptor
	FEnum     protoreflect.EnumDescriptor
	FOneof    protoreflect.OneofDescriptor
}

func (d *FieldDesc) Name() protoreflect.Name         { return protoreflect.Name(d.FName) }
func (d *FieldDesc) FullName() protoreflect.FullName { return protoreflect.FullName(d.FFullName) }
func (d *FieldDesc) JSONName() string                { return d.FJSON }
func (d *FieldDesc) TextName() string                { return d.FName }
func (d *FieldDesc) Kind() protoreflect.Kind         { return d.FKind }
func (d *FieldDesc) IsList() bool                    { return d.FList }
func (d *FieldDesc) IsMap() bool                     { return d.FMap }
func (d *FieldDesc) HasOptionalKeyword() bool        { return d.FOptional }
func (d *FieldDesc) HasPresence() bool {
	return d.FOptional || d.FOneof != nil || (d.FKind == protoreflect.MessageKind && !d.FList && !d.FMap)
}
func (d *FieldDesc) Number() protoreflect.FieldNumber { return protoreflect.FieldNumber(d.FNumber) }
func (d *FieldDesc) Options() protoreflect.ProtoMessage {
	return d.FOpts
}
func (d *FieldDesc) Cardinality() protoreflect.Cardinality {
	if d.FList || d.FMap {
		return protoreflect.Repeated
	}
	return protoreflect.Optional
}
func (d *FieldDesc) Message() protoreflect.MessageDescriptor       { return d.FMsg }
func (d *FieldDesc) Enum() protoreflect.EnumDescriptor             { return d.FEnum }
func (d *FieldDesc) ContainingOneof() protoreflect.OneofDescriptor { return d.FOneof }
func (d *FieldDesc) IsExtension() bool                             { return false }

type MessageDesc struct {
	protoreflect.MessageDescriptor
	MName     string
	MFullName string
	MMapEntry bool
	MOpts     *descriptorpb.MessageOptions
}

func (d *MessageDesc) Name() protoreflect.Name            { return protoreflect.Name(d.MName) }
func (d *MessageDesc) FullName() protoreflect.FullName    { return protoreflect.FullName(d.MFullName) }
func (d *MessageDesc) IsMapEntry() bool                   { return d.MMapEntry }
func (d *MessageDesc) Options() protoreflect.ProtoMessage { return d.MOpts }

type OneofDesc struct {
	protoreflect.OneofDescriptor
	OName      string
	OFullName  string
	OSynthetic bool
	OOpts      *descriptorpb.OneofOptions
}

func (d *OneofDesc) Name() protoreflect.Name            { return protoreflect.Name(d.OName) }
func (d *OneofDesc) FullName() protoreflect.FullName    { return protoreflect.FullName(d.OFullName) }
func (d *OneofDesc) IsSynthetic() bool                  { return d.OSynthetic }
func (d *OneofDesc) Options() protoreflect.ProtoMessage { return d.OOpts }

type EnumDesc struct {
	protoreflect.EnumDescriptor
	EName     string
	EFullName string
	EOpts     *descriptorpb.EnumOptions
}

func (d *EnumDesc) Name() protoreflect.Name            { return protoreflect.Name(d.EName) }
func (d *EnumDesc) FullName() protoreflect.FullName    { return protoreflect.FullName(d.EFullName) }
func (d *EnumDesc) Options() protoreflect.ProtoMessage { return d.EOpts }

type EnumValueDesc struct {
	protoreflect.EnumValueDescriptor
	VName   string
	VNumber int32
	VOpts   *descriptorpb.EnumValueOptions
}

func (d *EnumValueDesc) Name() protoreflect.Name            { return protoreflect.Name(d.VName) }
func (d *EnumValueDesc) Number() protoreflect.EnumNumber    { return protoreflect.EnumNumber(d.VNumber) }
func (d *EnumValueDesc) Options() protoreflect.ProtoMessage { return d.VOpts }

type MethodDesc struct {
	protoreflect.MethodDescriptor
	MName     string
	MFullName string
	MOpts     *descriptorpb.MethodOptions
}

func (d *MethodDesc) Name() protoreflect.Name            { return protoreflect.Name(d.MName) }
func (d *MethodDesc) FullName() protoreflect.FullName    { return protoreflect.FullName(d.MFullName) }
func (d *MethodDesc) Options() protoreflect.ProtoMessage { return d.MOpts }
func (d *MethodDesc) IsStreamingClient() bool            { return false }
func (d *MethodDesc) IsStreamingServer() bool            { return false }

type ServiceDesc struct {
	protoreflect.ServiceDescriptor
	SName     string
	SFullName string
	SOpts     *descriptorpb.ServiceOptions
}

func (d *ServiceDesc) Name() protoreflect.Name            { return protoreflect.Name(d.SName) }
func (d *ServiceDesc) FullName() protoreflect.FullName    { return protoreflect.FullName(d.SFullName) }
func (d *ServiceDesc) Options() protoreflect.ProtoMessage { return d.SOpts }

type FileDesc struct {
	protoreflect.FileDescriptor
	FPath    string
	FPackage string
	FOpts    *descriptorpb.FileOptions
}

func (d *FileDesc) Path() string                       { return d.FPath }
func (d *FileDesc) Package() protoreflect.FullName     { return protoreflect.FullName(d.FPackage) }
func (d *FileDesc) Options() protoreflect.ProtoMessage { return d.FOpts }
func (d *FileDesc) Name() protoreflect.Name            { return protoreflect.Name(d.FPath) }
func (d *FileDesc) FullName() protoreflect.FullName    { return protoreflect.FullName(d.FPackage) }

// ---- builders ----

const ImportPath = protogen.GoImportPath("example.com/gen/pkg")

// NewMessage creates an empty message named name (full name pkg.name).
func NewMessage(pkg, name string) *protogen.Message {
	return &protogen.Message{
		Desc:    &MessageDesc{MName: name, MFullName: pkg + "." + name},
		GoIdent: protogen.GoIdent{GoName: name, GoImportPath: ImportPath},
	}
}

// AddField appends a field to msg. goName/jsonName are given explicitly so that a
// harness can use either the real protobuf naming functions or symbolic names.
func AddField(msg *protogen.Message, d *FieldDesc, goName string) *protogen.Field {
	if d.FFullName == "" {
		d.FFullName = string(msg.Desc.FullName()) + "." + d.FName
	}
	f := &protogen.Field{
		Desc:    d,
		GoName:  goName,
		GoIdent: protogen.GoIdent{GoName: msg.GoIdent.GoName + "_" + goName, GoImportPath: ImportPath},
		Parent:  msg,
	}
	msg.Fields = append(msg.Fields, f)
	return f
}

// NewMethod builds a method of svc.
func NewMethod(svc *protogen.Service, name, goName string, in, out *protogen.Message, opts *descriptorpb.MethodOptions) *protogen.Method {
	m := &protogen.Method{
		Desc:   &MethodDesc{MName: name, MFullName: string(svc.Desc.FullName()) + "." + name, MOpts: opts},
		GoName: goName,
		Parent: svc,
		Input:  in,
		Output: out,
	}
	svc.Methods = append(svc.Methods, m)
	return m
}

func NewService(pkg, name string, opts *descriptorpb.ServiceOptions) *protogen.Service {
	return &protogen.Service{
		Desc:   &ServiceDesc{SName: name, SFullName: pkg + "." + name, SOpts: opts},
		GoName: name,
	}
}

func NewFile(path, pkg string, goPkg protogen.GoPackageName, prefix string) *protogen.File {
	return &protogen.File{
		Desc:                    &FileDesc{FPath: path, FPackage: pkg},
		GoPackageName:           goPkg,
		GoImportPath:            ImportPath,
		GeneratedFilenamePrefix: prefix,
		Generate:                true,
	}
}

// SetExt attaches an annotation (extension value) to an options message.
// Natively this is proto.SetExtension; symbolically the engine keeps a side
// table so the value may be symbolic.
func SetExt(m proto.Message, xt protoreflect.ExtensionType, v interface{}) {
	proto.SetExtension(m, xt, v)
}
