package zzverif

import (
	"bytes"
	"reflect"
	"strings"
	"unsafe"

	"google.golang.org/protobuf/compiler/protogen"
)

// TraceFile is the emission trace of one generated file: the lines printed with P.
type TraceFile struct {
	Name  string
	Lines []string
}

// Trace returns what the generators printed into the files of plugin. Natively the
// unexported buffers of protogen are read by reflection; symbolically the engine
// returns its recording of NewGeneratedFile/P calls.
func Trace(p *protogen.Plugin) []TraceFile {
	var out []TraceFile
	pv := reflect.ValueOf(p).Elem()
	gfs := pv.FieldByName("genFiles")
	for i := 0; i < gfs.Len(); i++ {
		g := gfs.Index(i).Elem()
		name := g.FieldByName("filename").String()
		bf := g.FieldByName("buf")
		buf := (*bytes.Buffer)(unsafe.Pointer(bf.UnsafeAddr()))
		lines := strings.Split(strings.TrimSuffix(buf.String(), "\n"), "\n")
		out = append(out, TraceFile{Name: name, Lines: lines})
	}
	return out
}
