"""Registry of harnesses per property (read by /verif/check)."""

MOD = "github.com/SebastienMelki/sebuf"

COMMON_OVERLAY = {
    "internal/zzverif/verif.go": "harness/zzverif/verif.go",
    "internal/zzverif/desc.go": "harness/zzverif/desc.go",
    "internal/zzverif/http.go": "harness/zzverif/http.go",
    "internal/zzverif/json.go": "harness/zzverif/json.go",
    "internal/zzverif/trace.go": "harness/zzverif/trace.go",
    "internal/clientgen/zz_verif_export.go": "harness/export/clientgen_export.go",
    "internal/tsclientgen/zz_verif_export.go": "harness/export/tsclientgen_export.go",
    "internal/tsservergen/zz_verif_export.go": "harness/export/tsservergen_export.go",
    "internal/openapiv3/zz_verif_export.go": "harness/export/openapiv3_export.go",
}

COMMON_OVERLAY_E = {
    "zzverif/verif.go": "harness/zzverif/verif.go",
    "zzverif/desc.go": "harness/zzverif/desc.go",
    "zzverif/http.go": "harness/zzverif/http.go",
    "zzverif/json.go": "harness/zzverif/json.go",
}

DEFAULT_INIT = [MOD + "/http", "buf.build/gen/go/bufbuild/protovalidate/protocolbuffers/go/buf/validate"] + [MOD + "/internal/" + p for p in
                                  ("annotations", "httpgen", "clientgen", "tscommon", "tsclientgen", "tsservergen", "openapiv3")]

COMMON_ASSUMPTIONS = [
    "solver verdicts (z3) are trusted; any (error or unknown answer is reported as inconclusive, never as success",
    "symbolic strings range over the stated alphabets only (printable ASCII unless a harness says otherwise); non-ASCII text is outside the claim",
    "library models listed under coverage.library_models_used replace the real library bodies (strings, fmt, strconv, errors, sort, regexp shape \\{([^}]+)\\}, proto.GetExtension, protogen recording stubs)",
    "descriptor well-formedness that protoc guarantees is assumed (unique field names, kind/message/enum consistency)",
    "package initialisers are executed only for the sebuf packages under test; reads of other uninitialised package variables abort the path as inconclusive",
]

G_HTTPGEN = dict(mode="G", load_pkgs=["./internal/httpgen"], pkgpath=MOD + "/internal/httpgen",
                 test_pkg="./internal/httpgen", test_pkgname="httpgen")

def E_BINDING(**kw):
    d = dict(mode="E", schemas=[dict(name="binding", run="go,go-http")], load_pkgs=["./gen/binding"], pkgpath="verifmod/gen/binding",
             test_pkg="./gen/binding", test_pkgname="binding", init=[MOD + "/http", "verifmod/gen/binding"])
    d.update(kw)
    return d


def E_ROUNDTRIP(**kw):
    d = dict(mode="E", schemas=[dict(name="roundtrip", run="go,go-http,go-client")], load_pkgs=["./gen/roundtrip"], pkgpath="verifmod/gen/roundtrip",
             test_pkg="./gen/roundtrip", test_pkgname="roundtrip", init=[MOD + "/http", "verifmod/gen/roundtrip"])
    d.update(kw)
    return d


def E_CODECS(**kw):
    d = dict(mode="E", schemas=[dict(name="codecs", run="go,go-http")], load_pkgs=["./gen/codecs"], pkgpath="verifmod/gen/codecs",
             test_pkg="./gen/codecs", test_pkgname="codecs", init=[MOD + "/http", "verifmod/gen/codecs"],
             overlay={"gen/codecs/zz_verif_c04.go": "harness/c04/c04_codecs.go", "gen/codecs/zz_verif_c04t.go": "harness/c04/c04_time.go", "gen/codecs/zz_verif_c05.go": "harness/c05/c05_nested.go", "gen/codecs/zz_verif_c05u.go": "harness/c05/c05_unwrap.go", "gen/codecs/zz_verif_c05e.go": "harness/c05/c05_enum.go",
                      "gen/codecs/zz_verif_c11.go": "harness/c11/c11_decoders.go", "gen/codecs/zz_verif_c11b.go": "harness/c11/c11_bytes.go"})
    d.update(kw)
    return d


CODEC_ASSUMPTIONS = [
    "JSON documents are abstract (null/bool/number/string/array/object with symbolic leaves and presence guards): byte-level JSON syntax, key order, whitespace, number formatting and duplicate keys are outside the claim",
    "encoding/json, protojson, proto.Size and the base64/hex codecs are models of their documented behaviour (struct tags of the real protoc-gen-go output drive field names); Timestamp/enum/unwrap codecs and maps are not in this schema family yet",
]

E_ASSUMPTIONS = [
    "the emitted Go code is regenerated on every run by the real plugin binaries built from /repo's working tree (schema family: see coverage.regenerated)",
    "buf.build/go/protovalidate is replaced by a stub module (the runtime is not on this image): claims hold for any behaviour of the rule validator",
    "net/http Header/Request/ResponseWriter, io.ReadAll and context are models (see library_models_used); real sockets and ServeMux internals are outside the claim",
]

PROPERTIES = {
    "C03": dict(G_HTTPGEN,
                overlay={"internal/httpgen/zz_verif_c03.go": "harness/c03/c03_routes.go",
                         "internal/httpgen/zz_verif_c12_common.go": "harness/c12/c12_common.go",
                         "internal/httpgen/zz_verif_c14.go": "harness/c14/c14_codecs.go",
                         "internal/httpgen/zz_verif_c03p.go": "harness/c03/c03_placement.go"},
                harnesses=[
                    dict(func="VerifC03Routes", reach=["C03/route", "C03/default-path-region"],
                         quick=dict(budget=400, parts=4), thorough=dict(budget=1500, parts=8)),
                    dict(func="VerifC03TSPathSegments", reach=["C03/ts-segments/decided"], quick=dict(budget=100), thorough=dict(budget=300)),
                           dict(func="VerifC03Placement", reach=["C03/placement/decided", "C03/placement/kf-body-verb"], quick=dict(budget=200), thorough=dict(budget=600)),
                ],
                bounds_text={
                    "quick": "placement: one RPC with a path variable, a (renamed or not) query-annotated field of 4 kinds and a body field, 6 verbs, all five generators' emitted parameter handling compared. routes: 1 service x 1 method; 9 base-path shapes x (no config | 11 path shapes incl. 0..3 variables, adjacent/first/last) x 4 method-name shapes x verb = any int32; path/base segments symbolic over [a-z_]{1..3}",
                    "thorough": "as quick with segments [a-z_]{1..6}",
                },
                assumptions=["base paths containing {variables} are outside the property's quantifier",
                             "Go package name fixed to 'userpb', proto package 'acme.v1' (only the default-path rule reads them; that rule is a listed known finding)"]),
    "C09": dict(
        groups=[
            E_BINDING(
        overlay={"gen/binding/zz_verif_c09.go": "harness/c09/c09_headers.go", "gen/binding/zz_verif_c09b.go": "harness/c09/c09_bytes.go",
                 "gen/binding/zz_verif_c09r.go": "harness/c09/c09_routes.go", "gen/binding/zz_verif_c02.go": "harness/c02/c02_binding.go", "gen/binding/zz_verif_c17.go": "harness/c17/c17_server.go"},
        harnesses=[dict(func="VerifC09Merge", reach=["C09/merge-decided", "C09/override-relaxes"], quick=dict(budget=300), thorough=dict(budget=1200)),
                   dict(func="VerifC09Value", reach=["C09/value-decided", "C09/uuid-shape", "C09/undecided-by-reference"], quick=dict(budget=300, parts=8), thorough=dict(budget=2400, parts=8)),
                   dict(func="VerifC09NonUTF8Values", reach=["C09/bytes/decided"], quick=dict(budget=60), thorough=dict(budget=120)),
                   dict(func="VerifC09PerRoute", reach=["C09/route/dispatched", "C09/route/rejected"], quick=dict(budget=120), thorough=dict(budget=300))]),
            dict(mode="G", load_pkgs=["./internal/tsservergen"], pkgpath=MOD + "/internal/tsservergen", test_pkg="./internal/tsservergen", test_pkgname="tsservergen",
                 init=DEFAULT_INIT,
                 overlay={"internal/tsservergen/zz_verif_c09.go": "harness/c09/c09_ts_g.go"},
                 harnesses=[dict(func="VerifC09TSHeaderConfig", reach=["C09/ts/decided"], quick=dict(budget=120), thorough=dict(budget=300))]),
        ],
        bounds_text={"quick": "Merge: 1-2 service-level + 1 method-level declaration, method name in {same, 2 case variants, different}, required flags and presence symbolic, values printable ASCII <= 4. "
                              "Per route: the binding schema's two services x two routes registered through Register*Server on one mux, one request with each declared header absent/valid (thorough: malformed). Value: one required header, type in 7 x format in 7 (incl. unknown ones), declared at service or method level, value printable ASCII <= 6 (uuid additionally: a well-formed 36-character uuid with 1-2 arbitrary characters at 10 chosen positions incl. dash positions and group boundaries, and any 37 characters)"},
        assumptions=E_ASSUMPTIONS + ["formats date-time/date/time: time.Parse is stubbed with an arbitrary result, only their dispatch is covered",
                                     "type number: reference decides only plain decimals (must pass) and strings with characters outside [-+0-9a-zA-Z._] (must fail)",
                                     "TS server: only the emitted per-route header table is decided (one entry per declaration with name [A-Za-z0-9-]{1,6}, 7 type spellings, 6 formats, required flag; service + optional method declaration); the static TS validateHeaders runtime is not executed"]),
    "C12": dict(G_HTTPGEN,
                overlay={"internal/httpgen/zz_verif_c12_common.go": "harness/c12/c12_common.go",
                         "internal/httpgen/zz_verif_c12_field.go": "harness/c12/c12_field_rules.go",
                         "internal/httpgen/zz_verif_c12_struct.go": "harness/c12/c12_struct_rules.go",
                         "internal/httpgen/zz_verif_c12_http.go": "harness/c12/c12_http_rules.go"},
                harnesses=[dict(func=f, reach=["C12/%s/decided" % r, "C12/%s/imported" % r] + (["C12/nullable/oneof-member"] if r == "nullable" else []), quick=dict(budget=300, parts=4), thorough=dict(budget=1200, parts=8))
                           for f, r in [("VerifC12Nullable", "nullable"), ("VerifC12EmptyBehavior", "empty_behavior"),
                                        ("VerifC12TimestampFormat", "timestamp_format"), ("VerifC12BytesEncoding", "bytes_encoding"),
                                        ("VerifC12Flatten", "flatten"), ("VerifC12Oneof", "oneof"), ("VerifC12Enum", "enum"), ("VerifC12Unwrap", "unwrap")]]
                + [dict(func="VerifC12HTTPConfig", reach=["C12/http/decided"], quick=dict(budget=300, parts=8, flags=["-maxpaths", "200000"]), thorough=dict(budget=1500, parts=16, flags=["-maxpaths", "400000"]))],
                bounds_text={"quick": "per rule: one message with one field of symbolic kind (quick: 9 representative kinds, thorough: all 17) x cardinality (singular/optional/repeated/map) x annotation value, plus a plain sibling (nullable: the field may also be a member of a real oneof with that sibling); placed top-level / nested / in a non-service file of the run / in an imported file; the file set also holds one service with one POST method; both Go generators run in full (recording emission stubs)"},
                assumptions=["cases the rule text leaves open are assumed away and listed: repeated Timestamp with timestamp_format, repeated bytes with bytes_encoding"]),
    "C02": E_BINDING(
        overlay={"gen/binding/zz_verif_c02.go": "harness/c02/c02_binding.go"},
        harnesses=[dict(func="VerifC02UpdateReq", reach=["C02/delivered", "C02/unconvertible", "C02/empty-path"], quick=dict(budget=400, parts=8), thorough=dict(budget=1500, parts=16)),
                   dict(func="VerifC02Kinds", reach=["C02/kinds/delivered", "C02/kinds/unconvertible", "C02/kinds/missing-required"], quick=dict(budget=400, parts=8), thorough=dict(budget=1500, parts=16))],
        bounds_text={"quick": "UpdateReq: verb in 5 x path value (printable ASCII <= 5) x query 'count' occurring 0/1/2 times (values <= 11 / <= 3 chars) x body in {nil, empty, {}, {note:s}}, JSON content type. "
                              "Kinds: verb in 5 x one query parameter among int32/int64(required)/bool/uint32/uint64/double/float/repeated string/optional int32 with value <= 11 chars, 1-2 occurrences, required parameter present or absent, no body"},
        assumptions=E_ASSUMPTIONS + ["the query string is given as parsed url.Values (net/url parsing and percent-decoding are outside the claim)",
                                     "bodies are abstract JSON documents decoded by a model of protojson.Unmarshal (reset, JSON/proto names, unknown key => error, category checks)",
                                     "TS server (S2) and OpenAPI (S3) halves are not encoded in this check"]),
    "C10": E_ROUNDTRIP(
        overlay={"gen/roundtrip/zz_verif_c10.go": "harness/c10/c10_errors.go", "gen/roundtrip/zz_verif_c06v.go": "harness/c06/c06_violations_e.go@roundtrip",
                 "gen/roundtrip/zz_verif_c10m.go": "harness/c10/c10_middleware.go", "gen/roundtrip/zz_verif_c01a.go": "harness/c01/c01_common.go"},
        init=[MOD + "/http", "verifmod/gen/roundtrip", "buf.build/gen/go/bufbuild/protovalidate/protocolbuffers/go/buf/validate"],
        harnesses=[dict(func="VerifC10HandlerError", reach=["C10/handler/decided", "C10/handler/hook-wrote", "C10/client/mapped"], quick=dict(budget=300, parts=8), thorough=dict(budget=1200, parts=16)),
                   dict(func="VerifC10RequestErrors", reach=["C10/request/decided", "C10/request/hook-wrote"], quick=dict(budget=200), thorough=dict(budget=600)),
                   # rule violations of a bound request: every violation the validator produced is listed (incl. several per field path)
                   dict(func="VerifC06ValidationErrorBody", reach=["C06/validation-body/decided"], quick=dict(budget=100), thorough=dict(budget=300))],
        bounds_text={"quick": "handler error in {plain, *Error, *ValidationError(1 violation), custom *NotFoundError, wrapped *Error, empty *ValidationError} with symbolic strings <= 4 x request content type in 6 values x error hook in {none, returns nil, returns message} x {sets header, calls WriteHeader(401|404|409|503), writes body} (all combinations); response fed to the emitted client's handleErrorResponse"},
        assumptions=E_ASSUMPTIONS + ["responses are observed through a recording ResponseWriter that freezes status and headers at the first WriteHeader/Write (net/http's documented rule)",
                                     "binary transport: decoding the bytes of one message type as another type is outside the model (client mapping checked only where types coincide)",
                                     "rule violations: the conversion of a protovalidate error into the 400 body is decided (1-2 violations, message- and field-level paths); header/URL-binding exits are C02/C09's; the TS client/server are not part of this check"]),
    "C06": dict(
        groups=[
            dict(mode="G", load_pkgs=["./internal/openapiv3"], pkgpath=MOD + "/internal/openapiv3", test_pkg="./internal/openapiv3", test_pkgname="openapiv3",
                init=DEFAULT_INIT,
                overlay={"internal/openapiv3/zz_verif_c06.go": "harness/c06/c06_schema.go", "internal/openapiv3/zz_verif_c06w.go": "harness/c06/c06_wire.go",
                         "internal/openapiv3/zz_verif_c18.go": "harness/c18/c18_document.go"},
                harnesses=[dict(func="VerifC06Field", reach=["C06/field/decided", "C06/field/kf-nonfinite"], quick=dict(budget=300, parts=4), thorough=dict(budget=900, parts=8)),
                           dict(func="VerifC06Flatten", reach=["C06/flatten/decided", "C06/flatten/child-member-with-cardinality"], quick=dict(budget=120), thorough=dict(budget=400)),
                           dict(func="VerifC06Oneof", reach=["C06/oneof/decided", "C06/oneof/kf-unset", "C06/oneof/kf-nested"], quick=dict(budget=200), thorough=dict(budget=600)),
                           dict(func="VerifC06Unwrap", reach=["C06/unwrap/decided"], quick=dict(budget=200, parts=2), thorough=dict(budget=600, parts=4)),
                           dict(func="VerifC06Builtin", reach=["C06/builtin/decided"], quick=dict(budget=60), thorough=dict(budget=120)),
                           dict(func="VerifC06Parameters", reach=["C06/params/decided"], quick=dict(budget=100), thorough=dict(budget=300)),
                           # header parameters: the document harness of C18 (method-level header declarations override service-level ones)
                           dict(func="VerifC18Document", reach=["C18/decided"], quick=dict(budget=300, parts=4), thorough=dict(budget=900, parts=8))]),
            E_BINDING(overlay={"gen/binding/zz_verif_c06v.go": "harness/c06/c06_violations_e.go"},
                      init=[MOD + "/http", "verifmod/gen/binding", "buf.build/gen/go/bufbuild/protovalidate/protocolbuffers/go/buf/validate"],
                      harnesses=[dict(func="VerifC06ValidationErrorBody", reach=["C06/validation-body/decided"], quick=dict(budget=100), thorough=dict(budget=300))]),
        ],
                bounds_text={"quick": "one message with one field of any of 17 kinds (incl. enum with proto or custom value names, Timestamp with 5 formats, plain child message) x singular/optional(+nullable)/repeated(1-2 elements)/map<string,T> x int64_encoding/enum_encoding/bytes_encoding/empty_behavior values, JSON name symbolic ([a-z]{1,3}); flatten with symbolic prefix ([a-z_]{0,3}), 1-2 flattened fields; discriminated oneof with 2 variants (message/scalar, nested/flattened, custom values, symbolic discriminator); root list/map unwrap and map-value unwrap; built-in Error/ValidationError with 1-2 violations"},
                assumptions=["the wire form is the documented mapping M (DESIGN.md Appendix A); that the emitted Go code produces M is C04/C05's obligation and their findings carry over",
                             "only definitions the annotation rules accept (Appendix B); fields marked required by buf.validate are outside this harness (the message is assumed to satisfy its own rules)",
                             "pattern, format, description and examples are treated as annotations; YAML/JSON rendering of the document is outside (in-memory base.Schema objects are evaluated)",
                             "path and query parameter schemas are decided by type category and required flag (12 kinds each); header parameters are not evaluated",
                             "validation-error body (emitted convertProtovalidateError, E-mode): 1-2 violations, each message-level (no path), with an empty path object, or with a path of 1-2 non-empty element names; the rule message is non-empty (protovalidate supplies one for its standard rules)"]),
    "C07": dict(
        groups=[
            dict(mode="G", load_pkgs=["./internal/tscommon"], pkgpath=MOD + "/internal/tscommon", test_pkg="./internal/tscommon", test_pkgname="tscommon",
                 init=DEFAULT_INIT,
                 overlay={"internal/tscommon/zz_verif_c07.go": "harness/c07/c07_types.go", "internal/tscommon/zz_verif_c06w.go": "harness/c06/c06_wire.go@tscommon"},
                 harnesses=[dict(func="VerifC07Field", reach=["C07/field/decided", "C07/field/kf-zero-omitted", "C07/field/empty-null"], quick=dict(budget=200, parts=2), thorough=dict(budget=600, parts=4)),
                            dict(func="VerifC07Flatten", reach=["C07/flatten/decided"], quick=dict(budget=60), thorough=dict(budget=200)),
                            dict(func="VerifC07Oneof", reach=["C07/oneof/decided", "C07/oneof/kf-nested", "C07/oneof/kf-unset", "C07/oneof/unset-decided"], quick=dict(budget=100), thorough=dict(budget=300)),
                            dict(func="VerifC07Unwrap", reach=["C07/unwrap/decided"], quick=dict(budget=100), thorough=dict(budget=300))]),
            dict(mode="G", load_pkgs=["./internal/tsservergen"], pkgpath=MOD + "/internal/tsservergen", test_pkg="./internal/tsservergen", test_pkgname="tsservergen",
                 init=DEFAULT_INIT,
                 overlay={"internal/tsservergen/zz_verif_c07.go": "harness/c07/c07_server.go",
                          "internal/tscommon/zz_verif_c07.go": "harness/c07/c07_types.go", "internal/tscommon/zz_verif_c06w.go": "harness/c06/c06_wire.go@tscommon"},
                 harnesses=[dict(func="VerifC07HandlerArg", reach=["C07/handler/decided", "C07/handler/non-string-path"], quick=dict(budget=100), thorough=dict(budget=300)),
                            dict(func="VerifC07SameDeclarations", reach=["C07/decls/decided"], quick=dict(budget=200), thorough=dict(budget=600)),
                            dict(func="VerifC07ResultType", reach=["C07/result/decided"], quick=dict(budget=60), thorough=dict(budget=200))]),
        ],
        bounds_text={"quick": "types: one message with one field of any of 17 kinds (enum with proto or symbolic custom value names [a-z0-9]{1,3}, Timestamp x 5 formats, child message) x singular/optional(+nullable)/repeated/map<string,T> x int64/enum/bytes encodings/empty_behavior; flatten with 4 prefixes and a proto3-optional (nullable or not) child field; discriminated oneof (2 variants, message/scalar, nested/flattened, custom values); root list/map unwrap and map-value unwrap; handler argument: GET/DELETE route with a path variable and a query parameter of 10 scalar kinds each (int64_encoding NUMBER on the query field); declarations: both complete TS generators on one file with a response field of 8 kinds x repeated/optional/nullable/flatten/encodings"},
        assumptions=["the wire form is the documented mapping M (DESIGN.md Appendix A); that the emitted Go code produces M is C04/C05's obligation",
                     "the TypeScript side is the text the real emitters print, read by a small interpreter for the emitted type grammar (interface, string-literal union, object-literal union branches, A & B, Record<string,T>, T[], ?, | null); TypeScript's structural typing beyond this grammar and type checking of the module are outside",
                     "JSON names and flatten prefixes are concrete in these harnesses (the oracle parses emitted text); enum literal values and map keys are symbolic",
                     "non-finite floats (strings on the wire) are reported under C06"]),
    "C19": dict(mode="G", load_pkgs=["./internal/openapiv3"], pkgpath=MOD + "/internal/openapiv3", test_pkg="./internal/openapiv3", test_pkgname="openapiv3",
                init=DEFAULT_INIT,
                overlay={"internal/openapiv3/zz_verif_c19.go": "harness/c19/c19_rules.go", "internal/openapiv3/zz_verif_c19f.go": "harness/c19/c19_float.go", "internal/openapiv3/zz_verif_c19w.go": "harness/c19/c19_wide.go"},
                harnesses=[dict(func="VerifC19Int32", reach=["C19/int32/decided", "C19/int32/exclusive"], quick=dict(budget=200), thorough=dict(budget=600)),
                           dict(func="VerifC19Uint32", reach=["C19/uint32/decided"], quick=dict(budget=200), thorough=dict(budget=600)),
                           dict(func="VerifC19Collections", reach=["C19/collections/decided"], quick=dict(budget=200), thorough=dict(budget=600)),
                           dict(func="VerifC19String", reach=["C19/string/decided"], quick=dict(budget=200), thorough=dict(budget=600)),
                           dict(func="VerifC19Float", reach=["C19/float/bounds", "C19/float/const-in"], quick=dict(budget=100), thorough=dict(budget=300)),
                           dict(func="VerifC19Wide64", reach=["C19/wide64/decided"], quick=dict(budget=100), thorough=dict(budget=300))],
                bounds_text={"quick": "int32/uint32: lower bound in {none,gte,gt} x upper bound in {none,lte,lt} x const x in-list of 0..2 values, all values and the probe over the full 32-bit range; "
                                      "64-bit kinds (uint64/fixed64/sint64/sfixed64/int64): one gte/gt/lte/lt rule with bound and probe from a table of 9 values spanning the whole range of the kind (all exactly representable as float64); collections: min/max items/pairs < 2^62, sizes 0..3; strings: min/max length < 2^62 (probe length as a number), const/in with strings <= 4, 8 well-known formats"},
                assumptions=["rule pairs with upper bound below lower bound (buf.validate's reversed-range semantics) are assumed away",
                             "the schema is read from the base.Schema object the real code fills (keywords Minimum/Maximum/ExclusiveMinimum/ExclusiveMaximum/Const/Enum/Min-MaxLength/Items/Properties/UniqueItems/Format); its type pairing (string-encoded int64), float/double kinds, pattern and YAML rendering of const/enum scalars are not part of this check yet"]),
    "C14": dict(G_HTTPGEN,
                overlay={"internal/httpgen/zz_verif_c12_common.go": "harness/c12/c12_common.go",
                         "internal/httpgen/zz_verif_c14.go": "harness/c14/c14_codecs.go"},
                harnesses=[dict(func="VerifC14CodecFiles", reach=["C14/compared", "C14/no-service", "C14/kf-unwrap", "C14/nested"], quick=dict(budget=300), thorough=dict(budget=900))],
                bounds_text={"quick": "one file, with or without a service, holding one message per codec feature, declared at top level or nested in an un-annotated message (int64 NUMBER singular+repeated, partially annotated enum, nullable, empty_behavior x3, timestamp_format x3, bytes_encoding x4, flatten+prefix, discriminated oneof flattened or not with custom oneof_value, root unwrap); field names, JSON names (independent of the names), prefixes, discriminators and custom values symbolic strings <= 3; both generators run in full and their emission traces are compared line by line"},
                assumptions=["GoIdent operands are rendered by the recording stub as <import path>.<name> for both generators alike",
                             "annotated types defined in other files of the run and plugin-order effects on the file system are not part of this check"]),
    "C15": dict(G_HTTPGEN, replay_repeat=12, load_pkgs=["./internal/httpgen", "./cmd/protoc-gen-openapiv3"],
                overlay={"internal/httpgen/zz_verif_c15.go": "harness/c15/c15_headers.go", "internal/httpgen/zz_verif_c15m.go": "harness/c15/c15_mock.go",
                         "internal/httpgen/zz_verif_c20w.go": "harness/c20/c20_world.go",
                         "cmd/protoc-gen-openapiv3/zz_verif_c15.go": "harness/c15/c15_params_main.go"},
                harnesses=[dict(func="VerifC15CombineHeaders", reach=["C15/headers/decided"], quick=dict(budget=300, parts=4, flags=["-mapperm"]), thorough=dict(budget=900, parts=8, flags=["-mapperm"])),
                           dict(func="VerifC15RequestVariations", reach=["C15/request/decided"], quick=dict(budget=200, flags=["-mapperm"]), thorough=dict(budget=600, flags=["-mapperm"])),
                           dict(func="VerifC15MockAcrossFiles", reach=["C15/mock/decided", "C15/mock/examples"], quick=dict(budget=100), thorough=dict(budget=300)),
                           dict(func="VerifC15ParameterSpelling", pkgpath=MOD + "/cmd/protoc-gen-openapiv3", test_pkg="./cmd/protoc-gen-openapiv3", test_pkgname="main",
                                reach=["C15/parameters/decided"], quick=dict(budget=100), thorough=dict(budget=300))],
                bounds_text={"quick": "CombineHeaders: 1 service + 2 method declarations with symbolic one-letter names over [abAB] (case variants included), every iteration order of every Go map ranged over (symbolic permutation, maps of 2..4 entries), two evaluations compared. "
                                      "Request variations: go-http and go-client on a service file + same-package wrapper file (unwrap map value) + unrelated file: permuted file order, extra file first/last, single-file invocation; emission traces of the service file compared"},
                assumptions=["Go map iteration order is modelled as an arbitrary permutation chosen per range statement (maps with more than 4 entries iterate in insertion order)",
                             "the generators start no goroutines and read no clock/environment on these paths (such a call would abort the path as unsupported)",
                             "TS and OpenAPI generators, byte rendering by libopenapi/yaml and plugin parameters are not yet part of this check"]),
    "C16": dict(G_HTTPGEN, load_pkgs=["./internal/httpgen", "./cmd/protoc-gen-openapiv3", "./internal/openapiv3"], replay_timeout=240,
                overlay={"internal/httpgen/zz_verif_c16.go": "harness/c16/c16_termination.go", "internal/httpgen/zz_verif_c16m.go": "harness/c16/c16_mock_maps.go",
                         "internal/httpgen/zz_verif_c12_common.go": "harness/c12/c12_common.go", "internal/httpgen/zz_verif_c12_http.go": "harness/c12/c12_http_rules.go",
                         "internal/httpgen/zz_verif_c20w.go": "harness/c20/c20_world.go",
                         "cmd/protoc-gen-openapiv3/zz_verif_c16.go": "harness/c16main/c16_main.go",
                         "internal/openapiv3/zz_verif_c16o.go": "harness/c16/c16_openapi_any.go", "internal/openapiv3/zz_verif_c06w.go": "harness/c06/c06_wire.go"},
                harnesses=[dict(func="VerifC16Traversals", reach=["C16/traversals/decided"], quick=dict(budget=300, parts=8, flags=["-maxpaths", "100000"]), thorough=dict(budget=900, parts=16, flags=["-maxpaths", "400000"])),
                           dict(func="VerifC16Mock", reach=["C16/mock/decided", "C16/mock/recursive"], quick=dict(budget=300, parts=8, flags=["-maxpaths", "100000"]), thorough=dict(budget=900, parts=16, flags=["-maxpaths", "400000"])),
                           dict(func="VerifC16DeepDiamond", reach=["C16/diamond/decided"], quick=dict(budget=100), thorough=dict(budget=300)),
                           dict(func="VerifC16MockMapCycles", reach=["C16/mock-maps/decided"], quick=dict(budget=200), thorough=dict(budget=600)),
                           dict(func="VerifC16AnswersForAnyHTTPConfig", reach=["C16/http-config/decided"], quick=dict(budget=300, parts=8, flags=["-maxpaths", "200000"]), thorough=dict(budget=900, parts=16, flags=["-maxpaths", "400000"])),
                           dict(func="VerifC16NameKernelsSnake", reach=["C16/kernels/snake"], quick=dict(budget=200), thorough=dict(budget=600)),
                           dict(func="VerifC16NameKernelsHeader", reach=["C16/kernels/header"], quick=dict(budget=200), thorough=dict(budget=600)),
                           dict(func="VerifC16NameKernelsCamel", reach=["C16/kernels/camel"], quick=dict(budget=200), thorough=dict(budget=600)),
                           dict(func="VerifC16OpenAPIAnswersForAnyAnnotation", pkgpath=MOD + "/internal/openapiv3", test_pkg="./internal/openapiv3", test_pkgname="openapiv3",
                                reach=["C16/openapi-any/decided"], quick=dict(budget=200, parts=4), thorough=dict(budget=600, parts=8)),
                           dict(func="VerifC16MainSetup", pkgpath=MOD + "/cmd/protoc-gen-openapiv3", test_pkg="./cmd/protoc-gen-openapiv3", test_pkgname="main",
                                reach=["C16/main/setup-error-returned", "C16/main/setup-ok"], quick=dict(budget=100), thorough=dict(budget=300))],
                bounds_text={"quick": "message graphs: 3 messages x 2 message-typed fields each with arbitrary targets (direct and mutual recursion included), second edge singular or repeated; budgets: tscommon 60k, generators 3M executed SSA instructions and call depth 120; HTTP configurations: the rule space of C12/R9 (verb x path variable x query annotations x field kinds, valid or not) through go-http, go-http+mock and go-client; deep diamond: 16 levels x 2 references; name kernels: strings <= 4-5 over [ab_], [aAX-], [aAZ0]; openapiv3 main: Options.New stubbed with an arbitrary (plugin | error) result"},
                assumptions=["termination is decided as 'finishes within a stated work budget and call depth on every graph in the bound' - wall time and memory as such are not measured",
                             "openapiv3: CollectReferencedMessages (incl. processMessage over real libopenapi objects) and the main set-up path are covered; ProcessService/Render are not"]),
    "C13": dict(G_HTTPGEN,
                overlay={"internal/httpgen/zz_verif_c12_common.go": "harness/c12/c12_common.go",
                         "internal/httpgen/zz_verif_c14.go": "harness/c14/c14_codecs.go",
                         "internal/httpgen/zz_verif_c13.go": "harness/c13/c13_obligations.go", "internal/httpgen/zz_verif_c13o.go": "harness/c13/c13_oneof_names.go", "internal/httpgen/zz_verif_c13e.go": "harness/c13/c13_enum_maps.go"},
                harnesses=[dict(func="VerifC13ClientImports", reach=["C13/client-imports/decided"], quick=dict(budget=400, parts=8), thorough=dict(budget=1200, parts=16)),
                           dict(func="VerifC13CodecLocals", reach=["C13/codec-locals/decided"], quick=dict(budget=400, parts=8), thorough=dict(budget=1200, parts=16)),
                           dict(func="VerifC13TSRouteConsts", reach=["C13/ts/decided", "C13/ts/path-and-query"], quick=dict(budget=100), thorough=dict(budget=300)),
                           dict(func="VerifC13GoIdentifiers", reach=["C13/idents/decided", "C13/idents/irregular"], quick=dict(budget=400, parts=4), thorough=dict(budget=1200, parts=8)),
                           dict(func="VerifC13OneMarshalerPerType", reach=["C13/marshalers/decided", "C13/marshalers/kf"], quick=dict(budget=200), thorough=dict(budget=600)),
                           dict(func="VerifC13OneofWrapperNames", reach=["C13/oneof-names/decided"], quick=dict(budget=100), thorough=dict(budget=300)),
                           dict(func="VerifC13PrintfArity", reach=["C13/printf/decided"], quick=dict(budget=200), thorough=dict(budget=600)),
                           dict(func="VerifC13EnumMapLiterals", reach=["C13/enum-maps/decided", "C13/enum-maps/custom-value-is-the-proto-name"], quick=dict(budget=200), thorough=dict(budget=600))],
                bounds_text={"quick": "emission-site obligations, each necessary for the emitted package/module to build: (O6) imports match uses in go-client/go-http files for 1-2 methods x 6 verbs x path variable x query annotation; unused locals/imports in codec files for timestamp_format x5, bytes_encoding x6, empty_behavior x4, int64_encoding x3 x 4 kinds x repeated, at 4 placements, both generators; (O5) duplicate const in a TS route for verb x path variable x query; (O3) client Go identifier = protoc-gen-go identifier over 9 name shapes with symbolic letters/digits; (O1) one MarshalJSON per type for every pair of 5 codec features, both generators; printf arity (verbs = operands) of every emitted fmt.Errorf/Sprintf in the codec files of 9 features; no repeated key in the enum lookup map literals for a 3-value enum with each value un-annotated / custom value / custom value spelled like its proto name, 4 placements, both generators"},
                assumptions=["the claim is 'these obligations hold', not 'the package compiles': type-level obligations (O2: expressions presupposing singular non-optional Go field types), name-collision obligations (O4) and TypeScript syntax are not covered",
                             "obligations are evaluated on the recorded emission trace (text of the P() calls) by scanners written in the harness"]),
    "C01": E_ROUNDTRIP(
        overlay={"gen/roundtrip/zz_verif_c01a.go": "harness/c01/c01_common.go", "gen/roundtrip/zz_verif_c01b.go": "harness/c01/c01_roundtrip.go"},
        harnesses=[dict(func="VerifC01RoundTrip", reach=["C01/delivered", "C01/kf-zero-required", "C01/octet-stream"], quick=dict(budget=400, parts=8), thorough=dict(budget=1500, parts=16))],
        bounds_text={"quick": "one service with 5 RPCs (GET with path+4 query fields, POST body, PUT and PATCH path+body incl. repeated field, DELETE with int64 path variable); content type in {json, x-protobuf, octet-stream}; path-bound strings <= 2 chars over [ab +/%?#], query strings <= 2 over [ab &=+%,;], body strings <= 3 printable ASCII, all integers full range, response with symbolic id/total/ok and 0..1 items; client and server are the emitted code, joined by an in-process transport and the mux model"},
        assumptions=E_ASSUMPTIONS + ["url.PathEscape/QueryEscape with the mux's unescaping, and url.Values.Encode with URL.Query, are modelled as the documented inverse pairs; http.Client.Do = Transport.RoundTrip; ServeMux registration/dispatch by a segment matcher",
                                     "non-ASCII text, map/oneof/optional body fields and the JSON-mapping annotations are not in this check's schema (C04/C05 family)"]),
    "C17": dict(mode="E", schemas=[dict(name="binding", run="go,go-http"), dict(name="roundtrip", run="go,go-http,go-client")],
                load_pkgs=["./gen/binding", "./gen/roundtrip"], pkgpath="verifmod/gen/binding", test_pkg="./gen/binding", test_pkgname="binding",
                init=[MOD + "/http", "verifmod/gen/binding", "verifmod/gen/roundtrip"],
                overlay={"gen/binding/zz_verif_c02.go": "harness/c02/c02_binding.go", "gen/binding/zz_verif_c17.go": "harness/c17/c17_server.go",
                         "gen/roundtrip/zz_verif_c01a.go": "harness/c01/c01_common.go", "gen/roundtrip/zz_verif_c17.go": "harness/c17/c17_client.go"},
                harnesses=[dict(func="VerifC17ServerHistory", reach=["C17/server/decided", "C17/server/dispatched"], quick=dict(budget=400, parts=8, flags=["-maxpaths", "200000"]), thorough=dict(budget=1500, parts=16, flags=["-maxpaths", "800000"])),
                           dict(func="VerifC17ClientOptions", pkgpath="verifmod/gen/roundtrip", test_pkg="./gen/roundtrip", test_pkgname="roundtrip",
                                reach=["C17/client/decided"], quick=dict(budget=200), thorough=dict(budget=600))],
                bounds_text={"quick": "server: two services (2 + 4 routes, two of them binding one request message with different path-variable sets) registered through the emitted Register*Server on one mux; request A then request B, each over 4 routes x header presence (service-level required+optional, method-level) x 2 ids (thorough: also malformed header values); B-after-A compared with B on a freshly registered server. client: call A then call B on one emitted client over 3 RPCs x per-call header options x per-call content type, compared with B on a fresh client"},
                assumptions=E_ASSUMPTIONS + ["sufficient condition only: sequential history independence and route/option isolation are decided; interleavings of concurrent calls are NOT explored (no schedule exploration in this family) and the race detector is not involved",
                                             "sync.Once is modelled sequentially"]),
    "C18": dict(mode="G", load_pkgs=["./internal/openapiv3"], pkgpath=MOD + "/internal/openapiv3", test_pkg="./internal/openapiv3", test_pkgname="openapiv3",
                overlay={"internal/openapiv3/zz_verif_c18.go": "harness/c18/c18_document.go"},
                harnesses=[dict(func="VerifC18Document", reach=["C18/decided", "C18/kf-collision"], quick=dict(budget=300, parts=4), thorough=dict(budget=900, parts=8)),
                           dict(func="VerifC18OneDocumentPerService", reach=["C18/per-service/decided"], quick=dict(budget=100), thorough=dict(budget=300))],
                bounds_text={"quick": "one service with 1-2 RPCs; request with path variables in 3 template shapes (0..2 variables; second bound to an int32/string field with or without the optional keyword), 5 verbs; response graph with a nested type that is used by a field or not, a type reachable only through that nested type (repeated or not) living in another package under an arbitrary short name ([A-Z][a-z]{0,4}, may coincide with other names), and a recursive type; the document is the in-memory v3.Document the real generator builds with the real libopenapi objects"},
                assumptions=["only the in-memory document is examined: YAML/JSON rendering (and their equivalence), the format parameter and file naming in cmd/protoc-gen-openapiv3 are outside this check",
                             "libopenapi's high-level model code (orderedmap, SchemaProxy, DynamicValue) is executed from its real source by the engine"]),
    "C20": dict(
        groups=[
            dict(G_HTTPGEN,
                 overlay={"internal/httpgen/zz_verif_c12_common.go": "harness/c12/c12_common.go", "internal/httpgen/zz_verif_c14.go": "harness/c14/c14_codecs.go",
                          "internal/httpgen/zz_verif_c20.go": "harness/c20/c20_mock_g.go", "internal/httpgen/zz_verif_c20w.go": "harness/c20/c20_world.go",
                          "internal/httpgen/zz_verif_c20t.go": "harness/c20/c20_mock_tree.go"},
                 harnesses=[dict(func="VerifC20MockTyping", reach=["C20/typing/decided", "C20/typing/cardinality", "C20/typing/width"], quick=dict(budget=200), thorough=dict(budget=600)),
                            dict(func="VerifC20MockMapTypes", reach=["C20/map/decided"], quick=dict(budget=100), thorough=dict(budget=300)),
                            dict(func="VerifC20MockTree", reach=["C20/tree/decided", "C20/tree/examples"], quick=dict(budget=100), thorough=dict(budget=300))]),
            dict(mode="E", replay_repeat=10,  # the native mock draws its example with the real math/rand
                 schemas=[dict(name="mock", run="go,go-http", param="paths=source_relative;go-http:generate_mock=true")],
                 load_pkgs=["./gen/mock"], pkgpath="verifmod/gen/mock", test_pkg="./gen/mock", test_pkgname="mock", init=[MOD + "/http", "verifmod/gen/mock"],
                 overlay={"gen/mock/zz_verif_c20.go": "harness/c20/c20_mock_e.go"},
                 harnesses=[dict(func="VerifC20Examples", reach=["C20/examples/decided"], quick=dict(budget=200), thorough=dict(budget=600))]),
        ],
        bounds_text={"quick": "typing: one response field of symbolic kind (quick 9 / thorough 17 kinds) x singular/optional/repeated/map; map types: map<K, Message> with 4 key kinds, value message in the same or another Go package; examples (emitted mock, regenerated with generate_mock=true): the example table is overwritten with arbitrary strings (int64 examples <= 11 chars over [0-9-x], strings <= 3, bool examples), math/rand.Intn is an arbitrary in-range index"},
        assumptions=E_ASSUMPTIONS + ["'builds' is decided as typing obligations on the emitted assignments (necessary conditions), not by compiling; the schema of the E-mode part compiles as a side effect of loading it",
                                     "conformance of mock answers to the published response schema (S3) is not covered yet"]),
    "C04": E_CODECS(
        harnesses=[dict(func=f, reach=[r], quick=dict(budget=200), thorough=dict(budget=600)) for f, r in [
                     ("VerifC04Int64", "C04/int64/decided"), ("VerifC04Nullable", "C04/nullable/decided"), ("VerifC04EmptyBehavior", "C04/empty_behavior/decided"),
                     ("VerifC04Flatten", "C04/flatten/decided"), ("VerifC04FlattenChild", "C04/flatten-child/decided"), ("VerifC04FlattenSameName", "C04/flatten-same-name/decided"), ("VerifC04Oneof", "C04/oneof/decided"),
                     ("VerifC04OneofFlat", "C04/oneof-flat/decided"), ("VerifC04Bytes", "C04/bytes/decided"), ("VerifC04Time", "C04/time/decided"), ("VerifC05UnwrapMap", "C04/unwrap-map/decided"), ("VerifC05UnwrapMapMessages", "C04/unwrap-map-messages/decided"), ("VerifC05UnwrapRoot", "C04/unwrap-root/decided")]],
        bounds_text={"quick": "one message type per annotation (int64 NUMBER singular/unsigned/repeated 0..2, nullable optional string+int32, empty_behavior PRESERVE/NULL/OMIT, flatten with prefix, flatten of a child with multi-word/64-bit fields, discriminated oneof nested and flattened with a custom oneof_value, bytes HEX/BASE64URL); all field values symbolic (integers full range, strings <= 2, presence bits, oneof case); obligations: MarshalJSON succeeds, UnmarshalJSON(MarshalJSON(m)) = m up to the documented losses, the canonical form M(m) is accepted"},
        assumptions=E_ASSUMPTIONS + CODEC_ASSUMPTIONS + ["go-client emits the same codec text as go-http for these features (decided by C14), so the client side is not re-run here"]),
    "C05": E_CODECS(
        harnesses=[dict(func=f, reach=[r], quick=dict(budget=200), thorough=dict(budget=600)) for f, r in [
                     ("VerifC04Int64", "C04/int64/decided"), ("VerifC04Nullable", "C04/nullable/decided"), ("VerifC04EmptyBehavior", "C04/empty_behavior/decided"),
                     ("VerifC04Flatten", "C04/flatten/decided"), ("VerifC04FlattenChild", "C04/flatten-child/decided"), ("VerifC04FlattenSameName", "C04/flatten-same-name/decided"), ("VerifC04Oneof", "C04/oneof/decided"),
                     ("VerifC04OneofFlat", "C04/oneof-flat/decided"), ("VerifC04Bytes", "C04/bytes/decided"), ("VerifC04Time", "C04/time/decided"), ("VerifC05UnwrapMap", "C04/unwrap-map/decided"), ("VerifC05UnwrapMapMessages", "C04/unwrap-map-messages/decided"), ("VerifC05UnwrapRoot", "C04/unwrap-root/decided"), ("VerifC05FlattenAnnotatedChild", "C05/flatten-annotated/decided")]] + [dict(func="VerifC05Nested", reach=["C05/nested/decided", "C05/nested/kf"], quick=dict(budget=200), thorough=dict(budget=600)),
                                                                                                   dict(func="VerifC05ResponsePath", reach=["C05/response-path/decided"], quick=dict(budget=100), thorough=dict(budget=300)),
                                                                                                   dict(func="VerifC05EnumCodec", reach=["C05/enum-codec/decided"], quick=dict(budget=60), thorough=dict(budget=120)),
                                                                                                   dict(func="VerifC05EnumInMessage", reach=["C05/enum/decided", "C05/enum/kf"], quick=dict(budget=60), thorough=dict(budget=120))],
        bounds_text={"quick": "as C04, with the obligation 'emitted JSON = reference mapping M(m)' (M transcribed from annotations.proto and the proto3 JSON mapping, DESIGN.md Appendix A) per message type; plus the nested contexts 'singular child' and 'list element' of an unannotated parent encoded through the emitted server response path (marshalResponse)"},
        assumptions=E_ASSUMPTIONS + CODEC_ASSUMPTIONS + ["contexts map value / plain oneof variant / sibling of an unwrap map are not covered yet"]),
    "C11": dict(
        groups=[
            E_CODECS(
        harnesses=[dict(func="VerifC11FlattenChildDecoder", reach=["C11/flatten-child/accepted", "C11/flatten-child/rejected"], quick=dict(budget=200), thorough=dict(budget=600)),
                   dict(func="VerifC11BytesDecoder", reach=["C11/bytes/accepted", "C11/bytes/rejected", "C11/bytes/invalid-text"], quick=dict(budget=60), thorough=dict(budget=200)),
                   dict(func="VerifC11Int64Decoder", reach=["C11/int64/accepted", "C11/int64/rejected", "C11/int64/null-list-element"], quick=dict(budget=200), thorough=dict(budget=600)),
                   dict(func="VerifC11TopLevel", reach=["C11/top-level/decided"], quick=dict(budget=200), thorough=dict(budget=600)),
                   dict(func="VerifC11OneofDecoder", reach=["C11/oneof/decided"], quick=dict(budget=200), thorough=dict(budget=600)),
                   dict(func="VerifC11TimeDecoder", reach=["C11/time/accepted", "C11/time/rejected"], quick=dict(budget=200), thorough=dict(budget=600)),
                   dict(func="VerifC11BinderRejectsTrailingData", reach=["C11/binder/decided"], quick=dict(budget=100), thorough=dict(budget=300))]),
            # the client half: the emitted Go client against the emitted server through the in-process transport
            # (responses of unknown length, every status): no panic, an error or a decoded response
            E_ROUNDTRIP(overlay={"gen/roundtrip/zz_verif_c01a.go": "harness/c01/c01_common.go", "gen/roundtrip/zz_verif_c01b.go": "harness/c01/c01_roundtrip.go"},
                        harnesses=[dict(func="VerifC01RoundTrip", reach=["C01/delivered"], quick=dict(budget=400, parts=8), thorough=dict(budget=1500, parts=16))]),
        ],
        bounds_text={"quick": "every custom decoder x top-level JSON category (null, bool, number, string, array, syntax error, {}, object with an unknown key); NUMBER-encoded int64/uint64/repeated fields x value of any category (integer full range, string <= 4 over [0-9a.-], fraction, 1e30, bool, null, array, object); discriminated oneof decoders x discriminator/variant of any category; obligations: no reachable panic, non-objects rejected, success only with every inspected value decoded to exactly what was sent"},
        assumptions=E_ASSUMPTIONS + CODEC_ASSUMPTIONS + ["robustness of the real encoding/json / protojson / proto parsers on raw bytes is trusted (library); resource exhaustion by size or depth is outside",
                                                         "client side: the round-trip harness of C01 (every RPC, status and content type, response length not announced) under the no-panic obligation; arbitrary malformed response bodies are covered only as far as C10's harness goes"]),
}
