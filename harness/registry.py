"""Registry of harnesses per property (read by /verif/check)."""

MOD = "github.com/SebastienMelki/sebuf"

COMMON_OVERLAY = {
    "internal/zzverif/verif.go": "harness/zzverif/verif.go",
    "internal/zzverif/desc.go": "harness/zzverif/desc.go",
    "internal/clientgen/zz_verif_export.go": "harness/export/clientgen_export.go",
    "internal/tsclientgen/zz_verif_export.go": "harness/export/tsclientgen_export.go",
    "internal/tsservergen/zz_verif_export.go": "harness/export/tsservergen_export.go",
    "internal/openapiv3/zz_verif_export.go": "harness/export/openapiv3_export.go",
}

DEFAULT_INIT = [MOD + "/http"] + [MOD + "/internal/" + p for p in
                                  ("annotations", "httpgen", "clientgen", "tscommon", "tsclientgen", "tsservergen", "openapiv3")]

COMMON_ASSUMPTIONS = [
    "solver verdicts (z3) are trusted; any (error or unknown answer is reported as inconclusive, never as success",
    "symbolic strings range over the stated alphabets only (printable ASCII unless a harness says otherwise); non-ASCII text is outside the claim",
    "library models listed under coverage.library_models_used replace the real library bodies (strings, fmt, strconv, errors, sort, regexp shape \\{([^}]+)\\}, proto.GetExtension, protogen recording stubs)",
    "descriptor well-formedness that protoc guarantees is assumed (unique field names, kind/message/enum consistency)",
    "package initialisers are executed only for the sebuf packages under test; reads of other uninitialised package variables abort the path as inconclusive",
]

G_HTTPGEN = dict(mode="G", load_pkgs=["./internal/httpgen"], pkgpath=MOD + "/internal/httpgen",
                 test_pkg="./internal/httpgen", test_pkgname="httpgen")

PROPERTIES = {
    "C03": dict(G_HTTPGEN,
                overlay={"internal/httpgen/zz_verif_c03.go": "harness/c03/c03_routes.go"},
                harnesses=[
                    dict(func="VerifC03Routes", reach=["C03/route", "C03/default-path-region"],
                         quick=dict(budget=400), thorough=dict(budget=1500)),
                ],
                bounds_text={
                    "quick": "1 service x 1 method; 9 base-path shapes x (no config | 11 path shapes incl. 0..3 variables, adjacent/first/last) x 4 method-name shapes x verb = any int32; path/base segments symbolic over [a-z_]{1..3}",
                    "thorough": "as quick with segments [a-z_]{1..6}",
                },
                assumptions=["base paths containing {variables} are outside the property's quantifier",
                             "Go package name fixed to 'userpb', proto package 'acme.v1' (only the default-path rule reads them; that rule is a listed known finding)"]),
}
