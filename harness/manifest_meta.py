"""Texts for MANIFEST.json (level claimed, trusted base) per property."""

NOTES = ("All checks are bounded solver-based checks of the real code: the encoding is regenerated from /repo's working tree on every run; "
         "bounds are stated in each evidence file (coverage.harness_bounds, coverage.bounds). Known findings are listed in known_findings.json.")

NOT_APPLICABLE = {
    "C08": "executing emitted TypeScript on a JS runtime against Go processes cannot be encoded: the family's front end here is go/ssa and there is no TS/JS symbolic engine or tsc on the image; the Go-side decisions feeding the TS text are covered under C03/C09/C13",
}

CHECKS = {
    "C03": dict(
        text="Bounded symbolic equivalence of the route decisions of all five generators (real getMethodPath/getHTTPMethod, clientgen/tsclientgen buildRPCMethodConfig, tsservergen buildRPCRouteConfig, openapiv3 extractMethodHTTPInfo, annotations.*) over symbolic base paths, path templates, verbs and names: z3 shows the five (verb, path) pairs equal for every input within the stated shape family or returns a concrete service definition, which is replayed natively.",
        note="Trusted: z3; models of strings/fmt/regexp(\\{([^}]+)\\}) and proto.GetExtension; descriptor fakes implement only the methods the generators call. Shapes of paths are enumerated (segments symbolic); default-path disagreement is a listed known finding.",
    ),
}
