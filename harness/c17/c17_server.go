package binding

import (
	"context"
	"net/http"
	"net/url"

	verif "verifmod/zzverif"
)

type c17Items struct {
	calls   int
	lastID  string
	lastVia string
}

func (s *c17Items) GetItem(_ context.Context, r *ItemReq) (*ItemResp, error) {
	s.calls, s.lastID, s.lastVia = s.calls+1, r.ItemId, "GetItem"
	return &ItemResp{Id: r.ItemId, Total: r.Big}, nil
}
func (s *c17Items) UpdateItem(_ context.Context, r *UpdateReq) (*ItemResp, error) {
	s.calls, s.lastID, s.lastVia = s.calls+1, r.ItemId, "UpdateItem"
	return &ItemResp{Id: r.ItemId, Total: int64(r.Count)}, nil
}

type c17Other struct {
	calls   int
	lastVia string
}

func (s *c17Other) Create(_ context.Context, r *OtherReq) (*ItemResp, error) {
	s.calls, s.lastVia = s.calls+1, "Create"
	return &ItemResp{Id: r.Name}, nil
}
func (s *c17Other) Remove(_ context.Context, r *OtherReq) (*ItemResp, error) {
	s.calls, s.lastVia = s.calls+1, "Remove"
	return &ItemResp{Id: r.Name}, nil
}

type c17Spec struct {
	route                         int // 0 GET item, 1 PUT item, 2 POST other/create, 3 DELETE other/remove
	id                            string
	apiKey, requestID, count, ten int // 0 absent, 1 valid, 2 malformed
}

const c17UUID = "123e4567-e89b-12d3-a456-426614174000"

func c17SymSpec(p string) c17Spec {
	modes := 2 // absent | valid
	if verif.Thorough() {
		modes = 3 // ... | malformed
	}
	return c17Spec{route: verif.Choice(p+".route", 4), id: []string{"a", "bb"}[verif.Choice(p+".id", 2)],
		apiKey: verif.Choice(p+".X-API-Key", modes), requestID: verif.Choice(p+".X-Request-ID", modes), count: verif.Choice(p+".X-Count", modes), ten: verif.Choice(p+".X-Tenant", 2)}
}

func c17Build(s c17Spec) *http.Request {
	r := &http.Request{Header: http.Header{}, URL: &url.URL{}}
	r.Header["Content-Type"] = []string{"application/json"}
	set := func(name string, mode int, valid string) {
		switch mode {
		case 1:
			r.Header[name] = []string{valid}
		case 2:
			r.Header[name] = []string{"zz"}
		}
	}
	set("X-Api-Key", s.apiKey, c17UUID)
	set("X-Request-Id", s.requestID, c17UUID)
	set("X-Count", s.count, "12")
	set("X-Tenant", s.ten, "t1")
	switch s.route {
	case 0:
		r.Method, r.URL.Path = "GET", "/api/v1/items/"+s.id
		verif.SetQuery(r, url.Values{"big": []string{"7"}})
	case 1:
		r.Method, r.URL.Path = "PUT", "/api/v1/items/"+s.id
		verif.SetQuery(r, url.Values{})
	case 2:
		r.Method, r.URL.Path = "POST", "/other/create"
		verif.SetQuery(r, url.Values{})
	default:
		r.Method, r.URL.Path = "DELETE", "/other/remove/"+s.id
		verif.SetQuery(r, url.Values{})
	}
	r.Body = verif.Body(nil)
	return r
}

type c17Outcome struct {
	status, itemCalls, otherCalls int
	via, id                       string
	violations                    int
}

func c17Run(mux *http.ServeMux, items *c17Items, other *c17Other, s c17Spec) c17Outcome {
	ic, oc := items.calls, other.calls
	w := verif.NewRecorder()
	mux.ServeHTTP(w, c17Build(s))
	o := c17Outcome{status: w.Status, itemCalls: items.calls - ic, otherCalls: other.calls - oc}
	if o.itemCalls > 0 {
		o.via, o.id = items.lastVia, items.lastID
	}
	if o.otherCalls > 0 {
		o.via = other.lastVia
	}
	if w.Status == 400 {
		_, o.violations = c02ViolationField(w)
	}
	return o
}

func c17NewServer() (*http.ServeMux, *c17Items, *c17Other) {
	mux := http.NewServeMux()
	items, other := &c17Items{}, &c17Other{}
	if RegisterItemServiceServer(items, WithMux(mux)) != nil || RegisterOtherServiceServer(other, WithMux(mux)) != nil {
		verif.Assert("C17/register", false)
	}
	return mux, items, other
}

// VerifC17ServerHistory: the outcome of a request does not depend on an earlier request
// to any route of any service of the same server: B after A equals B on a fresh server.
func VerifC17ServerHistory() {
	a, b := c17SymSpec("A"), c17SymSpec("B")
	verif.Assume(b.id != "" && a.id != "")
	mux1, i1, o1 := c17NewServer()
	_ = c17Run(mux1, i1, o1, a)
	after := c17Run(mux1, i1, o1, b)
	mux2, i2, o2 := c17NewServer()
	alone := c17Run(mux2, i2, o2, b)
	verif.Show("alone.status", alone.status)
	verif.Show("after.status", after.status)
	verif.Show("alone.violations", alone.violations)
	verif.Show("after.violations", after.violations)
	verif.Assert("C17/server/same-status", after.status == alone.status)
	verif.Assert("C17/server/same-handler", after.via == alone.via && after.itemCalls == alone.itemCalls && after.otherCalls == alone.otherCalls)
	verif.Assert("C17/server/same-request-seen", after.id == alone.id)
	verif.Assert("C17/server/same-violations", after.violations == alone.violations)
	verif.Reach("C17/server/decided")
}
