package binding

import (
	"context"
	"net/http"
	"net/url"

	verif "verifmod/zzverif"
)

type c17Items struct {
	calls    int
	lastID   string
	lastVia  string
	lastSeen string // the other handler-visible request fields, rendered
}

func (s *c17Items) GetItem(_ context.Context, r *ItemReq) (*ItemResp, error) {
	s.calls, s.lastID, s.lastVia = s.calls+1, r.ItemId, "GetItem"
	s.lastSeen = c17Render(r.Big, 0, "")
	return &ItemResp{Id: r.ItemId, Total: r.Big}, nil
}
func (s *c17Items) UpdateItem(_ context.Context, r *UpdateReq) (*ItemResp, error) {
	s.calls, s.lastID, s.lastVia = s.calls+1, r.ItemId, "UpdateItem"
	s.lastSeen = c17Render(r.Big, r.Count, r.Note)
	return &ItemResp{Id: r.ItemId, Total: int64(r.Count)}, nil
}

type c17Other struct {
	calls    int
	lastVia  string
	lastSeen string
}

// c17Render: the request fields a handler saw, as text (small concrete value sets)
func c17Render(big int64, count int32, note string) string {
	out := "big="
	switch big {
	case 0:
		out += "0"
	case 7:
		out += "7"
	case 9:
		out += "9"
	default:
		out += "?"
	}
	switch count {
	case 0:
		out += " count=0"
	case 3:
		out += " count=3"
	default:
		out += " count=?"
	}
	return out + " note=" + note
}

func (s *c17Other) Create(_ context.Context, r *OtherReq) (*ItemResp, error) {
	s.calls, s.lastVia, s.lastSeen = s.calls+1, "Create", "name="+r.Name
	return &ItemResp{Id: r.Name}, nil
}
func (s *c17Other) Remove(_ context.Context, r *OtherReq) (*ItemResp, error) {
	s.calls, s.lastVia, s.lastSeen = s.calls+1, "Remove", "name="+r.Name
	return &ItemResp{Id: r.Name}, nil
}

func (s *c17Other) AddZone(_ context.Context, r *ZoneReq) (*ItemResp, error) {
	s.calls, s.lastVia, s.lastSeen = s.calls+1, "AddZone", "org="+r.Org+" zone="+r.ZoneId
	return &ItemResp{Id: r.Org}, nil
}
func (s *c17Other) SetZone(_ context.Context, r *ZoneReq) (*ItemResp, error) {
	s.calls, s.lastVia, s.lastSeen = s.calls+1, "SetZone", "org="+r.Org+" zone="+r.ZoneId
	return &ItemResp{Id: r.Org}, nil
}

type c17Spec struct {
	route                         int // 0 GET item, 1 PUT item, 2 POST other/create, 3 DELETE other/remove, 4 POST orgs/o/zones, 5 PUT orgs/o/zones/{id}
	id                            string
	apiKey, requestID, count, ten int // 0 absent, 1 valid, 2 malformed
	query, body                   int // URL parameters / body contents: see c17Build
}

const c17UUID = "123e4567-e89b-12d3-a456-426614174000"

func c17SymSpec(p string) c17Spec {
	modes := 2 // absent | valid
	if verif.Thorough() {
		modes = 3 // ... | malformed
	}
	// the earlier request (A): every route, URL parameter and body variant, valid headers;
	// the later request (B): additionally every header absent/valid (thorough: malformed)
	sp := c17Spec{route: verif.Choice(p+".route", 6), id: "a", apiKey: 1, requestID: 1, count: 1, ten: 1,
		query: verif.Choice(p+".query", 3), body: verif.Choice(p+".body", 3)}
	if p == "B" {
		sp.id = []string{"a", "bb"}[verif.Choice(p+".id", 2)]
		sp.apiKey, sp.requestID, sp.count, sp.ten = verif.Choice(p+".X-API-Key", modes), verif.Choice(p+".X-Request-ID", modes), verif.Choice(p+".X-Count", modes), verif.Choice(p+".X-Tenant", 2)
	}
	return sp
}

func c17Build(s c17Spec) *http.Request {
	r := &http.Request{Header: http.Header{}, URL: &url.URL{}}
	r.Header["Content-Type"] = []string{"application/json"}
	set := func(name string, mode int, valid string) {
		switch mode {
		case 1:
			r.Header[name] = []string{valid}
		case 2:
			r.Header[name] = []string{"zz"}
		}
	}
	set("X-Api-Key", s.apiKey, c17UUID)
	set("X-Request-Id", s.requestID, c17UUID)
	set("X-Count", s.count, "12")
	set("X-Tenant", s.ten, "t1")
	// query: 0 no parameter, 1 and 2 two different values; body (PUT/POST only): 0 empty,
	// 1 and 2 two different documents
	r.Body = verif.Body(nil)
	switch s.route {
	case 0:
		r.Method, r.URL.Path = "GET", "/api/v1/items/"+s.id
		verif.SetQuery(r, []url.Values{{}, {"big": []string{"7"}}, {"big": []string{"9"}}}[s.query])
	case 1:
		r.Method, r.URL.Path = "PUT", "/api/v1/items/"+s.id
		verif.SetQuery(r, []url.Values{{}, {"count": []string{"3"}}, {}}[s.query])
		switch s.body {
		case 1:
			r.Body = verif.Body(verif.JObj("note", verif.JStr("n1")))
		case 2:
			r.Body = verif.Body(verif.JObj("big", verif.JStr("9")))
		}
	case 2:
		r.Method, r.URL.Path = "POST", "/other/create"
		verif.SetQuery(r, url.Values{})
		switch s.body {
		case 1:
			r.Body = verif.Body(verif.JObj("name", verif.JStr("alice")))
		case 2:
			r.Body = verif.Body(verif.JObj("name", verif.JStr("bob")))
		}
	case 3:
		r.Method, r.URL.Path = "DELETE", "/other/remove/"+s.id
		verif.SetQuery(r, url.Values{})
	case 4:
		r.Method, r.URL.Path = "POST", "/other/orgs/acme/zones"
		verif.SetQuery(r, url.Values{})
	default:
		r.Method, r.URL.Path = "PUT", "/other/orgs/acme/zones/"+s.id
		verif.SetQuery(r, url.Values{})
	}
	return r
}

type c17Outcome struct {
	status, itemCalls, otherCalls int
	via, id, seen                 string
	violations                    int
}

func c17Run(mux *http.ServeMux, items *c17Items, other *c17Other, s c17Spec) c17Outcome {
	ic, oc := items.calls, other.calls
	w := verif.NewRecorder()
	mux.ServeHTTP(w, c17Build(s))
	o := c17Outcome{status: w.Status, itemCalls: items.calls - ic, otherCalls: other.calls - oc}
	if o.itemCalls > 0 {
		o.via, o.id, o.seen = items.lastVia, items.lastID, items.lastSeen
	}
	if o.otherCalls > 0 {
		o.via, o.seen = other.lastVia, other.lastSeen
	}
	if w.Status == 400 {
		_, o.violations = c02ViolationField(w)
	}
	return o
}

func c17NewServer() (*http.ServeMux, *c17Items, *c17Other) {
	mux := http.NewServeMux()
	items, other := &c17Items{}, &c17Other{}
	if RegisterItemServiceServer(items, WithMux(mux)) != nil || RegisterOtherServiceServer(other, WithMux(mux)) != nil {
		verif.Assert("C17/register", false)
	}
	return mux, items, other
}

// VerifC17ServerHistory: the outcome of a request does not depend on an earlier request
// to any route of any service of the same server: B after A equals B on a fresh server.
func VerifC17ServerHistory() {
	a, b := c17SymSpec("A"), c17SymSpec("B")
	verif.Assume(b.id != "" && a.id != "")
	mux1, i1, o1 := c17NewServer()
	_ = c17Run(mux1, i1, o1, a)
	after := c17Run(mux1, i1, o1, b)
	mux2, i2, o2 := c17NewServer()
	alone := c17Run(mux2, i2, o2, b)
	verif.Show("alone.status", alone.status)
	verif.Show("after.status", after.status)
	verif.Show("alone.violations", alone.violations)
	verif.Show("after.violations", after.violations)
	verif.Assert("C17/server/same-status", after.status == alone.status)
	verif.Assert("C17/server/same-handler", after.via == alone.via && after.itemCalls == alone.itemCalls && after.otherCalls == alone.otherCalls)
	verif.Show("alone.seen", alone.seen)
	verif.Show("after.seen", after.seen)
	verif.Assert("C17/server/same-request-seen", after.id == alone.id && after.seen == alone.seen)
	verif.Assert("C17/server/same-violations", after.violations == alone.violations)
	// state that outlives a server (package-level caches) is shared by both runs above: the
	// later request is therefore also compared with what the request itself says
	if after.status == 200 {
		switch b.route {
		case 0, 1:
			verif.Assert("C17/server/later-request-delivers-its-own-path-value", after.id == b.id)
		case 3:
			verif.Assert("C17/server/later-request-delivers-its-own-path-value", after.seen == "name="+b.id)
		case 4:
			verif.Assert("C17/server/later-request-delivers-its-own-path-value", after.seen == "org=acme zone=")
		case 5:
			verif.Assert("C17/server/later-request-delivers-its-own-path-value", after.seen == "org=acme zone="+b.id)
		}
		verif.Reach("C17/server/dispatched")
	}
	verif.Reach("C17/server/decided")
}
