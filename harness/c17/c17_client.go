package roundtrip

import (
	"context"
	"net/http"

	verif "verifmod/zzverif"
)

func c17NewClient() (ThingServiceClient, *c01Transport) {
	mux := http.NewServeMux()
	srv := &c01Server{ret: &Thing{Id: "x"}}
	if RegisterThingServiceServer(srv, WithMux(mux)) != nil {
		verif.Assert("C17/register", false)
	}
	tr := &c01Transport{mux: mux}
	c := NewThingServiceClient("http://svc.test", WithThingServiceHTTPClient(&http.Client{Transport: tr}),
		WithThingServiceAPIKey("key-1"), WithThingServiceDefaultHeader("X-Default", "d"))
	return c, tr
}

func c17Call(c ThingServiceClient, which int, perCallHeader, perCallCT bool, hv string) {
	var opts []ThingServiceCallOption
	if perCallHeader {
		opts = append(opts, WithThingServiceHeader("X-Trace", hv), WithThingServiceCallRequestID("r-"+hv))
	}
	if perCallCT {
		opts = append(opts, WithThingServiceCallContentType("application/x-protobuf"))
	}
	ctx := context.Background()
	switch which {
	case 0:
		_, _ = c.CreateThing(ctx, &CreateReq{Note: "n"}, opts...)
	case 1:
		_, _ = c.GetThing(ctx, &GetReq{ThingId: "a", Big: 5}, opts...)
	default:
		_, _ = c.UpdateThing(ctx, &UpdateReq{ThingId: "a", Note: "n"}, opts...)
	}
}

func c17SameHeaders(a, b http.Header) bool {
	for _, k := range []string{"Content-Type", "X-Api-Key", "X-Default", "X-Trace", "X-Request-Id"} {
		if a.Get(k) != b.Get(k) {
			return false
		}
	}
	return true
}

// VerifC17ClientOptions: per-call options affect only their own call: the request the
// client emits for call B after an arbitrary call A (with per-call headers / content
// type) equals the request it emits for B on a fresh client.
func VerifC17ClientOptions() {
	aWhich, bWhich := verif.Choice("A.rpc", 3), verif.Choice("B.rpc", 3)
	aHdr, aCT := verif.Bool("A.perCallHeader"), verif.Bool("A.perCallContentType")
	bHdr, bCT := verif.Bool("B.perCallHeader"), verif.Bool("B.perCallContentType")
	hvA, hvB := verif.StringIn("A.headerValue", verif.L(1), "ab"), verif.StringIn("B.headerValue", verif.L(1), "ab")
	c1, t1 := c17NewClient()
	c17Call(c1, aWhich, aHdr, aCT, hvA)
	c17Call(c1, bWhich, bHdr, bCT, hvB)
	c2, t2 := c17NewClient()
	c17Call(c2, bWhich, bHdr, bCT, hvB)
	verif.Assert("C17/client/both-calls-sent", len(t1.seen) == 2 && len(t2.seen) == 1)
	verif.Show("after.X-Trace", t1.seen[1].Get("X-Trace"))
	verif.Show("alone.X-Trace", t2.seen[0].Get("X-Trace"))
	verif.Assert("C17/client/second-call-unaffected-by-first", c17SameHeaders(t1.seen[1], t2.seen[0]))
	verif.Reach("C17/client/decided")
}
