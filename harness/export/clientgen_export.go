package clientgen

import (
	"google.golang.org/protobuf/compiler/protogen"

	"github.com/SebastienMelki/sebuf/internal/annotations"
)

// VerifRoute exposes the route decision of the Go client generator.
func VerifRoute(svc *protogen.Service, m *protogen.Method) (verb, path string, pathParams []string, query []annotations.QueryParam, hasBody bool) {
	c := (&Generator{}).buildRPCMethodConfig(svc, m)
	return c.httpMethod, c.fullPath, c.pathParams, c.queryParams, c.hasBody
}

// VerifGenerate runs the Go client generator over the file set.
func VerifGenerate(files []*protogen.File) error {
	return New(&protogen.Plugin{Files: files}).Generate()
}

// VerifGenerateWith runs the Go client generator with the given plugin (so that the
// caller can read the emission trace of exactly this generator).
func VerifGenerateWith(p *protogen.Plugin) error { return New(p).Generate() }

func VerifSnakeToUpperCamel(s string) string  { return snakeToUpperCamel(s) }
func VerifHeaderNameToFuncName(s string) string { return headerNameToFuncName(s) }

// VerifURLLines returns the Go lines the client emits to build the request URL of a method.
func VerifURLLines(svc *protogen.Service, m *protogen.Method) *protogen.Plugin {
	p := &protogen.Plugin{}
	g := New(p)
	gf := p.NewGeneratedFile("url.go", "")
	c := g.buildRPCMethodConfig(svc, m)
	g.generateURLBuilding(gf, m.Input, c.fullPath, c.pathParams, c.queryParams, c.httpMethod)
	return p
}

// VerifURLLinesFor emits the URL building for an explicit path and path-variable list
// (no template parsing).
func VerifURLLinesFor(input *protogen.Message, fullPath string, pathParams []string) *protogen.Plugin {
	p := &protogen.Plugin{}
	g := New(p)
	gf := p.NewGeneratedFile("url.go", "")
	g.generateURLBuilding(gf, input, fullPath, pathParams, nil, "GET")
	return p
}
