package tsclientgen

import (
	"fmt"

	"google.golang.org/protobuf/compiler/protogen"

	"github.com/SebastienMelki/sebuf/internal/annotations"
)

// VerifRoute exposes the route decision of the TS client generator.
func VerifRoute(svc *protogen.Service, m *protogen.Method) (verb, path string, pathParams []string, query []annotations.QueryParam, hasBody bool) {
	c := (&Generator{}).buildRPCMethodConfig(svc, m)
	return c.httpMethod, c.fullPath, c.pathParams, c.queryParams, c.hasBody
}

// VerifMethodLines returns the TypeScript lines emitted for one client method.
func VerifMethodLines(svc *protogen.Service, m *protogen.Method) []string {
	var lines []string
	p := func(format string, args ...interface{}) { lines = append(lines, fmt.Sprintf(format, args...)) }
	(&Generator{}).generateRPCMethod(p, svc, m)
	return lines
}

// VerifGenerateWith runs the TS client generator with the given plugin.
func VerifGenerateWith(p *protogen.Plugin) error { return New(p).Generate() }
