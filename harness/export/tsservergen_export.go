package tsservergen

import (
	"fmt"

	"google.golang.org/protobuf/compiler/protogen"

	"github.com/SebastienMelki/sebuf/internal/annotations"
)

// VerifRoute exposes the route decision of the TS server generator.
func VerifRoute(svc *protogen.Service, m *protogen.Method) (verb, path string, pathParams []string, query []annotations.QueryParam, hasBody bool, err error) {
	c, err := (&Generator{}).buildRPCRouteConfig(svc, m)
	if err != nil {
		return "", "", nil, nil, false, err
	}
	return c.httpMethod, c.fullPath, c.pathParams, c.queryParams, c.hasBody, nil
}

// VerifRouteLines returns the TypeScript lines emitted for one route entry.
func VerifRouteLines(svc *protogen.Service, m *protogen.Method) ([]string, error) {
	var lines []string
	p := func(format string, args ...interface{}) { lines = append(lines, fmt.Sprintf(format, args...)) }
	err := (&Generator{}).generateRouteEntry(p, svc, m)
	return lines, err
}

// VerifGenerateWith runs the TS server generator with the given plugin.
func VerifGenerateWith(p *protogen.Plugin) error { return New(p).Generate() }
