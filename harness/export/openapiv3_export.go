package openapiv3

import (
	"google.golang.org/protobuf/compiler/protogen"
)

// VerifRoute exposes the route decision of the OpenAPI generator.
func VerifRoute(svc *protogen.Service, m *protogen.Method) (verb, path string, pathParams []string) {
	i := extractMethodHTTPInfo(svc, m)
	return i.httpMethod, i.path, i.pathParams
}
