package openapiv3

import (
	v3 "github.com/pb33f/libopenapi/datamodel/high/v3"
	"google.golang.org/protobuf/compiler/protogen"
)

// VerifRoute exposes the route decision of the OpenAPI generator.
func VerifRoute(svc *protogen.Service, m *protogen.Method) (verb, path string, pathParams []string) {
	i := extractMethodHTTPInfo(svc, m)
	return i.httpMethod, i.path, i.pathParams
}

// VerifParams returns the names of the path and query parameters the OpenAPI
// generator declares for a method.
func VerifParams(svc *protogen.Service, m *protogen.Method) (path, query []string) {
	// the parameters of the operation the real processMethod publishes for m
	g := NewGenerator(FormatYAML)
	g.processMethod(svc, m)
	for pair := g.doc.Paths.PathItems.First(); pair != nil; pair = pair.Next() {
		pi := pair.Value()
		for _, op := range []*v3.Operation{pi.Get, pi.Post, pi.Put, pi.Delete, pi.Patch} {
			if op == nil {
				continue
			}
			for _, p := range op.Parameters {
				switch p.In {
				case "path":
					path = append(path, p.Name)
				case "query":
					query = append(query, p.Name)
				}
			}
		}
	}
	return
}

// VerifHasRequestBody reports whether the operation published for m declares a request body.
func VerifHasRequestBody(svc *protogen.Service, m *protogen.Method) bool {
	g := NewGenerator(FormatYAML)
	g.processMethod(svc, m)
	for pair := g.doc.Paths.PathItems.First(); pair != nil; pair = pair.Next() {
		pi := pair.Value()
		for _, op := range []*v3.Operation{pi.Get, pi.Post, pi.Put, pi.Delete, pi.Patch} {
			if op != nil && op.RequestBody != nil {
				return true
			}
		}
	}
	return false
}
