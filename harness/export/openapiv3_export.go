package openapiv3

import (
	"google.golang.org/protobuf/compiler/protogen"
)

// VerifRoute exposes the route decision of the OpenAPI generator.
func VerifRoute(svc *protogen.Service, m *protogen.Method) (verb, path string, pathParams []string) {
	i := extractMethodHTTPInfo(svc, m)
	return i.httpMethod, i.path, i.pathParams
}

// VerifParams returns the names of the path and query parameters the OpenAPI
// generator declares for a method.
func VerifParams(svc *protogen.Service, m *protogen.Method) (path, query []string) {
	g := NewGenerator(FormatYAML)
	i := extractMethodHTTPInfo(svc, m)
	for _, p := range g.buildPathParameters(m, i.pathParams) {
		path = append(path, p.Name)
	}
	for _, p := range g.buildQueryParameters(m) {
		query = append(query, p.Name)
	}
	return
}
