package httpgen

import (
	"google.golang.org/protobuf/compiler/protogen"
	"google.golang.org/protobuf/reflect/protoreflect"
	"google.golang.org/protobuf/types/descriptorpb"

	"github.com/SebastienMelki/sebuf/http"
	"github.com/SebastienMelki/sebuf/internal/annotations"
	"github.com/SebastienMelki/sebuf/internal/clientgen"
	"github.com/SebastienMelki/sebuf/internal/openapiv3"
	"github.com/SebastienMelki/sebuf/internal/tscommon"
	verif "github.com/SebastienMelki/sebuf/internal/zzverif"
)

// c16Graph builds n messages; every message has a scalar field and k message-typed
// fields whose targets are chosen arbitrarily among all messages (so direct and
// mutual recursion are in the space). Returns the messages and whether a cycle of
// singular message fields is reachable from message 0.
func c16Graph(n, k int) []*protogen.Message {
	msgs := make([]*protogen.Message, n)
	names := []string{"A", "B", "C", "D"}
	for i := range msgs {
		msgs[i] = verif.NewMessage("acme.v1", names[i])
		verif.AddField(msgs[i], &verif.FieldDesc{FName: "id", FJSON: "id", FKind: protoreflect.StringKind, FNumber: 1, FOpts: &descriptorpb.FieldOptions{}}, "Id")
	}
	for i := range msgs {
		for j := 0; j < k; j++ {
			t := verif.Choice("edge."+names[i]+"."+string(rune('0'+j)), n+1)
			if t == n {
				continue // no such field
			}
			fname := "ref" + string(rune('0'+j))
			repeated := false
			if j == 1 {
				repeated = verif.Bool("edge." + names[i] + ".1.repeated")
			}
			f := verif.AddField(msgs[i], &verif.FieldDesc{FName: fname, FJSON: fname, FKind: protoreflect.MessageKind, FList: repeated, FNumber: int32(2 + j),
				FOpts: &descriptorpb.FieldOptions{}, FMsg: msgs[t].Desc}, "Ref"+string(rune('0'+j)))
			f.Message = msgs[t]
		}
	}
	return msgs
}

func c16ServiceFile(in, out *protogen.Message, all []*protogen.Message) *protogen.File {
	svc := verif.NewService("acme.v1", "GraphService", &descriptorpb.ServiceOptions{})
	mo := &descriptorpb.MethodOptions{}
	verif.SetExt(mo, http.E_Config, &http.HttpConfig{Path: "/graph", Method: http.HttpMethod_HTTP_METHOD_POST})
	verif.NewMethod(svc, "Walk", "Walk", in, out, mo)
	file := verif.NewFile("acme/v1/graph.proto", "acme.v1", "acmev1", "acme/v1/graph")
	file.Services = []*protogen.Service{svc}
	file.Messages = all
	return file
}

// singularCycleFrom reports whether a cycle of singular (non-repeated, non-map)
// message fields is reachable from m.
func c16SingularCycleFrom(m *protogen.Message, onStack map[*protogen.Message]bool, depth int) bool {
	if onStack[m] {
		return true
	}
	if depth > 6 {
		return false
	}
	onStack[m] = true
	for _, f := range m.Fields {
		if f.Message != nil && !f.Desc.IsList() && !f.Desc.IsMap() {
			if c16SingularCycleFrom(f.Message, onStack, depth+1) {
				return true
			}
		}
	}
	onStack[m] = false
	return false
}

// VerifC16Traversals: on every message graph (incl. recursive ones) the message
// traversals of the TS generators and both Go generators finish within a linear budget.
func VerifC16Traversals() {
	msgs := c16Graph(3, 2)
	file := c16ServiceFile(msgs[0], msgs[1], msgs)
	verif.Budget("C16/tscommon/collect-terminates", 60000, 3000, func() {
		ms := tscommon.CollectServiceMessages(file)
		_ = ms.OrderedMessages()
	})
	verif.Budget("C16/go-http/generate-terminates", 3000000, 20000, func() {
		_ = New(&protogen.Plugin{Files: []*protogen.File{file}}).Generate()
	})
	verif.Budget("C16/go-client/generate-terminates", 3000000, 20000, func() {
		_ = clientgen.VerifGenerate([]*protogen.File{file})
	})
	verif.Budget("C16/openapiv3/collect-terminates", 3000000, 20000, func() {
		g := openapiv3.NewGenerator(openapiv3.FormatYAML)
		g.CollectReferencedMessages(file.Services[0])
	})
	verif.Reach("C16/traversals/decided")
}

// VerifC16Mock: mock generation on every message graph.
func VerifC16Mock() {
	msgs := c16Graph(3, 2)
	file := c16ServiceFile(msgs[0], msgs[1], msgs)
	cyc := c16SingularCycleFrom(msgs[1], map[*protogen.Message]bool{}, 0)
	run := func() {
		g := NewWithOptions(&protogen.Plugin{Files: []*protogen.File{file}}, Options{GenerateMock: true})
		_ = g.Generate()
	}
	if cyc {
		verif.Budget("C16/mock/generate-terminates-on-recursive-response", 3000000, 20000, run)
		verif.Reach("C16/mock/recursive")
		return
	}
	verif.Budget("C16/mock/generate-terminates", 3000000, 20000, run)
	verif.Reach("C16/mock/decided")
}

// VerifC16DeepDiamond: a chain of levels, each referencing the next through two
// fields (acyclic): traversal cost must stay linear in the number of messages.
func VerifC16DeepDiamond() {
	n := 16
	if !verif.Symbolic() {
		n = 34 // natively an exponential traversal of this depth does not finish in the time budget
	}
	msgs := make([]*protogen.Message, n)
	for i := n - 1; i >= 0; i-- {
		msgs[i] = verif.NewMessage("acme.v1", "L"+string(rune('a'+i%26))+string(rune('a'+i/26)))
		verif.AddField(msgs[i], &verif.FieldDesc{FName: "id", FJSON: "id", FKind: protoreflect.StringKind, FNumber: 1, FOpts: &descriptorpb.FieldOptions{}}, "Id")
		if i < n-1 {
			for j := 0; j < 2; j++ {
				fname := "next" + string(rune('0'+j))
				f := verif.AddField(msgs[i], &verif.FieldDesc{FName: fname, FJSON: fname, FKind: protoreflect.MessageKind, FList: true, FNumber: int32(2 + j),
					FOpts: &descriptorpb.FieldOptions{}, FMsg: msgs[i+1].Desc}, "Next"+string(rune('0'+j)))
				f.Message = msgs[i+1]
			}
		}
	}
	file := c16ServiceFile(msgs[0], msgs[0], msgs)
	verif.Budget("C16/diamond/tscommon-linear", 40000*n/16, 5000, func() {
		_ = tscommon.CollectServiceMessages(file).OrderedMessages()
	})
	verif.Budget("C16/diamond/go-http-linear", 4000000*n/16, 30000, func() {
		_ = New(&protogen.Plugin{Files: []*protogen.File{file}}).Generate()
	})
	verif.Budget("C16/diamond/openapiv3-linear", 6000000*n/16, 30000, func() {
		g := openapiv3.NewGenerator(openapiv3.FormatYAML)
		g.CollectReferencedMessages(file.Services[0])
	})
	verif.Reach("C16/diamond/decided")
}

// VerifC16NameKernels*: the identifier conversion helpers of all generators never
// panic, for every identifier-like name (incl. doubled / leading / trailing separators).
func VerifC16NameKernelsSnake() {
	snake := verif.StringIn("snake", 4, "ab_")
	_ = tscommon.SnakeToLowerCamel(snake)
	_ = clientgen.VerifSnakeToUpperCamel(snake)
	verif.Reach("C16/kernels/snake")
}

func VerifC16NameKernelsHeader() {
	header := verif.StringIn("header", 5, "aAX-")
	_ = tscommon.HeaderNameToPropertyName(header)
	_ = clientgen.VerifHeaderNameToFuncName(header)
	verif.Reach("C16/kernels/header")
}

func VerifC16NameKernelsCamel() {
	camel := verif.StringIn("camel", 4, "aAZ0")
	_ = camelToSnake(camel)
	_ = annotations.LowerFirst(camel)
	verif.Reach("C16/kernels/camel")
}

// VerifC16AnswersForAnyHTTPConfig: for every HTTP configuration of a method — valid or breaking a
// rule (a path variable without a field, a field bound twice, more bound names than the request
// has fields, unbound fields under a bodiless verb) — both Go generators answer with files or
// with an error; they never panic and stay within the work budget.
func VerifC16AnswersForAnyHTTPConfig() {
	files, _ := c12HTTPFiles()
	verif.Budget("go-http", 3000000, 20000, func() { _ = New(&protogen.Plugin{Files: files}).Generate() })
	verif.Budget("go-http+mock", 3000000, 20000, func() { _ = NewWithOptions(&protogen.Plugin{Files: files}, Options{GenerateMock: true}).Generate() })
	verif.Budget("go-client", 3000000, 20000, func() { _ = clientgen.VerifGenerate(files) })
	verif.Reach("C16/http-config/decided")
}
