package openapiv3

import (
	"google.golang.org/protobuf/reflect/protoreflect"
	"google.golang.org/protobuf/types/descriptorpb"

	"github.com/SebastienMelki/sebuf/http"
	verif "github.com/SebastienMelki/sebuf/internal/zzverif"
)

// VerifC16OpenAPIAnswersForAnyAnnotation: protoc-gen-openapiv3 performs no annotation
// validation of its own, so it meets every annotation on every field kind and cardinality —
// also the combinations go-http refuses. It must still answer (a document or an error), never
// crash: the engine's no-panic obligation over the schema builders for one field of any kind x
// cardinality x {nullable, empty_behavior, int64/enum/bytes encoding, timestamp_format,
// flatten, unwrap}, each set or not.
func VerifC16OpenAPIAnswersForAnyAnnotation() {
	w := c06NewWorld(false)
	msg := c06Msg("Msg")
	c06Add(msg, &verif.FieldDesc{FName: "note", FJSON: "note", FKind: protoreflect.StringKind})
	opts := &descriptorpb.FieldOptions{}
	kind := c06ScalarKinds[verif.Choice("f.kind", len(c06ScalarKinds))]
	el := c06Elem{kind: kind}
	if kind == protoreflect.MessageKind {
		el.isTimestamp = verif.Bool("f.isTimestamp")
	}
	// one annotation at a time (plus none), on every kind and cardinality
	switch verif.Choice("annotation", 12) {
	case 1:
		verif.SetExt(opts, http.E_Nullable, true)
	case 2, 3, 4:
		verif.SetExt(opts, http.E_EmptyBehavior, http.EmptyBehavior(verif.Choice("empty_behavior", 3)+1))
	case 5:
		verif.SetExt(opts, http.E_Int64Encoding, http.Int64Encoding_INT64_ENCODING_NUMBER)
	case 6:
		verif.SetExt(opts, http.E_EnumEncoding, http.EnumEncoding_ENUM_ENCODING_NUMBER)
	case 7:
		verif.SetExt(opts, http.E_TimestampFormat, http.TimestampFormat(verif.Choice("timestamp_format", 3)+2))
	case 8:
		verif.SetExt(opts, http.E_Flatten, true)
	case 9:
		verif.SetExt(opts, http.E_Unwrap, true)
	case 10:
		verif.SetExt(opts, http.E_BytesEncoding, http.BytesEncoding_BYTES_ENCODING_HEX)
	case 11:
		verif.SetExt(opts, http.E_Nullable, true)
		verif.SetExt(opts, http.E_EmptyBehavior, http.EmptyBehavior_EMPTY_BEHAVIOR_NULL)
	}
	d := &verif.FieldDesc{FName: "f", FJSON: "f", FKind: kind, FOpts: opts}
	switch verif.Choice("cardinality", 3) {
	case 1:
		d.FOptional = true
	case 2:
		d.FList = true
	}
	f := c06Add(msg, d)
	el.attach(w, f, d)
	g := NewGenerator(FormatYAML)
	g.ProcessMessage(msg)
	g.ProcessMessage(w.child)
	verif.Reach("C16/openapi-any/decided")
}
