package httpgen

import (
	"google.golang.org/protobuf/compiler/protogen"

	verif "github.com/SebastienMelki/sebuf/internal/zzverif"
)

// VerifC16MockMapCycles: mock generation terminates (linear work) when the response graph
// has cycles closed through map values, singular fields, or both.
func VerifC16MockMapCycles() {
	a, b := c20Msg("NodeA", "label"), c20Msg("NodeB", "label")
	msgs := []*protogen.Message{a, b}
	edge := func(name string, from *protogen.Message) {
		target := msgs[verif.Choice(name+".target", 2)]
		switch verif.Choice(name+".kind", 3) {
		case 0:
		case 1:
			c20Ref(from, name, target)
		default:
			c20MapRef(from, name, target)
		}
	}
	edge("x", a)
	edge("y", a)
	edge("z", b)
	svc, req := c20Service("Graph", a)
	file := verif.NewFile("acme/v1/graph.proto", "acme.v1", "acmev1", "acme/v1/graph")
	file.Services, file.Messages = []*protogen.Service{svc}, []*protogen.Message{req, a, b}
	p := &protogen.Plugin{Files: []*protogen.File{file}}
	verif.Budget("C16/mock-maps/generate-terminates-on-map-cycles", 400000, 5000, func() {
		_ = NewWithOptions(p, Options{GenerateMock: true}).Generate()
	})
	verif.Reach("C16/mock-maps/decided")
}

