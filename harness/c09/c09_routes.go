package binding

import (
	verif "verifmod/zzverif"
)

// VerifC09PerRoute: on a server registered through the emitted Register*Server functions, every
// route checks exactly the headers declared for its own service and method: a request to a route
// is dispatched iff the headers effective for THAT route are present and well-formed (headers
// declared for a sibling method or for another service play no part), and a rejected request
// gets one violation per offending header.
func VerifC09PerRoute() {
	modes := 2 // absent | valid
	if verif.Thorough() {
		modes = 3 // | malformed
	}
	s := c17Spec{route: verif.Choice("route", 6), id: "a",
		apiKey: verif.Choice("X-API-Key", modes), requestID: verif.Choice("X-Request-ID", modes), count: verif.Choice("X-Count", modes), ten: verif.Choice("X-Tenant", 2)}
	if s.route == 0 {
		s.query = 1 // the required query parameter of GetItem
	}
	mux, items, other := c17NewServer()
	o := c17Run(mux, items, other, s)
	offending := 0
	switch s.route {
	case 0: // GET item: service X-API-Key + method X-Request-ID
		if s.apiKey != 1 {
			offending++
		}
		if s.requestID != 1 {
			offending++
		}
	case 1: // PUT item: service X-API-Key only
		if s.apiKey != 1 {
			offending++
		}
	case 2: // POST other/create: method X-Count only
		if s.count != 1 {
			offending++
		}
	}
	verif.Show("status", o.status)
	verif.Show("violations", o.violations)
	if offending == 0 {
		verif.Assert("C09/route/request-satisfying-its-route's-declarations-is-dispatched", o.status == 200 && o.itemCalls+o.otherCalls == 1)
		verif.Reach("C09/route/dispatched")
		return
	}
	verif.Assert("C09/route/offending-header-of-the-route-is-rejected", o.status == 400 && o.itemCalls+o.otherCalls == 0)
	verif.Assert("C09/route/one-violation-per-offending-header", o.violations == offending)
	verif.Reach("C09/route/rejected")
}
