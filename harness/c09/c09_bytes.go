package binding

import (
	"net/http"

	sebufhttp "github.com/SebastienMelki/sebuf/http"

	verif "verifmod/zzverif"
)

// VerifC09NonUTF8Values: symbolic strings of the other harnesses are ASCII; this harness
// adds chosen concrete header values that are not valid UTF-8 but would pass the shallow
// format checks. A string-typed required header is "well-formed" only if it is valid text:
// such requests are not dispatched, whatever format is declared.
func VerifC09NonUTF8Values() {
	const n1 = "X-Api-Key"
	typ := []string{"", "string"}[verif.Choice("type", 2)]
	format := []string{"", "uuid", "email", "hostname"}[verif.Choice("format", 4)]
	v := []string{
		"us\xffer@example.com",
		"\xff\xfe345678-9abc-def0-1234-56789abcdef0",
		"\xc3\x28",
		"ok\x80",
	}[verif.Choice("value", 4)]
	r := &http.Request{Header: http.Header{n1: []string{v}}}
	h := &sebufhttp.Header{Name: n1, Required: true, Type: typ, Format: format}
	var svc, met []*sebufhttp.Header
	if verif.Bool("declaredAtMethod") {
		met = append(met, h)
	} else {
		svc = append(svc, h)
	}
	res := validateHeaders(r, svc, met)
	verif.Assert("C09/bytes/non-utf8-text-is-not-dispatched", res != nil && len(res.Violations) == 1 && res.Violations[0].Field == n1)
	verif.Reach("C09/bytes/decided")
}
