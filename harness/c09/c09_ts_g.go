package tsservergen

import (
	"fmt"

	"google.golang.org/protobuf/reflect/protoreflect"
	"google.golang.org/protobuf/types/descriptorpb"

	"github.com/SebastienMelki/sebuf/http"
	verif "github.com/SebastienMelki/sebuf/internal/zzverif"
)

var c09TSTypes = []string{"", "string", "integer", "number", "boolean", "array", "String"}
var c09TSFormats = []string{"", "uuid", "email", "date-time", "date", "time"}

// VerifC09TSHeaderConfig: the header table the TS server route validates against mirrors
// the declarations: one entry per declared header carrying its name, type, required flag
// and — whenever a format is declared, whatever the type spelling — its format, so that the
// TS server enforces the formats the Go server enforces.
func VerifC09TSHeaderConfig() {
	mk := func(id, name string) *http.Header {
		return &http.Header{Name: name,
			Type:     c09TSTypes[verif.Choice(id+".type", len(c09TSTypes))],
			Format:   c09TSFormats[verif.Choice(id+".format", len(c09TSFormats))],
			Required: verif.Bool(id + ".required")}
	}
	var svcH, metH []*http.Header
	n1, n2 := verif.StringIn("svc.name", verif.L(6), "A-Za-z0-9-"), verif.StringIn("met.name", verif.L(6), "A-Za-z0-9-")
	verif.Assume(n1 != "" && n2 != "" && n1 != n2)
	svcH = append(svcH, mk("svc", n1))
	if verif.Bool("method.declares") {
		metH = append(metH, mk("met", n2))
	}
	so := &descriptorpb.ServiceOptions{}
	verif.SetExt(so, http.E_ServiceHeaders, &http.ServiceHeaders{RequiredHeaders: svcH})
	svc := verif.NewService("acme.v1", "ItemService", so)
	mo := &descriptorpb.MethodOptions{}
	verif.SetExt(mo, http.E_Config, &http.HttpConfig{Path: "/items", Method: http.HttpMethod_HTTP_METHOD_POST})
	if len(metH) > 0 {
		verif.SetExt(mo, http.E_MethodHeaders, &http.MethodHeaders{RequiredHeaders: metH})
	}
	req := verif.NewMessage("acme.v1", "Req")
	verif.AddField(req, &verif.FieldDesc{FName: "id", FJSON: "id", FKind: protoreflect.StringKind, FNumber: 1, FOpts: &descriptorpb.FieldOptions{}}, "Id")
	m := verif.NewMethod(svc, "Create", "Create", req, req, mo)
	lines, err := VerifRouteLines(svc, m)
	verif.Assert("C09/ts/route-emitted", err == nil)
	for _, h := range append(append([]*http.Header{}, svcH...), metH...) {
		want := fmt.Sprintf(`            { name: "%s", type: "%s", required: %t },`, h.Name, h.Type, h.Required)
		if h.Format != "" {
			want = fmt.Sprintf(`            { name: "%s", type: "%s", required: %t, format: "%s" },`, h.Name, h.Type, h.Required, h.Format)
		}
		n := 0
		for _, l := range lines {
			if l == want {
				n++
			}
		}
		verif.Show("want", want)
		verif.Assert("C09/ts/header-table-mirrors-declaration", n == 1)
	}
	verif.Reach("C09/ts/decided")
}
