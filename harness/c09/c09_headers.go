package binding

import (
	"net/http"
	"strings"

	sebufhttp "github.com/SebastienMelki/sebuf/http"

	verif "verifmod/zzverif"
)

// c09RefValid is the reference predicate for "well-formed for its declared type
// and format". known=false: the reference does not decide this case (time-based
// formats; number strings outside the plain-decimal / obviously-malformed sets).
func c09RefValid(typ, format, v string) (valid bool, known bool) {
	switch typ {
	case "integer":
		if verif.Matches(v, `[+-]?[0-9]{1,18}`) {
			return true, true
		}
		if !verif.Matches(v, `[+-]?[0-9]+`) {
			return false, true
		}
		return false, false // more than 18 digits: 64-bit range is the implementation's choice
	case "number":
		if verif.Matches(v, `[+-]?[0-9]{1,15}(\.[0-9]{1,15})?`) {
			return true, true
		}
		if !verif.Matches(v, `[-+0-9a-zA-Z._]+`) {
			return false, true
		}
		return false, false
	case "boolean":
		if v == "true" || v == "false" {
			return true, true
		}
		if !verif.Matches(v, `1|0|t|f|T|F|TRUE|FALSE|True|False`) {
			return false, true
		}
		return false, false
	case "array":
		return !verif.Matches(v, `[ \t\n\v\f\r]*`), true
	}
	switch format {
	case "uuid":
		return verif.Matches(v, `[0-9a-fA-F]{8}-[0-9a-fA-F]{4}-[0-9a-fA-F]{4}-[0-9a-fA-F]{4}-[0-9a-fA-F]{12}`), true
	case "email":
		return verif.Matches(v, `[^@]+@[^@]+`), true
	case "date-time", "date", "time":
		return false, false
	}
	return true, true
}

var c09Types = []string{"", "string", "integer", "number", "boolean", "array", "object"}
var c09Formats = []string{"", "uuid", "email", "date-time", "date", "time", "hostname"}

type c09Decl struct {
	name, typ, format, value string
	required, present       bool
}

// c09Oracle evaluates the reference on the effective declarations.
func c09Oracle(eff []c09Decl) (want bool, known bool, offending int, kfUUID bool) {
	want, known = true, true
	for _, d := range eff {
		if !d.required {
			continue
		}
		if !d.present {
			want = false
			offending++
			continue
		}
		ok, k := c09RefValid(d.typ, d.format, d.value)
		if d.format == "uuid" && d.typ != "integer" && d.typ != "number" && d.typ != "boolean" && d.typ != "array" &&
			!ok && verif.Matches(d.value, `.{8}-.{4}-.{4}-.{4}-.{12}`) {
			kfUUID = true // 36 characters with dashes in place but non-hex digits
		}
		if !k {
			known = false
			continue
		}
		if !ok {
			want = false
			offending++
		}
	}
	return
}

// VerifC09Merge: which declarations are effective. A method-level declaration
// replaces a service-level one of the same (case-insensitive) name; header
// presence and required flags symbolic; values are plain strings.
func VerifC09Merge() {
	const n1, n2 = "X-Api-Key", "X-Trace"
	sReq, mReq := verif.Bool("svcRequired"), verif.Bool("methodRequired")
	mName := []string{n1, "x-api-key", "X-API-KEY", n2}[verif.Choice("methodName", 4)]
	sameName := strings.EqualFold(mName, n1)
	// the service declaration asks for an integer, the method declaration for a plain string:
	// which one is applied is observable through the value
	svc := []*sebufhttp.Header{{Name: n1, Required: sReq, Type: "integer"}}
	met := []*sebufhttp.Header{{Name: mName, Required: mReq, Type: "string"}}
	if verif.Bool("secondServiceHeader") {
		svc = append(svc, &sebufhttp.Header{Name: "X-Other", Required: verif.Bool("otherRequired"), Type: "string"})
	}
	r := &http.Request{Header: http.Header{}}
	has1, has2, has3 := verif.Bool("has1"), verif.Bool("has2"), verif.Bool("has3")
	v1, v2, v3 := verif.String("v1", verif.L(4)), verif.String("v2", verif.L(4)), verif.String("v3", verif.L(4))
	if has1 {
		r.Header[n1] = []string{v1}
	}
	if has2 {
		r.Header[n2] = []string{v2}
	}
	if has3 {
		r.Header["X-Other"] = []string{v3}
	}
	res := validateHeaders(r, svc, met)
	passed := res == nil

	var eff []c09Decl
	if sameName {
		eff = []c09Decl{{n1, "string", "", v1, mReq, has1 && v1 != ""}}
	} else {
		eff = []c09Decl{{n1, "integer", "", v1, sReq, has1 && v1 != ""}, {n2, "string", "", v2, mReq, has2 && v2 != ""}}
	}
	if len(svc) > 1 {
		eff = append(eff, c09Decl{"X-Other", "string", "", v3, svc[1].Required, has3 && v3 != ""})
	}
	want, known, offending, _ := c09Oracle(eff)
	verif.Show("passed", passed)
	verif.Show("want", want)
	verif.Assume(known)
	if sameName && !mReq && sReq {
		verif.Reach("C09/override-relaxes") // region of the merge defect repaired in c6a8471
	}
	verif.Assert("C09/merge/dispatch-iff-effective-headers-valid", passed == want)
	if !passed {
		verif.Assert("C09/merge/one-violation-per-offending-header", len(res.Violations) == offending)
	}
	verif.Reach("C09/merge-decided")
}

// VerifC09Value: a single required header of every type x format, symbolic value.
func VerifC09Value() {
	const n1 = "X-Api-Key"
	typ := c09Types[verif.Choice("type", len(c09Types))]
	format := c09Formats[verif.Choice("format", len(c09Formats))]
	has := verif.Bool("has")
	var v string
	stringTyped := typ != "integer" && typ != "number" && typ != "boolean" && typ != "array"
	if typ == "integer" && verif.Bool("longDigits") {
		// integers up to 12 characters: beyond the 32-bit range, within the 64-bit one
		v = verif.StringIn("vi", 12, "0-9+-")
	} else if !stringTyped || format != "uuid" {
		v = verif.String("v", 6)
	} else if verif.Bool("len36") {
		// exactly 36 characters: a well-formed uuid in which one or two positions (a hex
		// position at a group boundary or in the middle, or a dash position) hold an arbitrary
		// character — the emitted validator walks every character, so fully symbolic text of
		// this length is out of reach
		const tmpl = "01234567-89ab-cdEF-0123-456789abcdef"
		pos := []int{0, 7, 8, 9, 13, 18, 22, 23, 24, 35}[verif.Choice("uuid.pos", 10)]
		if verif.Thorough() {
			// every hex position of the first and the last group, and every dash
			pos = []int{0, 1, 2, 3, 4, 5, 6, 7, 8, 13, 18, 23, 24, 25, 26, 27, 28, 29, 30, 31, 32, 33, 34, 35}[verif.Choice("uuid.pos2", 24)]
		}
		v = tmpl[:pos] + verif.StringN("uuid.char", 1, "") + tmpl[pos+1:]
		if verif.Bool("uuid.second") {
			v = v[:20] + verif.StringN("uuid.char2", 1, "") + v[21:]
		}
	} else if verif.Bool("len37") {
		v = verif.StringN("long", 37, "")
	} else {
		v = verif.String("v", 6)
	}
	r := &http.Request{Header: http.Header{}}
	if has {
		r.Header[n1] = []string{v}
	}
	where := verif.Choice("declaredAt", 2)
	var svc, met []*sebufhttp.Header
	h := &sebufhttp.Header{Name: n1, Required: true, Type: typ, Format: format}
	if where == 0 {
		svc = append(svc, h)
	} else {
		met = append(met, h)
	}
	res := validateHeaders(r, svc, met)
	passed := res == nil
	want, known, offending, kfUUID := c09Oracle([]c09Decl{{n1, typ, format, v, true, has && v != ""}})
	verif.Show("passed", passed)
	verif.Show("want", want)
	if !known {
		verif.Reach("C09/undecided-by-reference")
		return
	}
	if kfUUID {
		// 36 characters with the dashes in place but a non-hex digit (repaired in f44e6a0)
		verif.Assert("C09/value/uuid-with-non-hex-digit-rejected", passed == want)
		verif.Reach("C09/uuid-shape")
		return
	}
	verif.Assert("C09/value/dispatch-iff-header-well-formed", passed == want)
	if !passed {
		verif.Assert("C09/value/one-violation", len(res.Violations) == offending && res.Violations[0].Field == n1)
	}
	verif.Reach("C09/value-decided")
}
