package openapiv3

import (
	"strings"

	"github.com/pb33f/libopenapi/datamodel/high/base"
	v3 "github.com/pb33f/libopenapi/datamodel/high/v3"
	"google.golang.org/protobuf/compiler/protogen"
	"google.golang.org/protobuf/reflect/protoreflect"
	"google.golang.org/protobuf/types/descriptorpb"

	"github.com/SebastienMelki/sebuf/http"
	verif "github.com/SebastienMelki/sebuf/internal/zzverif"
)

func c18Msg(name, full string) *protogen.Message {
	return &protogen.Message{Desc: &verif.MessageDesc{MName: name, MFullName: full}, GoIdent: protogen.GoIdent{GoName: name, GoImportPath: verif.ImportPath}}
}

func c18Scalar(m *protogen.Message, name string, kind protoreflect.Kind, num int32, optional bool) *protogen.Field {
	return verif.AddField(m, &verif.FieldDesc{FName: name, FJSON: name, FKind: kind, FNumber: num, FOptional: optional, FOpts: &descriptorpb.FieldOptions{}}, strings.ToUpper(name[:1])+name[1:])
}

func c18Ref(m *protogen.Message, name string, target *protogen.Message, num int32, repeated bool) *protogen.Field {
	f := verif.AddField(m, &verif.FieldDesc{FName: name, FJSON: name, FKind: protoreflect.MessageKind, FList: repeated, FNumber: num, FMsg: target.Desc, FOpts: &descriptorpb.FieldOptions{}}, strings.ToUpper(name[:1])+name[1:])
	f.Message = target
	return f
}

// c18Refs collects every $ref string reachable from a schema proxy (bounded depth).
func c18Refs(p *base.SchemaProxy, depth int, out *[]string) {
	if p == nil || depth > 6 {
		return
	}
	if p.IsReference() {
		*out = append(*out, p.GetReference())
		return
	}
	s := p.Schema()
	if s == nil {
		return
	}
	if s.Properties != nil {
		for pair := s.Properties.First(); pair != nil; pair = pair.Next() {
			c18Refs(pair.Value(), depth+1, out)
		}
	}
	if s.Items != nil && s.Items.IsA() {
		c18Refs(s.Items.A, depth+1, out)
	}
	if s.AdditionalProperties != nil && s.AdditionalProperties.IsA() {
		c18Refs(s.AdditionalProperties.A, depth+1, out)
	}
	for _, x := range s.AllOf {
		c18Refs(x, depth+1, out)
	}
	for _, x := range s.OneOf {
		c18Refs(x, depth+1, out)
	}
	for _, x := range s.AnyOf {
		c18Refs(x, depth+1, out)
	}
}

func c18OpRefs(op *v3.Operation, out *[]string) {
	if op == nil {
		return
	}
	for _, p := range op.Parameters {
		c18Refs(p.Schema, 0, out)
	}
	if op.RequestBody != nil && op.RequestBody.Content != nil {
		for pair := op.RequestBody.Content.First(); pair != nil; pair = pair.Next() {
			c18Refs(pair.Value().Schema, 0, out)
		}
	}
	if op.Responses != nil && op.Responses.Codes != nil {
		for pair := op.Responses.Codes.First(); pair != nil; pair = pair.Next() {
			if c := pair.Value().Content; c != nil {
				for p2 := c.First(); p2 != nil; p2 = p2.Next() {
					c18Refs(p2.Value().Schema, 0, out)
				}
			}
		}
	}
}

func c18Ops(pi *v3.PathItem) []*v3.Operation {
	var out []*v3.Operation
	for _, op := range []*v3.Operation{pi.Get, pi.Post, pi.Put, pi.Delete, pi.Patch} {
		if op != nil {
			out = append(out, op)
		}
	}
	return out
}

// VerifC18Document: the in-memory OpenAPI document the real generator builds for a
// service is well-formed: every $ref resolves to a component schema, path variables and
// required path parameters correspond one to one, operation ids are unique and every
// RPC is an operation.
func VerifC18Document() {
	// messages: Req(id, rev [optional?], name), Resp(outer: Outer), Outer{ message Inner{ leaf: Leaf } [used by a field or not] },
	// Leaf (reachable only through Inner), Node{ child: Node } (recursive), optionally referenced
	nameSymbolic := verif.Bool("leaf.nameSymbolic")
	pick := func(name string, n int) int {
		if nameSymbolic {
			return 1 % n // the name dimension is explored against one fixed shape
		}
		return verif.Choice(name, n)
	}
	flag := func(name string) bool {
		if nameSymbolic {
			return true
		}
		return verif.Bool(name)
	}
	req := c18Msg("Req", "acme.v1.Req")
	c18Scalar(req, "id", protoreflect.StringKind, 1, false)
	c18Scalar(req, "rev", []protoreflect.Kind{protoreflect.Int32Kind, protoreflect.StringKind}[pick("rev.kind", 2)], 2, flag("rev.optional"))
	c18Scalar(req, "name", protoreflect.StringKind, 3, false)
	// Leaf lives in another proto package; its short name is arbitrary and may coincide
	// with the short name of a message of this package
	leafName := "Leaf"
	if nameSymbolic {
		leafName = verif.StringIn("leaf.name", verif.L(5), "A-Za-z")
		verif.Assume(verif.Matches(leafName, `[A-Z][a-z]*`))
	}
	leaf := c18Msg(leafName, "other.v1."+leafName)
	c18Scalar(leaf, "v", protoreflect.StringKind, 1, false)
	inner := c18Msg("Inner", "acme.v1.Outer.Inner")
	c18Ref(inner, "leaf", leaf, 1, flag("inner.leaf.repeated"))
	outer := c18Msg("Outer", "acme.v1.Outer")
	outer.Messages = []*protogen.Message{inner}
	c18Scalar(outer, "title", protoreflect.StringKind, 1, false)
	innerUsed := flag("outer.usesInner")
	if innerUsed {
		c18Ref(outer, "inner", inner, 2, false)
	}
	node := c18Msg("Node", "acme.v1.Node")
	c18Scalar(node, "label", protoreflect.StringKind, 1, false)
	c18Ref(node, "child", node, 2, false)
	resp := c18Msg("Resp", "acme.v1.Resp")
	c18Ref(resp, "outer", outer, 1, false)
	if flag("resp.usesNode") {
		c18Ref(resp, "tree", node, 2, flag("resp.tree.repeated"))
	}

	// headers: none, service-level only, or service-level plus a method-level declaration that
	// re-declares the same name (an override) or another name
	so := &descriptorpb.ServiceOptions{}
	headerMode := pick("headers", 4)
	if headerMode > 0 {
		verif.SetExt(so, http.E_ServiceHeaders, &http.ServiceHeaders{RequiredHeaders: []*http.Header{{Name: "X-Tenant", Type: "string", Required: true}}})
	}
	svc := verif.NewService("acme.v1", "DocService", so)
	verb1 := http.HttpMethod(1 + pick("verb1", 5))
	pathShape := pick("pathShape", 3)
	path1, vars1 := "/docs", []string{}
	switch pathShape {
	case 1:
		path1, vars1 = "/docs/{id}", []string{"id"}
	case 2:
		path1, vars1 = "/docs/{id}/rev/{rev}", []string{"id", "rev"}
	}
	mo1 := &descriptorpb.MethodOptions{}
	switch headerMode {
	case 2:
		verif.SetExt(mo1, http.E_MethodHeaders, &http.MethodHeaders{RequiredHeaders: []*http.Header{{Name: "X-Tenant", Type: "integer", Required: false}}})
	case 3:
		verif.SetExt(mo1, http.E_MethodHeaders, &http.MethodHeaders{RequiredHeaders: []*http.Header{{Name: "X-Trace", Type: "string", Required: true}}})
	}
	verif.SetExt(mo1, http.E_Config, &http.HttpConfig{Path: path1, Method: verb1})
	verif.NewMethod(svc, "GetDoc", "GetDoc", req, resp, mo1)
	mo2 := &descriptorpb.MethodOptions{}
	verif.SetExt(mo2, http.E_Config, &http.HttpConfig{Path: "/docs", Method: http.HttpMethod_HTTP_METHOD_POST})
	twoMethods := flag("twoMethods") && !(pathShape == 0 && verb1 == http.HttpMethod_HTTP_METHOD_POST)
	if twoMethods {
		verif.NewMethod(svc, "CreateDoc", "CreateDoc", resp, resp, mo2)
	}

	g := NewGenerator(FormatYAML)
	g.CollectReferencedMessages(svc)
	g.ProcessService(svc)
	doc := g.Doc()

	// (1) references resolve
	var refs []string
	for pair := g.Schemas().First(); pair != nil; pair = pair.Next() {
		c18Refs(pair.Value(), 0, &refs)
	}
	nOps := 0
	opIDs := map[string]int{}
	for pair := doc.Paths.PathItems.First(); pair != nil; pair = pair.Next() {
		for _, op := range c18Ops(pair.Value()) {
			nOps++
			opIDs[op.OperationId]++
			c18OpRefs(op, &refs)
			// (2) template variables <-> required path parameters
			tmpl := pair.Key()
			nPath := 0
			for _, p := range op.Parameters {
				dupAny := 0
				for _, q := range op.Parameters {
					if q.In == p.In && q.Name == p.Name {
						dupAny++
					}
				}
				verif.Assert("C18/parameter-name-unique-per-location", dupAny == 1)
				if p.In == "header" && p.Name == "X-Tenant" && headerMode == 2 && op.OperationId == "GetDoc" {
					// the method-level declaration (optional, integer) replaces the service-level one
					typ := ""
					if p.Schema != nil && p.Schema.Schema() != nil && len(p.Schema.Schema().Type) == 1 {
						typ = p.Schema.Schema().Type[0]
					}
					verif.Assert("C18/method-header-declaration-overrides-service-declaration", p.Required != nil && !*p.Required && typ == "integer")
				}
				if p.In != "path" {
					continue
				}
				nPath++
				verif.Assert("C18/path-parameter-is-required", p.Required != nil && *p.Required)
				verif.Assert("C18/path-parameter-occurs-in-template", strings.Contains(tmpl, "{"+p.Name+"}"))
				dup := 0
				for _, q := range op.Parameters {
					if q.In == p.In && q.Name == p.Name {
						dup++
					}
				}
				verif.Assert("C18/parameter-name-unique-per-location", dup == 1)
			}
			verif.Assert("C18/every-template-variable-declared", nPath == strings.Count(tmpl, "{"))
		}
	}
	dangling := ""
	for _, r := range refs {
		const pfx = "#/components/schemas/"
		if !strings.HasPrefix(r, pfx) {
			dangling = r
			continue
		}
		if _, ok := g.Schemas().Get(r[len(pfx):]); !ok {
			dangling = r
		}
	}
	verif.Show("dangling", dangling)
	verif.Assert("C18/every-ref-resolves", dangling == "")
	// (3) one operation per RPC, unique ids
	want := 1
	if twoMethods {
		want = 2
	}
	verif.Assert("C18/one-operation-per-rpc", nOps == want && opIDs["GetDoc"] == 1 && (!twoMethods || opIDs["CreateDoc"] == 1))
	// (4) reachable messages have component schemas
	hasProp := func(schemaName, prop string) bool {
		p, ok := g.Schemas().Get(schemaName)
		if !ok || p.IsReference() || p.Schema() == nil || p.Schema().Properties == nil {
			return false
		}
		_, has := p.Schema().Properties.Get(prop)
		return has
	}
	collides := leafName == "Req" || leafName == "Resp" || leafName == "Outer" || leafName == "Inner" || leafName == "Node" ||
		leafName == "Error" || leafName == "ValidationError" || leafName == "FieldViolation"
	if collides {
		verif.Expect("KF-C18-messages-with-the-same-short-name-share-one-component-schema",
			verif.And(hasProp("Req", "id"), hasProp("Resp", "outer"), hasProp("Outer", "title"), hasProp(leafName, "v")))
		verif.Reach("C18/kf-collision")
		return
	}
	verif.Assert("C18/reachable-message-has-schema", verif.And(hasProp("Req", "id"), hasProp("Resp", "outer"), hasProp("Outer", "title")))
	if innerUsed {
		verif.Assert("C18/reachable-message-has-schema", hasProp(leafName, "v"))
	}
	_ = vars1
	verif.Reach("C18/decided")
}

// VerifC18OneDocumentPerService: the plugin builds one generator (one document) per service;
// every document is self-contained also when services share messages, in particular a
// message whose schema registers further component schemas (flattened discriminated oneof
// variants): every $ref of the second document resolves in the second document.
func VerifC18OneDocumentPerService() {
	text := c18Msg("Text", "acme.v1.Text")
	c18Scalar(text, "body", protoreflect.StringKind, 1, false)
	img := c18Msg("Image", "acme.v1.Image")
	c18Scalar(img, "url", protoreflect.StringKind, 1, false)
	ev := c18Msg("Event", "acme.v1.Event")
	c18Scalar(ev, "id", protoreflect.StringKind, 1, false)
	flatten := verif.Bool("oneof.flatten")
	oo := &descriptorpb.OneofOptions{}
	verif.SetExt(oo, http.E_OneofConfig, &http.OneofConfig{Discriminator: "kind", Flatten: flatten})
	od := &verif.OneofDesc{OName: "content", OFullName: "acme.v1.Event.content", OOpts: oo}
	oneof := &protogen.Oneof{Desc: od, GoName: "Content", Parent: ev}
	ev.Oneofs = []*protogen.Oneof{oneof}
	for i, t := range []*protogen.Message{text, img} {
		name := []string{"text", "img"}[i]
		d := &verif.FieldDesc{FName: name, FJSON: name, FKind: protoreflect.MessageKind, FNumber: int32(2 + i), FMsg: t.Desc, FOneof: od, FOpts: &descriptorpb.FieldOptions{}}
		f := verif.AddField(ev, d, strings.ToUpper(name[:1])+name[1:])
		f.Message, f.Oneof = t, oneof
		oneof.Fields = append(oneof.Fields, f)
	}
	req := c18Msg("Req", "acme.v1.Req")
	c18Scalar(req, "id", protoreflect.StringKind, 1, false)
	mk := func(name string) *protogen.Service {
		svc := verif.NewService("acme.v1", name, &descriptorpb.ServiceOptions{})
		mo := &descriptorpb.MethodOptions{}
		verif.SetExt(mo, http.E_Config, &http.HttpConfig{Path: "/" + strings.ToLower(name), Method: http.HttpMethod_HTTP_METHOD_POST})
		verif.NewMethod(svc, "Get", "Get", req, ev, mo)
		return svc
	}
	n := 1 + verif.Choice("services", 2)
	for i := 0; i < n; i++ {
		g := NewGenerator(FormatYAML)
		svc := mk([]string{"EventService", "EventQueryService"}[i])
		g.CollectReferencedMessages(svc)
		g.ProcessService(svc)
		var refs []string
		for pair := g.Schemas().First(); pair != nil; pair = pair.Next() {
			c18Refs(pair.Value(), 0, &refs)
			if s := pair.Value().Schema(); !pair.Value().IsReference() && s != nil && s.Discriminator != nil && s.Discriminator.Mapping != nil {
				for mp := s.Discriminator.Mapping.First(); mp != nil; mp = mp.Next() {
					refs = append(refs, mp.Value())
				}
			}
		}
		dangling := ""
		for _, r := range refs {
			const pfx = "#/components/schemas/"
			if !strings.HasPrefix(r, pfx) {
				dangling = r
				continue
			}
			if _, ok := g.Schemas().Get(r[len(pfx):]); !ok {
				dangling = r
			}
		}
		verif.Show("dangling", dangling)
		verif.Assert("C18/per-service/every-ref-resolves-in-its-own-document", dangling == "")
	}
	verif.Reach("C18/per-service/decided")
}
