package httpgen

import (
	"strings"

	"google.golang.org/protobuf/compiler/protogen"
	"google.golang.org/protobuf/types/descriptorpb"

	"github.com/SebastienMelki/sebuf/http"

	verif "github.com/SebastienMelki/sebuf/internal/zzverif"
)

// VerifC15MockAcrossFiles: with generate_mock=true the mock emitted for one file does not
// depend on which other files are generated in the same run (a field-less message shared by
// the responses of two files).
func VerifC15MockAcrossFiles() {
	empty := c20Msg("Empty")
	common := verif.NewFile("acme/v1/common.proto", "acme.v1", "acmev1", "acme/v1/common")
	common.Messages = []*protogen.Message{empty}
	mk := func(name string) *protogen.File {
		resp := empty
		var extra []*protogen.Message
		if verif.Bool(name + ".wrapsEmpty") {
			resp = c20Msg(name+"Resp", "note")
			c20Ref(resp, "nothing", empty)
			// declared examples, possibly with blank entries (descriptors are shared by everything
			// generated in one run: reading them must not change them)
			if ex := verif.Choice(name+".examples", 4); ex > 0 {
				vals := [][]string{nil, {"alice", "bob"}, {"alice", "", "bob"}, {"", "carol", ""}}[ex]
				verif.SetExt(resp.Fields[0].Desc.Options().(*descriptorpb.FieldOptions), http.E_FieldExamples, &http.FieldExamples{Values: vals})
				verif.Reach("C15/mock/examples")
			}
			extra = append(extra, resp)
		}
		svc, req := c20Service(name, resp)
		f := verif.NewFile("acme/v1/"+strings.ToLower(name)+".proto", "acme.v1", "acmev1", "acme/v1/"+strings.ToLower(name))
		f.Services, f.Messages = []*protogen.Service{svc}, append([]*protogen.Message{req}, extra...)
		return f
	}
	fa, fb := mk("Alpha"), mk("Beta")
	gen := func(files ...*protogen.File) []verif.TraceFile {
		p := &protogen.Plugin{Files: files}
		verif.Assert("C15/mock/accepted", NewWithOptions(p, Options{GenerateMock: true}).Generate() == nil)
		var out []verif.TraceFile
		for _, t := range verif.Trace(p) {
			if strings.HasPrefix(t.Name, "acme/v1/beta") {
				out = append(out, t)
			}
		}
		return out
	}
	both := gen(common, fa, fb)
	fa.Generate = false
	alone := gen(common, fa, fb)
	verif.Assert("C15/mock/same-output-for-the-file-alone-and-with-others", c15SameTraces(both, alone))
	verif.Reach("C15/mock/decided")
}
