package httpgen

import (
	"google.golang.org/protobuf/compiler/protogen"
	"google.golang.org/protobuf/reflect/protoreflect"
	"google.golang.org/protobuf/types/descriptorpb"

	"github.com/SebastienMelki/sebuf/http"
	"github.com/SebastienMelki/sebuf/internal/annotations"
	"github.com/SebastienMelki/sebuf/internal/clientgen"
	verif "github.com/SebastienMelki/sebuf/internal/zzverif"
)

// VerifC15CombineHeaders: the merged header list is a function of the declarations
// alone: two evaluations (each with its own arbitrary map iteration order) agree, and
// the result is in strictly ascending name order. Run with symbolic map order.
func VerifC15CombineHeaders() {
	name := func(id string) string { return verif.StringN(id, 1, "a-bA-B") }
	s1, m1, m2 := name("s1"), name("m1"), name("m2")
	verif.Assume(m1 != m2) // one declaration per name and level
	svc := []*http.Header{{Name: "X-" + s1, Type: "string"}}
	met := []*http.Header{{Name: "X-" + m1, Type: "boolean"}, {Name: "X-" + m2, Type: "number"}}
	a := annotations.CombineHeaders(svc, met)
	b := annotations.CombineHeaders(svc, met)
	verif.Assert("C15/headers/same-length", len(a) == len(b))
	same, sorted := true, true
	for i := range a {
		if i < len(b) {
			same = verif.And(same, a[i].Name == b[i].Name, a[i].Type == b[i].Type)
		}
		if i > 0 {
			sorted = verif.And(sorted, a[i-1].Name < a[i].Name)
		}
	}
	verif.Assert("C15/headers/two-runs-agree", same)
	verif.Assert("C15/headers/order-determined-by-names", sorted)
	verif.Reach("C15/headers/decided")
}

// c15Files: a service file whose response holds map<string, Wrapper> with Wrapper
// (unwrap list) defined in another file of the same Go package, plus an unrelated file.
func c15Files() (svcFile, wrapFile, extra *protogen.File) {
	wrapper := verif.NewMessage("acme.v1", "Wrapper")
	verif.AddField(wrapper, &verif.FieldDesc{FName: "items", FJSON: "items", FKind: protoreflect.StringKind, FList: true, FNumber: 1,
		FOpts: func() *descriptorpb.FieldOptions {
			o := &descriptorpb.FieldOptions{}
			verif.SetExt(o, http.E_Unwrap, true)
			return o
		}()}, "Items")
	wrapFile = verif.NewFile("acme/v1/wrapper.proto", "acme.v1", "acmev1", "acme/v1/wrapper")
	wrapFile.Messages = []*protogen.Message{wrapper}

	entry := &protogen.Message{
		Desc:    &verif.MessageDesc{MName: "ByKeyEntry", MFullName: "acme.v1.Resp.ByKeyEntry", MMapEntry: true},
		GoIdent: protogen.GoIdent{GoName: "Resp_ByKeyEntry", GoImportPath: verif.ImportPath},
	}
	verif.AddField(entry, &verif.FieldDesc{FName: "key", FJSON: "key", FKind: protoreflect.StringKind, FNumber: 1, FOpts: &descriptorpb.FieldOptions{}}, "Key")
	vf := verif.AddField(entry, &verif.FieldDesc{FName: "value", FJSON: "value", FKind: protoreflect.MessageKind, FNumber: 2, FOpts: &descriptorpb.FieldOptions{}, FMsg: wrapper.Desc}, "Value")
	vf.Message = wrapper
	resp := verif.NewMessage("acme.v1", "Resp")
	mf := verif.AddField(resp, &verif.FieldDesc{FName: "by_key", FJSON: "byKey", FKind: protoreflect.MessageKind, FMap: true, FNumber: 1, FOpts: &descriptorpb.FieldOptions{}, FMsg: entry.Desc}, "ByKey")
	mf.Message = entry
	verif.AddField(resp, &verif.FieldDesc{FName: "note", FJSON: "note", FKind: protoreflect.StringKind, FNumber: 2, FOpts: &descriptorpb.FieldOptions{}}, "Note")
	req := verif.NewMessage("acme.v1", "Req")
	verif.AddField(req, &verif.FieldDesc{FName: "id", FJSON: "id", FKind: protoreflect.StringKind, FNumber: 1, FOpts: &descriptorpb.FieldOptions{}}, "Id")
	svc := verif.NewService("acme.v1", "DataService", &descriptorpb.ServiceOptions{})
	mo := &descriptorpb.MethodOptions{}
	verif.SetExt(mo, http.E_Config, &http.HttpConfig{Path: "/data", Method: http.HttpMethod_HTTP_METHOD_POST})
	verif.NewMethod(svc, "GetData", "GetData", req, resp, mo)
	svcFile = verif.NewFile("acme/v1/service.proto", "acme.v1", "acmev1", "acme/v1/service")
	svcFile.Services = []*protogen.Service{svc}
	svcFile.Messages = []*protogen.Message{req, resp}

	other := verif.NewMessage("other.v1", "Unrelated")
	verif.AddField(other, &verif.FieldDesc{FName: "x", FJSON: "x", FKind: protoreflect.Int64Kind, FNumber: 1,
		FOpts: func() *descriptorpb.FieldOptions {
			o := &descriptorpb.FieldOptions{}
			verif.SetExt(o, http.E_Int64Encoding, http.Int64Encoding_INT64_ENCODING_NUMBER)
			return o
		}()}, "X")
	extra = verif.NewFile("other/v1/unrelated.proto", "other.v1", "otherv1", "other/v1/unrelated")
	extra.Messages = []*protogen.Message{other}
	return
}

func c15TraceOf(files []*protogen.File, client bool, prefix string) ([]verif.TraceFile, error) {
	p := &protogen.Plugin{Files: files}
	var err error
	if client {
		err = clientgen.VerifGenerateWith(p)
	} else {
		err = New(p).Generate()
	}
	var out []verif.TraceFile
	for _, t := range verif.Trace(p) {
		if len(t.Name) >= len(prefix) && t.Name[:len(prefix)] == prefix {
			out = append(out, t)
		}
	}
	return out, err
}

func c15SameTraces(a, b []verif.TraceFile) bool {
	if len(a) != len(b) {
		return false
	}
	for i := range a {
		if a[i].Name != b[i].Name || len(a[i].Lines) != len(b[i].Lines) {
			return false
		}
		for j := range a[i].Lines {
			if a[i].Lines[j] != b[i].Lines[j] {
				return false
			}
		}
	}
	return true
}

// VerifC15RequestVariations: the output for the service file does not change when the
// other files of the request are listed in a different order, when an unrelated file
// is added, or when the file is generated alone (other files imported only).
func VerifC15RequestVariations() {
	client := verif.Bool("goClient")
	svcFile, wrapFile, extra := c15Files()
	base, err0 := c15TraceOf([]*protogen.File{wrapFile, svcFile}, client, "acme/v1/service")
	verif.Assert("C15/request/accepted", err0 == nil)
	var other []verif.TraceFile
	var err1 error
	switch verif.Choice("variation", 4) {
	case 0: // permuted file order
		other, err1 = c15TraceOf([]*protogen.File{svcFile, wrapFile}, client, "acme/v1/service")
	case 1: // unrelated extra file first
		other, err1 = c15TraceOf([]*protogen.File{extra, wrapFile, svcFile}, client, "acme/v1/service")
	case 2: // unrelated extra file last
		other, err1 = c15TraceOf([]*protogen.File{wrapFile, svcFile, extra}, client, "acme/v1/service")
	default: // single-file invocation: the wrapper file is only imported
		wrapFile.Generate = false
		other, err1 = c15TraceOf([]*protogen.File{wrapFile, svcFile}, client, "acme/v1/service")
	}
	verif.Assert("C15/request/variation-accepted", err1 == nil)
	verif.Assert("C15/request/same-output-for-the-file", c15SameTraces(base, other))
	verif.Reach("C15/request/decided")
}
