package main

import (
	"google.golang.org/protobuf/proto"
	"google.golang.org/protobuf/types/pluginpb"

	verif "github.com/SebastienMelki/sebuf/internal/zzverif"
)

// VerifC15ParameterSpelling: the output format the openapiv3 plugin selects does not depend
// on how the parameter string spells the same options: blanks around "=" and around ",",
// and other options before or after.
func VerifC15ParameterSpelling() {
	val := []string{"json", "yaml", "yml"}[verif.Choice("format", 3)]
	ws := func(n string) string { return verif.StringIn(n, 2, " ") }
	spelled := ws("w0") + "format" + ws("w1") + "=" + ws("w2") + val + ws("w3")
	switch verif.Choice("otherOptions", 3) {
	case 1:
		spelled = "paths=source_relative," + spelled
	case 2:
		spelled = spelled + "," + ws("w4") + "paths=source_relative"
	}
	got := parseFormat(&pluginpb.CodeGeneratorRequest{Parameter: proto.String(spelled)})
	want := parseFormat(&pluginpb.CodeGeneratorRequest{Parameter: proto.String("format=" + val)})
	verif.Show("parameter", spelled)
	verif.Assert("C15/parameters/format-independent-of-spelling", got == want)
	verif.Reach("C15/parameters/decided")
}
