package httpgen

import (
	"strings"

	"google.golang.org/protobuf/compiler/protogen"
	"google.golang.org/protobuf/reflect/protoreflect"
	"google.golang.org/protobuf/types/descriptorpb"

	"github.com/SebastienMelki/sebuf/http"
	"github.com/SebastienMelki/sebuf/internal/clientgen"
	"github.com/SebastienMelki/sebuf/internal/openapiv3"
	"github.com/SebastienMelki/sebuf/internal/tsclientgen"
	"github.com/SebastienMelki/sebuf/internal/tsservergen"
	verif "github.com/SebastienMelki/sebuf/internal/zzverif"
)

func c03Any(lines []string, sub string) bool {
	for _, l := range lines {
		if strings.Contains(l, sub) {
			return true
		}
	}
	return false
}

func c03Has(names []string, n string) bool {
	for _, x := range names {
		if x == n {
			return true
		}
	}
	return false
}

// VerifC03Placement: the five generators agree on which request fields travel in the
// path and in the query string, for every verb.
func VerifC03Placement() {
	req := verif.NewMessage("acme.v1", "Req")
	verif.AddField(req, &verif.FieldDesc{FName: "id", FJSON: "id", FKind: protoreflect.StringKind, FNumber: 1, FOpts: &descriptorpb.FieldOptions{}}, "Id")
	qo := &descriptorpb.FieldOptions{}
	renamed := verif.Bool("queryRenamed")
	qname := "term"
	if renamed {
		qname = "q"
	}
	verif.SetExt(qo, http.E_Query, &http.QueryConfig{Name: map[bool]string{true: "q", false: ""}[renamed]})
	qkind := []protoreflect.Kind{protoreflect.StringKind, protoreflect.Int32Kind, protoreflect.BoolKind, protoreflect.Int64Kind}[verif.Choice("queryKind", 4)]
	verif.AddField(req, &verif.FieldDesc{FName: "term", FJSON: "term", FKind: qkind, FNumber: 2, FOpts: qo}, "Term")
	verb := http.HttpMethod(verif.Choice("verb", 6))
	bodyVerb := verb != http.HttpMethod_HTTP_METHOD_GET && verb != http.HttpMethod_HTTP_METHOD_DELETE
	if bodyVerb && verif.Bool("request.hasUnboundField") {
		// without it every field of the request is named by the URL configuration
		verif.AddField(req, &verif.FieldDesc{FName: "note", FJSON: "note", FKind: protoreflect.StringKind, FNumber: 3, FOpts: &descriptorpb.FieldOptions{}}, "Note")
	}
	mo := &descriptorpb.MethodOptions{}
	verif.SetExt(mo, http.E_Config, &http.HttpConfig{Path: "/things/{id}", Method: verb})
	so := &descriptorpb.ServiceOptions{}
	if verif.Bool("service.headers") {
		verif.SetExt(so, http.E_ServiceHeaders, &http.ServiceHeaders{RequiredHeaders: []*http.Header{{Name: "X-Tenant", Type: "string", Required: true}}})
	}
	if verif.Bool("method.headers") {
		verif.SetExt(mo, http.E_MethodHeaders, &http.MethodHeaders{RequiredHeaders: []*http.Header{{Name: "X-Trace", Type: "string", Required: true}}})
	}
	svc := verif.NewService("acme.v1", "ThingService", so)
	resp := verif.NewMessage("acme.v1", "Resp")
	m := verif.NewMethod(svc, "GetThing", "GetThing", req, resp, mo)
	file := verif.NewFile("acme/v1/thing.proto", "acme.v1", "acmev1", "acme/v1/thing")
	file.Services, file.Messages = []*protogen.Service{svc}, []*protogen.Message{req, resp}

	// Go server: parameter tables of the emitted _http.pb.go
	ps := &protogen.Plugin{Files: []*protogen.File{file}}
	verif.Assert("C03/placement/go-server-accepts", New(ps).Generate() == nil)
	srv := c14Find(verif.Trace(ps), "_http.pb.go")
	verif.Assert("C03/placement/go-server-file", srv != nil)
	srvPath := c03Any(srv.Lines, `{URLParam: "id", FieldName: "id"}`)
	srvQuery := c03Any(srv.Lines, `{QueryName: "`+qname+`", FieldName: "term"`)
	// Go client
	gc := verif.Trace(clientgen.VerifURLLines(svc, m))[0].Lines
	gcPath := c03Any(gc, `"{id}"`)
	gcQuery := c03Any(gc, `queryParams.Set("`+qname+`"`)
	// TS client
	tc := tsclientgen.VerifMethodLines(svc, m)
	tcPath := c03Any(tc, `path.replace("{id}"`)
	tcQuery := c03Any(tc, `params.set("`+qname+`"`)
	// TS server
	ts, tsErr := tsservergen.VerifRouteLines(svc, m)
	verif.Assert("C03/placement/ts-server-accepts", tsErr == nil)
	tsPath := c03Any(ts, `pathParams["id"]`)
	tsQuery := c03Any(ts, `params.get("`+qname+`")`)
	// OpenAPI
	oPath, oQuery := openapiv3.VerifParams(svc, m)
	opPath, opQuery := c03Has(oPath, "id"), c03Has(oQuery, qname)

	verif.Assert("C03/placement/path-variable-in-path-everywhere", verif.And(srvPath, gcPath, tcPath, tsPath, opPath))
	verif.Assert("C03/placement/go-client=ts-client/query", gcQuery == tcQuery)
	verif.Assert("C03/placement/go-server=openapi/query", srvQuery == opQuery)
	// the body: POST, PUT and PATCH requests carry one, GET and DELETE requests do not, for every generator
	_, _, _, _, gcBody := clientgen.VerifRoute(svc, m)
	_, _, _, _, tcBody := tsclientgen.VerifRoute(svc, m)
	_, _, _, _, tsBody, _ := tsservergen.VerifRoute(svc, m)
	opBody := openapiv3.VerifHasRequestBody(svc, m)
	verif.Show("body", map[bool]string{true: "1", false: "0"}[gcBody]+map[bool]string{true: "1", false: "0"}[tcBody]+map[bool]string{true: "1", false: "0"}[tsBody]+map[bool]string{true: "1", false: "0"}[opBody])
	verif.Assert("C03/placement/body-travels-iff-body-verb/go-client", gcBody == bodyVerb)
	verif.Assert("C03/placement/body-travels-iff-body-verb/ts-client", tcBody == bodyVerb)
	verif.Assert("C03/placement/body-travels-iff-body-verb/ts-server", tsBody == bodyVerb)
	verif.Assert("C03/placement/body-travels-iff-body-verb/openapi", opBody == bodyVerb)
	if bodyVerb {
		// known finding: on POST/PUT/PATCH a query-annotated field is published as a query
		// parameter (OpenAPI, Go server) but sent in the body by both clients and not parsed
		// from the query by the TS server
		verif.Expect("KF-C03-query-annotated-field-on-body-verb-placed-differently", verif.And(gcQuery == opQuery, tsQuery == opQuery))
		verif.Reach("C03/placement/kf-body-verb")
		return
	}
	verif.Assert("C03/placement/query-field-in-query-everywhere", verif.And(srvQuery, gcQuery, tcQuery, tsQuery, opQuery))
	verif.Reach("C03/placement/decided")
}

// VerifC03TSPathSegments: the TS server reads every path variable from the URL segment where
// the published template has it (also for variables in directly adjacent segments), i.e. it
// carries the same fields in the path as the other generators.
func VerifC03TSPathSegments() {
	tmpl := []string{"/things/{a}", "/{a}/{b}", "/t/{a}/{b}/{c}", "/t/{a}/x/{b}", "/{a}/x/{b}/{c}"}[verif.Choice("template", 5)]
	base := []string{"", "/api/v1", "/v2/"}[verif.Choice("base", 3)]
	req := verif.NewMessage("acme.v1", "Req")
	for i, n := range []string{"a", "b", "c"} {
		if strings.Contains(tmpl, "{"+n+"}") {
			verif.AddField(req, &verif.FieldDesc{FName: n, FJSON: n, FKind: protoreflect.StringKind, FNumber: int32(i + 1), FOpts: &descriptorpb.FieldOptions{}}, strings.ToUpper(n))
		}
	}
	so := &descriptorpb.ServiceOptions{}
	if base != "" {
		verif.SetExt(so, http.E_ServiceConfig, &http.ServiceConfig{BasePath: base})
	}
	svc := verif.NewService("acme.v1", "ThingService", so)
	mo := &descriptorpb.MethodOptions{}
	verb := http.HttpMethod_HTTP_METHOD_GET
	if verif.Bool("verb.put") {
		verb = http.HttpMethod_HTTP_METHOD_PUT
	}
	verif.SetExt(mo, http.E_Config, &http.HttpConfig{Path: tmpl, Method: verb})
	m := verif.NewMethod(svc, "Get", "Get", req, verif.NewMessage("acme.v1", "Resp"), mo)
	_, full, vars, _, _, err := tsservergen.VerifRoute(svc, m)
	verif.Assert("C03/ts-segments/route-accepted", err == nil)
	lines, err2 := tsservergen.VerifRouteLines(svc, m)
	verif.Assert("C03/ts-segments/route-emitted", err2 == nil)
	segs := strings.Split(full, "/")
	for _, v := range vars {
		want := -1
		for i, sg := range segs {
			if sg == "{"+v+"}" {
				want = i
			}
		}
		got := -2
		pfx := `pathParams["` + v + `"] = decodeURIComponent(pathSegments[`
		for _, l := range lines {
			t := strings.TrimSpace(l)
			if strings.HasPrefix(t, pfx) {
				rest := t[len(pfx):]
				if k := strings.Index(rest, "]"); k > 0 {
					if n, ok := verif.AtoiRef(rest[:k]); ok {
						got = int(n)
					}
				}
			}
		}
		verif.Show("variable", v)
		verif.Assert("C03/ts-segments/variable-read-from-its-template-segment", got == want)
	}
	verif.Reach("C03/ts-segments/decided")
}
