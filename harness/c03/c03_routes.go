package httpgen

import (
	"strings"

	"google.golang.org/protobuf/compiler/protogen"
	"google.golang.org/protobuf/reflect/protoreflect"
	"google.golang.org/protobuf/types/descriptorpb"

	"github.com/SebastienMelki/sebuf/http"
	"github.com/SebastienMelki/sebuf/internal/clientgen"
	"github.com/SebastienMelki/sebuf/internal/openapiv3"
	"github.com/SebastienMelki/sebuf/internal/tsclientgen"
	"github.com/SebastienMelki/sebuf/internal/tsservergen"
	verif "github.com/SebastienMelki/sebuf/internal/zzverif"
)

// method-name shapes of the quantifier: single word, CamelCase, acronym, digits
var c03MethodNames = []string{"Get", "GetUser", "GetHTTPInfo", "V2List"}

const c03SegLen = 3

// c03BasePath returns (present, base path) over the base-path shapes of the quantifier.
func c03BasePath() (bool, string) {
	switch verif.Choice("baseShape", 9) {
	case 0:
		return false, ""
	case 1:
		return true, ""
	case 2:
		return true, "/"
	case 3:
		return true, verif.Seg("b1", c03SegLen)
	case 4:
		return true, "/" + verif.Seg("b1", c03SegLen)
	case 5:
		return true, "/" + verif.Seg("b1", c03SegLen) + "/"
	case 6:
		return true, "/" + verif.Seg("b1", c03SegLen) + "/" + verif.Seg("b2", c03SegLen)
	case 7:
		return true, verif.Seg("b1", c03SegLen) + "/"
	default:
		return true, "/" + verif.Seg("b1", c03SegLen) + "//"
	}
}

// c03MethodPath returns a path template over the path shapes of the quantifier
// and the names of its variables.
func c03MethodPath() (string, []string) {
	s := func(n string) string { return verif.Seg(n, c03SegLen) }
	switch verif.Choice("pathShape", 11) {
	case 0:
		return "", nil
	case 1:
		return "/" + s("p1"), nil
	case 2:
		return s("p1"), nil
	case 3:
		v := s("v1")
		return "/" + s("p1") + "/{" + v + "}", []string{v}
	case 4:
		v := s("v1")
		return "/{" + v + "}", []string{v}
	case 5:
		v1, v2 := s("v1"), s("v2")
		return "/{" + v1 + "}/{" + v2 + "}", []string{v1, v2}
	case 6:
		v1, v2 := s("v1"), s("v2")
		return "/" + s("p1") + "/{" + v1 + "}/" + s("p2") + "/{" + v2 + "}", []string{v1, v2}
	case 7:
		v1, v2 := s("v1"), s("v2")
		return "/{" + v1 + "}{" + v2 + "}", []string{v1, v2}
	case 8:
		return "/" + s("p1") + "/", nil
	case 9:
		v := s("v1")
		return "{" + v + "}", []string{v}
	default:
		v1, v2, v3 := s("v1"), s("v2"), s("v3")
		return "/{" + v1 + "}/" + s("p1") + "/{" + v2 + "}/{" + v3 + "}", []string{v1, v2, v3}
	}
}

func c03Setup() (svc *protogen.Service, m *protogen.Method, hasBase bool, base string, hasCfg bool, cfgPath string, vars []string) {
	svcOpts := &descriptorpb.ServiceOptions{}
	hasBase, base = c03BasePath()
	if hasBase {
		verif.SetExt(svcOpts, http.E_ServiceConfig, &http.ServiceConfig{BasePath: base})
	}
	mOpts := &descriptorpb.MethodOptions{}
	hasCfg = verif.Bool("hasCfg")
	if hasCfg {
		cfgPath, vars = c03MethodPath()
		verif.SetExt(mOpts, http.E_Config, &http.HttpConfig{Path: cfgPath, Method: http.HttpMethod(verif.Int32("verb"))})
	}
	// protoc rejects two fields of one message with the same name
	for i := range vars {
		for j := i + 1; j < len(vars); j++ {
			verif.Assume(vars[i] != vars[j])
		}
	}
	name := c03MethodNames[verif.Choice("name", len(c03MethodNames))]
	svc = verif.NewService("acme.v1", "UserService", svcOpts)
	in := verif.NewMessage("acme.v1", "Req")
	for i, v := range vars {
		verif.AddField(in, &verif.FieldDesc{FName: v, FJSON: v, FKind: protoreflect.StringKind, FNumber: int32(i + 1)}, "F"+v)
	}
	out := verif.NewMessage("acme.v1", "Resp")
	m = verif.NewMethod(svc, name, name, in, out, mOpts)
	return
}

// VerifC03Routes: the five generators agree on verb and path template of an RPC.
func VerifC03Routes() {
	svc, m, _, _, hasCfg, cfgPath, _ := c03Setup()

	g := &Generator{}
	sPath := g.getMethodPath(m, g.getServiceBasePath(svc), "userpb")
	sVerb := g.getHTTPMethod(m)
	cVerb, cPath, _, _, _ := clientgen.VerifRoute(svc, m)
	tcVerb, tcPath, _, _, _ := tsclientgen.VerifRoute(svc, m)
	tsVerb, tsPath, _, _, _, tsErr := tsservergen.VerifRoute(svc, m)
	oVerb, oPath, _ := openapiv3.VerifRoute(svc, m)
	verif.Show("go-server", sVerb+" "+sPath)
	verif.Show("go-client", cVerb+" "+cPath)
	verif.Show("ts-client", tcVerb+" "+tcPath)
	verif.Show("ts-server", tsVerb+" "+tsPath)
	verif.Show("openapi", oVerb+" "+oPath)

	verif.Assert("C03/ts-server-accepts", tsErr == nil)
	verif.Assert("C03/verb/go-server=go-client", sVerb == cVerb)
	verif.Assert("C03/verb/go-client=ts-client", cVerb == tcVerb)
	verif.Assert("C03/verb/go-client=ts-server", cVerb == tsVerb)
	verif.Assert("C03/verb/go-client=openapi", strings.ToLower(cVerb) == oVerb)

	// the three client-side generators share one rule; checked on the whole space
	verif.Assert("C03/path/go-client=ts-client", cPath == tcPath)
	verif.Assert("C03/path/go-client=ts-server", cPath == tsPath)

	if !hasCfg || cfgPath == "" {
		// known finding: three different defaulting rules when no path is configured
		verif.Expect("KF-C03-default-path-go-server", sPath == cPath)
		verif.Expect("KF-C03-default-path-openapi", oPath == cPath)
		verif.Reach("C03/default-path-region")
		return
	}
	verif.Assert("C03/path/go-server=go-client", sPath == cPath)
	verif.Assert("C03/path/go-client=openapi", oPath == cPath)
	verif.Reach("C03/route")
}
