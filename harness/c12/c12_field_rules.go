package httpgen

import (
	"google.golang.org/protobuf/compiler/protogen"
	"google.golang.org/protobuf/reflect/protoreflect"
	"google.golang.org/protobuf/types/descriptorpb"

	"github.com/SebastienMelki/sebuf/http"
	verif "github.com/SebastienMelki/sebuf/internal/zzverif"
)

func c12OneField(annotate func(o *descriptorpb.FieldOptions)) (*c12World, c12Attrs, func() ([]string, bool)) {
	return nil, c12Attrs{}, nil
}

// VerifC12Nullable — R2: nullable on a field without the optional keyword, or on a message field.
func VerifC12Nullable() {
	w := c12NewWorld()
	m := verif.NewMessage("acme.v1", "M")
	opts := &descriptorpb.FieldOptions{}
	nullable := verif.Bool("nullable")
	verif.SetExt(opts, http.E_Nullable, nullable)
	f, a := c12SymField(w, m, "f1", "f1", "F1", 1, opts)
	other := verif.AddField(m, &verif.FieldDesc{FName: "other", FJSON: "other", FKind: protoreflect.StringKind, FNumber: 2, FOpts: &descriptorpb.FieldOptions{}}, "Other")
	if !a.list && !a.mp && !a.optional && verif.Bool("f1.memberOfOneof") {
		// a member of a real oneof tracks presence without carrying the optional keyword
		oo := &protogen.Oneof{Desc: &verif.OneofDesc{OName: "choice", OOpts: &descriptorpb.OneofOptions{}}, GoName: "Choice", Parent: m, Fields: []*protogen.Field{f, other}}
		f.Oneof, other.Oneof = oo, oo
		f.Desc.(*verif.FieldDesc).FOneof, other.Desc.(*verif.FieldDesc).FOneof = oo.Desc, oo.Desc
		m.Oneofs = []*protogen.Oneof{oo}
		verif.Reach("C12/nullable/oneof-member")
	}
	broken := nullable && (!a.optional || a.kind == protoreflect.MessageKind)
	files, imported := c12Place(m)
	c12Decide("nullable", files, imported, broken, true)
}

// VerifC12EmptyBehavior — R3: empty_behavior on a field that is not a singular message field.
func VerifC12EmptyBehavior() {
	w := c12NewWorld()
	m := verif.NewMessage("acme.v1", "M")
	opts := &descriptorpb.FieldOptions{}
	eb := int32(verif.Choice("emptyBehavior", 4))
	verif.SetExt(opts, http.E_EmptyBehavior, http.EmptyBehavior(eb))
	_, a := c12SymField(w, m, "f1", "f1", "F1", 1, opts)
	broken := eb != 0 && (a.kind != protoreflect.MessageKind || a.list || a.mp)
	files, imported := c12Place(m)
	c12Decide("empty_behavior", files, imported, broken, true)
}

// VerifC12TimestampFormat — R4: timestamp_format on a field that is not a Timestamp.
func VerifC12TimestampFormat() {
	w := c12NewWorld()
	m := verif.NewMessage("acme.v1", "M")
	opts := &descriptorpb.FieldOptions{}
	tf := int32(verif.Choice("timestampFormat", 5))
	verif.SetExt(opts, http.E_TimestampFormat, http.TimestampFormat(tf))
	_, a := c12SymField(w, m, "f1", "f1", "F1", 1, opts)
	// left open by the rule text: repeated Timestamp fields
	verif.Assume(!(a.isTimestamp && a.list))
	broken := tf != 0 && !(a.kind == protoreflect.MessageKind && a.isTimestamp && !a.mp)
	files, imported := c12Place(m)
	c12Decide("timestamp_format", files, imported, broken, true)
}

// VerifC12BytesEncoding — R5: bytes_encoding on a field whose kind is not bytes.
func VerifC12BytesEncoding() {
	w := c12NewWorld()
	m := verif.NewMessage("acme.v1", "M")
	opts := &descriptorpb.FieldOptions{}
	be := int32(verif.Choice("bytesEncoding", 6))
	verif.SetExt(opts, http.E_BytesEncoding, http.BytesEncoding(be))
	_, a := c12SymField(w, m, "f1", "f1", "F1", 1, opts)
	verif.Assume(!(a.kind == protoreflect.BytesKind && a.list)) // left open: repeated bytes
	broken := be != 0 && a.kind != protoreflect.BytesKind
	files, imported := c12Place(m)
	c12Decide("bytes_encoding", files, imported, broken, true)
}
