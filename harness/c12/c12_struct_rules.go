package httpgen

import (
	"google.golang.org/protobuf/compiler/protogen"
	"google.golang.org/protobuf/reflect/protoreflect"
	"google.golang.org/protobuf/types/descriptorpb"

	"github.com/SebastienMelki/sebuf/http"
	verif "github.com/SebastienMelki/sebuf/internal/zzverif"
)

func c12ChildKeys(f *protogen.Field, prefix string) []string {
	var out []string
	if f.Message == nil {
		return nil
	}
	for _, c := range f.Message.Fields {
		out = append(out, prefix+c.Desc.JSONName())
	}
	return out
}

// VerifC12Flatten — R6: flatten on repeated/map/scalar/oneof fields, prefix without
// flatten, flattened child keys colliding with a parent field or another flattened child.
func VerifC12Flatten() {
	w := c12NewWorld()
	m := verif.NewMessage("acme.v1", "M")
	// f1: the field under test
	o1 := &descriptorpb.FieldOptions{}
	flatten1 := verif.Bool("f1.flatten")
	prefix1 := verif.StringIn("f1.prefix", verif.L(3), "a-z_")
	verif.SetExt(o1, http.E_Flatten, flatten1)
	if prefix1 != "" {
		verif.SetExt(o1, http.E_FlattenPrefix, prefix1)
	}
	f1, a := c12SymField(w, m, "f1", "f1", "F1", 1, o1)
	inOneof := false
	if !a.list && !a.mp && !a.optional && verif.Bool("f1.inOneof") {
		inOneof = true
		oo := &protogen.Oneof{Desc: &verif.OneofDesc{OName: "choice", OOpts: &descriptorpb.OneofOptions{}}, GoName: "Choice", Parent: m, Fields: []*protogen.Field{f1}}
		f1.Oneof = oo
		f1.Desc.(*verif.FieldDesc).FOneof = oo.Desc
		m.Oneofs = append(m.Oneofs, oo)
	}
	// plain sibling with symbolic JSON name (collision target)
	otherJSON := verif.StringIn("other.json", verif.L(10), "a-zA-Z_")
	verif.Assume(otherJSON != "" && otherJSON != "f1" && otherJSON != "f3")
	verif.AddField(m, &verif.FieldDesc{FName: "other", FJSON: otherJSON, FKind: protoreflect.StringKind, FNumber: 2, FOpts: &descriptorpb.FieldOptions{}}, "Other")
	// optional second flattened field (always a valid singular message field)
	has3 := verif.Bool("has.f3")
	prefix3 := ""
	var f3 *protogen.Field
	if has3 {
		o3 := &descriptorpb.FieldOptions{}
		verif.SetExt(o3, http.E_Flatten, true)
		prefix3 = verif.StringIn("f3.prefix", verif.L(3), "a-z_")
		if prefix3 != "" {
			verif.SetExt(o3, http.E_FlattenPrefix, prefix3)
		}
		d3 := &verif.FieldDesc{FName: "f3", FJSON: "f3", FKind: protoreflect.MessageKind, FNumber: 3, FOpts: o3, FMsg: w.child.Desc}
		f3 = verif.AddField(m, d3, "F3")
		f3.Message = w.child
	}

	misuse := (prefix1 != "" && !flatten1) || (flatten1 && (a.list || a.mp || a.kind != protoreflect.MessageKind || inOneof))
	// collisions (only meaningful when no misuse): keys of flattened children vs
	// non-flattened parent fields and vs each other
	collide := false
	if !misuse {
		used := []string{otherJSON}
		if !flatten1 {
			used = append(used, "f1")
		}
		var keys []string
		if flatten1 {
			keys = append(keys, c12ChildKeys(f1, prefix1)...)
		}
		if has3 {
			keys = append(keys, c12ChildKeys(f3, prefix3)...)
		}
		for i, k := range keys {
			for _, u := range used {
				if k == u {
					collide = true
				}
			}
			for j := 0; j < i; j++ {
				if keys[j] == k {
					collide = true
				}
			}
		}
	}
	files, imported := c12Place(m)
	c12Decide("flatten", files, imported, misuse || collide, true)
}

// VerifC12Oneof — R7: discriminator colliding with a field outside the oneof; flattened
// oneof with scalar variants or with variant children colliding with the discriminator
// or with fields outside the oneof.
func VerifC12Oneof() {
	m := verif.NewMessage("acme.v1", "Event")
	idJSON := verif.StringIn("id.json", verif.L(6), "a-z")
	optJSON := verif.StringIn("opt.json", verif.L(6), "a-z")
	verif.Assume(idJSON != "" && optJSON != "" && idJSON != optJSON)
	verif.AddField(m, &verif.FieldDesc{FName: "id", FJSON: idJSON, FKind: protoreflect.StringKind, FNumber: 1, FOpts: &descriptorpb.FieldOptions{}}, "Id")
	// a proto3-optional field outside the oneof (lives in its own synthetic oneof)
	dOpt := &verif.FieldDesc{FName: "opt", FJSON: optJSON, FKind: protoreflect.StringKind, FNumber: 2, FOptional: true, FOpts: &descriptorpb.FieldOptions{}}
	fOpt := verif.AddField(m, dOpt, "Opt")
	fOpt.Oneof = &protogen.Oneof{Desc: &verif.OneofDesc{OName: "_opt", OSynthetic: true, OOpts: &descriptorpb.OneofOptions{}}, GoName: "X_Opt", Parent: m, Fields: []*protogen.Field{fOpt}}
	dOpt.FOneof = fOpt.Oneof.Desc

	text := verif.NewMessage("acme.v1", "Text")
	bodyJSON := verif.StringIn("body.json", verif.L(6), "a-z")
	verif.Assume(bodyJSON != "")
	verif.AddField(text, &verif.FieldDesc{FName: "body", FJSON: bodyJSON, FKind: protoreflect.StringKind, FNumber: 1, FOpts: &descriptorpb.FieldOptions{}}, "Body")
	image := verif.NewMessage("acme.v1", "Image")
	verif.AddField(image, &verif.FieldDesc{FName: "url", FJSON: "url", FKind: protoreflect.StringKind, FNumber: 1, FOpts: &descriptorpb.FieldOptions{}}, "Url")

	oOpts := &descriptorpb.OneofOptions{}
	disc := verif.StringIn("discriminator", verif.L(6), "a-z")
	flatten := verif.Bool("oneof.flatten")
	hasCfg := verif.Bool("oneof.hasConfig")
	if hasCfg {
		verif.SetExt(oOpts, http.E_OneofConfig, &http.OneofConfig{Discriminator: disc, Flatten: flatten})
	}
	oo := &protogen.Oneof{Desc: &verif.OneofDesc{OName: "content", OOpts: oOpts}, GoName: "Content", Parent: m}
	scalarVariant := verif.Bool("variant1.scalar")
	d1 := &verif.FieldDesc{FName: "text", FJSON: "text", FNumber: 3, FOpts: &descriptorpb.FieldOptions{}, FOneof: oo.Desc}
	if scalarVariant {
		d1.FKind = protoreflect.StringKind
	} else {
		d1.FKind = protoreflect.MessageKind
		d1.FMsg = text.Desc
	}
	v1 := verif.AddField(m, d1, "Text")
	if !scalarVariant {
		v1.Message = text
	}
	v1.Oneof = oo
	d2 := &verif.FieldDesc{FName: "image", FJSON: "image", FKind: protoreflect.MessageKind, FNumber: 4, FOpts: &descriptorpb.FieldOptions{}, FOneof: oo.Desc, FMsg: image.Desc}
	v2 := verif.AddField(m, d2, "Image")
	v2.Message = image
	v2.Oneof = oo
	oo.Fields = []*protogen.Field{v1, v2}
	m.Oneofs = []*protogen.Oneof{oo, fOpt.Oneof}

	broken := false
	if hasCfg && disc != "" {
		if disc == idJSON || disc == optJSON {
			broken = true
		}
		if flatten {
			if scalarVariant {
				broken = true
			} else if bodyJSON == disc || bodyJSON == idJSON || bodyJSON == optJSON {
				broken = true
			}
			if disc == "url" || idJSON == "url" || optJSON == "url" {
				broken = true
			}
		}
	}
	files, imported := c12Place(m, text, image)
	c12Decide("oneof", files, imported, broken, true)
}

// VerifC12Enum — R8: enum_encoding = NUMBER on a field whose enum has custom enum_value strings.
func VerifC12Enum() {
	w := c12NewWorld()
	m := verif.NewMessage("acme.v1", "M")
	custom := verif.StringIn("enum.customValue", verif.L(3), "a-z")
	if custom != "" {
		verif.SetExt(w.enum.Values[1].Desc.Options().(*descriptorpb.EnumValueOptions), http.E_EnumValue, custom)
	}
	enc := int32(verif.Choice("enumEncoding", 3))
	o := &descriptorpb.FieldOptions{}
	verif.SetExt(o, http.E_EnumEncoding, http.EnumEncoding(enc))
	d := &verif.FieldDesc{FName: "color", FJSON: "color", FKind: protoreflect.EnumKind, FNumber: 1, FOpts: o, FEnum: w.enum.Desc, FList: verif.Bool("repeated")}
	f := verif.AddField(m, d, "Color")
	f.Enum = w.enum
	broken := enc == int32(http.EnumEncoding_ENUM_ENCODING_NUMBER) && custom != ""
	files, imported := c12Place(m)
	for _, fl := range files {
		fl.Enums = append(fl.Enums, w.enum)
		break
	}
	c12Decide("enum", files, imported, broken, true)
}

// VerifC12Unwrap — R1: unwrap on a field that is neither repeated nor map, twice in a
// message, or on a map field beside other fields. (The Go client implements no unwrap.)
func VerifC12Unwrap() {
	w := c12NewWorld()
	m := verif.NewMessage("acme.v1", "M")
	o1 := &descriptorpb.FieldOptions{}
	u1 := verif.Bool("f1.unwrap")
	verif.SetExt(o1, http.E_Unwrap, u1)
	_, a := c12SymField(w, m, "f1", "f1", "F1", 1, o1)
	has2 := verif.Bool("has.f2")
	u2, list2 := false, false
	if has2 {
		o2 := &descriptorpb.FieldOptions{}
		u2 = verif.Bool("f2.unwrap")
		list2 = verif.Bool("f2.repeated")
		verif.SetExt(o2, http.E_Unwrap, u2)
		verif.AddField(m, &verif.FieldDesc{FName: "f2", FJSON: "f2", FKind: protoreflect.StringKind, FList: list2, FNumber: 2, FOpts: o2}, "F2")
	}
	broken := (u1 && !a.list && !a.mp) || (u2 && !list2) || (u1 && u2) || (u1 && a.mp && has2)
	files, imported := c12Place(m)
	c12Decide("unwrap", files, imported, broken, false)
}
