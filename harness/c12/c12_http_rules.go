package httpgen

import (
	"google.golang.org/protobuf/compiler/protogen"
	"google.golang.org/protobuf/reflect/protoreflect"
	"google.golang.org/protobuf/types/descriptorpb"

	"github.com/SebastienMelki/sebuf/http"
	"github.com/SebastienMelki/sebuf/internal/clientgen"
	verif "github.com/SebastienMelki/sebuf/internal/zzverif"
)

// VerifC12HTTPConfig — R9: a path variable with no matching or a non-scalar field, a
// field bound to both path and query, a bodiless verb with unbound fields.
func VerifC12HTTPConfig() {
	files, broken := c12HTTPFiles()
	errS := New(&protogen.Plugin{Files: files}).Generate()
	errC := clientgen.VerifGenerate(files)
	verif.Show("broken", broken)
	verif.Show("go-http-refused", errS != nil)
	verif.Assert("C12/http/go-http-refuses-iff-broken", (errS != nil) == broken)
	verif.Assert("C12/http/go-client-never-refuses-valid", broken || errC == nil)
	verif.Reach("C12/http/decided")
}

// c12HTTPFiles: one service with one method whose HTTP configuration, verb and request fields
// are arbitrary (valid or not); broken reports whether a rule of R9 is violated.
func c12HTTPFiles() ([]*protogen.File, bool) {
	w := c12NewWorld()
	req := verif.NewMessage("acme.v1", "GetReq")
	// f1 "item_id": symbolic kind/cardinality, optionally query-annotated (with a renamed parameter)
	o1 := &descriptorpb.FieldOptions{}
	q1 := verif.Bool("f1.query")
	if q1 {
		qn := []string{"", "item_id", "id", "note"}[verif.Choice("f1.queryName", 4)]
		verif.SetExt(o1, http.E_Query, &http.QueryConfig{Name: qn, Required: verif.Bool("f1.queryRequired")})
	}
	_, a := c12SymField(w, req, "item_id", "itemId", "ItemId", 1, o1)
	// f2 "note": plain string, optionally query-annotated, possibly under the name of the path variable
	o2 := &descriptorpb.FieldOptions{}
	has2 := verif.Bool("has.f2")
	q2 := false
	if has2 {
		q2 = verif.Bool("f2.query")
		if q2 {
			qn := []string{"", "item_id", "n"}[verif.Choice("f2.queryName", 3)]
			verif.SetExt(o2, http.E_Query, &http.QueryConfig{Name: qn})
		}
		verif.AddField(req, &verif.FieldDesc{FName: "note", FJSON: "note", FKind: protoreflect.StringKind, FNumber: 2, FOpts: o2}, "Note")
	}
	resp := verif.NewMessage("acme.v1", "Resp")
	svc := verif.NewService("acme.v1", "ItemService", &descriptorpb.ServiceOptions{})
	mo := &descriptorpb.MethodOptions{}
	verb := int32(verif.Choice("verb", 6))
	pathVar := []string{"", "item_id", "missing", "note"}[verif.Choice("pathVar", 4)]
	path := "/items"
	if pathVar != "" {
		path = "/items/{" + pathVar + "}"
	}
	hasCfg := verif.Bool("hasConfig")
	if hasCfg {
		verif.SetExt(mo, http.E_Config, &http.HttpConfig{Path: path, Method: http.HttpMethod(verb)})
	}
	verif.NewMethod(svc, "GetItem", "GetItem", req, resp, mo)
	file := verif.NewFile("acme/v1/svc.proto", "acme.v1", "acmev1", "acme/v1/svc")
	file.Services = []*protogen.Service{svc}
	file.Messages = []*protogen.Message{req, resp}
	files := []*protogen.File{file}

	// left open by the rule text: a repeated/map scalar used as a path variable
	verif.Assume(!(pathVar == "item_id" && (a.list || a.mp) && a.kind != protoreflect.MessageKind && a.kind != protoreflect.EnumKind && a.kind != protoreflect.BytesKind))

	broken := false
	if hasCfg {
		switch pathVar {
		case "missing":
			broken = true
		case "note":
			if !has2 {
				broken = true
			}
		case "item_id":
			if a.kind == protoreflect.EnumKind || a.kind == protoreflect.BytesKind || a.kind == protoreflect.MessageKind {
				broken = true
			}
		}
		if pathVar == "item_id" && q1 {
			broken = true
		}
		if pathVar == "note" && has2 && q2 {
			broken = true
		}
		bodiless := verb == int32(http.HttpMethod_HTTP_METHOD_GET) || verb == int32(http.HttpMethod_HTTP_METHOD_DELETE)
		if bodiless {
			if pathVar != "item_id" && !q1 {
				broken = true
			}
			if has2 && pathVar != "note" && !q2 {
				broken = true
			}
		}
	}
	return files, broken
}
