package httpgen

import (
	"google.golang.org/protobuf/compiler/protogen"
	"google.golang.org/protobuf/reflect/protoreflect"
	"google.golang.org/protobuf/types/descriptorpb"

	"github.com/SebastienMelki/sebuf/http"
	"github.com/SebastienMelki/sebuf/internal/clientgen"
	verif "github.com/SebastienMelki/sebuf/internal/zzverif"
)

var c12Kinds = []protoreflect.Kind{
	protoreflect.StringKind, protoreflect.BoolKind, protoreflect.EnumKind, protoreflect.Int32Kind, protoreflect.Sint32Kind,
	protoreflect.Uint32Kind, protoreflect.Int64Kind, protoreflect.Sint64Kind, protoreflect.Uint64Kind, protoreflect.Sfixed32Kind,
	protoreflect.Fixed32Kind, protoreflect.FloatKind, protoreflect.Sfixed64Kind, protoreflect.Fixed64Kind, protoreflect.DoubleKind,
	protoreflect.BytesKind, protoreflect.MessageKind,
}

// quick tier: one representative per class the generators distinguish
var c12KindsQuick = []protoreflect.Kind{
	protoreflect.StringKind, protoreflect.BoolKind, protoreflect.EnumKind, protoreflect.Int32Kind, protoreflect.Int64Kind,
	protoreflect.Uint64Kind, protoreflect.DoubleKind, protoreflect.BytesKind, protoreflect.MessageKind,
}

type c12Attrs struct {
	kind                     protoreflect.Kind
	list, mp, optional       bool
	isTimestamp              bool
}

type c12World struct {
	child, ts, entry *protogen.Message
	enum             *protogen.Enum
}

func c12NewWorld() *c12World {
	w := &c12World{}
	w.child = verif.NewMessage("acme.v1", "Child")
	verif.AddField(w.child, &verif.FieldDesc{FName: "street", FJSON: "street", FKind: protoreflect.StringKind, FNumber: 1}, "Street")
	verif.AddField(w.child, &verif.FieldDesc{FName: "zip_code", FJSON: "zipCode", FKind: protoreflect.StringKind, FNumber: 2}, "ZipCode")
	w.ts = &protogen.Message{
		Desc:    &verif.MessageDesc{MName: "Timestamp", MFullName: "google.protobuf.Timestamp"},
		GoIdent: protogen.GoIdent{GoName: "Timestamp", GoImportPath: "google.golang.org/protobuf/types/known/timestamppb"},
	}
	verif.AddField(w.ts, &verif.FieldDesc{FName: "seconds", FJSON: "seconds", FKind: protoreflect.Int64Kind, FNumber: 1}, "Seconds")
	verif.AddField(w.ts, &verif.FieldDesc{FName: "nanos", FJSON: "nanos", FKind: protoreflect.Int32Kind, FNumber: 2}, "Nanos")
	w.entry = &protogen.Message{
		Desc:    &verif.MessageDesc{MName: "F1Entry", MFullName: "acme.v1.M.F1Entry", MMapEntry: true},
		GoIdent: protogen.GoIdent{GoName: "M_F1Entry", GoImportPath: verif.ImportPath},
	}
	verif.AddField(w.entry, &verif.FieldDesc{FName: "key", FJSON: "key", FKind: protoreflect.StringKind, FNumber: 1}, "Key")
	verif.AddField(w.entry, &verif.FieldDesc{FName: "value", FJSON: "value", FKind: protoreflect.StringKind, FNumber: 2}, "Value")
	w.enum = &protogen.Enum{
		Desc:    &verif.EnumDesc{EName: "Color", EFullName: "acme.v1.Color"},
		GoIdent: protogen.GoIdent{GoName: "Color", GoImportPath: verif.ImportPath},
	}
	for i, n := range []string{"COLOR_UNSPECIFIED", "COLOR_RED"} {
		w.enum.Values = append(w.enum.Values, &protogen.EnumValue{
			Desc:    &verif.EnumValueDesc{VName: n, VNumber: int32(i), VOpts: &descriptorpb.EnumValueOptions{}},
			GoIdent: protogen.GoIdent{GoName: "Color_" + n, GoImportPath: verif.ImportPath},
			Parent:  w.enum,
		})
	}
	return w
}

// c12SymField adds to msg a field whose kind and cardinality are symbolic, under
// the well-formedness protoc guarantees.
func c12SymField(w *c12World, msg *protogen.Message, name, json, goName string, num int32, opts *descriptorpb.FieldOptions) (*protogen.Field, c12Attrs) {
	var a c12Attrs
	kinds := c12KindsQuick
	if verif.Thorough() {
		kinds = c12Kinds
	}
	a.kind = kinds[verif.Choice(name+".kind", len(kinds))]
	a.list = verif.Bool(name + ".repeated")
	if !a.list && a.kind == protoreflect.MessageKind {
		a.mp = verif.Bool(name + ".map")
	}
	if !a.list && !a.mp {
		a.optional = verif.Bool(name + ".optional")
	}
	d := &verif.FieldDesc{FName: name, FJSON: json, FKind: a.kind, FList: a.list, FMap: a.mp, FOptional: a.optional, FNumber: num, FOpts: opts}
	f := verif.AddField(msg, d, goName)
	switch {
	case a.mp:
		f.Message = w.entry
	case a.kind == protoreflect.MessageKind:
		if verif.Bool(name + ".isTimestamp") {
			a.isTimestamp = true
			f.Message = w.ts
		} else {
			f.Message = w.child
		}
	case a.kind == protoreflect.EnumKind:
		f.Enum = w.enum
	}
	if f.Message != nil {
		d.FMsg = f.Message.Desc
	}
	if a.optional {
		// proto3 optional fields live in a synthetic oneof
		f.Oneof = &protogen.Oneof{Desc: &verif.OneofDesc{OName: "_" + name, OSynthetic: true, OOpts: &descriptorpb.OneofOptions{}}, GoName: "X_" + goName, Parent: msg, Fields: []*protogen.Field{f}}
		d.FOneof = f.Oneof.Desc
	}
	return f, a
}

// c12Place puts message m at one of the placements of the quantifier and returns
// the file set of the run plus whether the placement is "imported file".
func c12Place(m *protogen.Message, extra ...*protogen.Message) (files []*protogen.File, imported bool) {
	req := verif.NewMessage("acme.v1", "PingRequest")
	verif.AddField(req, &verif.FieldDesc{FName: "id", FJSON: "id", FKind: protoreflect.StringKind, FNumber: 1, FOpts: &descriptorpb.FieldOptions{}}, "Id")
	resp := verif.NewMessage("acme.v1", "PingResponse")
	verif.AddField(resp, &verif.FieldDesc{FName: "ok", FJSON: "ok", FKind: protoreflect.BoolKind, FNumber: 1, FOpts: &descriptorpb.FieldOptions{}}, "Ok")
	svc := verif.NewService("acme.v1", "PingService", &descriptorpb.ServiceOptions{})
	mo := &descriptorpb.MethodOptions{}
	verif.SetExt(mo, http.E_Config, &http.HttpConfig{Path: "/ping", Method: http.HttpMethod_HTTP_METHOD_POST})
	verif.NewMethod(svc, "Ping", "Ping", req, resp, mo)
	main := verif.NewFile("acme/v1/svc.proto", "acme.v1", "acmev1", "acme/v1/svc")
	main.Services = []*protogen.Service{svc}
	main.Messages = []*protogen.Message{req, resp}
	switch verif.Choice("placement", 4) {
	case 0: // top level of the service file
		main.Messages = append(main.Messages, m)
		main.Messages = append(main.Messages, extra...)
		return []*protogen.File{main}, false
	case 1: // nested in another message of the service file
		outer := verif.NewMessage("acme.v1", "Outer")
		outer.Messages = append([]*protogen.Message{m}, extra...)
		main.Messages = append(main.Messages, outer)
		return []*protogen.File{main}, false
	case 2: // non-service file of the same run
		other := verif.NewFile("acme/v1/types.proto", "acme.v1", "acmev1", "acme/v1/types")
		other.Messages = append([]*protogen.Message{m}, extra...)
		return []*protogen.File{other, main}, false
	default: // imported file (not generated in this run)
		other := verif.NewFile("acme/v1/types.proto", "acme.v1", "acmev1", "acme/v1/types")
		other.Messages = append([]*protogen.Message{m}, extra...)
		other.Generate = false
		return []*protogen.File{other, main}, true
	}
}

// c12Decide runs both Go generators and states the obligations of rule `rule`.
func c12Decide(rule string, files []*protogen.File, imported, broken, clientImplements bool) {
	errS := New(&protogen.Plugin{Files: files}).Generate()
	errC := clientgen.VerifGenerate(files)
	verif.Show("broken", broken)
	verif.Show("go-http-refused", errS != nil)
	verif.Show("go-client-refused", errC != nil)
	if imported {
		verif.Expect("KF-C12-imported-file-not-validated", (errS != nil) == broken)
		verif.Reach("C12/" + rule + "/imported")
		return
	}
	verif.Assert("C12/"+rule+"/go-http-refuses-iff-broken", (errS != nil) == broken)
	if clientImplements {
		verif.Assert("C12/"+rule+"/go-client-refuses-iff-broken", (errC != nil) == broken)
	} else {
		verif.Assert("C12/"+rule+"/go-client-never-refuses-valid", broken || errC == nil)
	}
	verif.Reach("C12/" + rule + "/decided")
}
