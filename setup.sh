#!/bin/bash
# Build the verification framework from files on disk only (offline).
set -e
cd "$(dirname "$0")"
export PATH="$PWD/tools/goshim:$PATH" GOFLAGS=-mod=mod GOPROXY=off GOTOOLCHAIN=local GOSUMDB=off
mkdir -p bin
(cd engine && go build -o ../bin/gosym .)
echo "setup ok: $(ls -la bin/gosym | awk '{print $5}') bytes"
