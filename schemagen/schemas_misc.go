package main

import (
	sh "github.com/SebastienMelki/sebuf/http"
)

func init() {
	// a well-formed request whose file has no go_package option (protoc accepts it;
	// Go plugins must answer with an error message, not crash)
	schemas["nogopackage"] = func() Schema {
		return Schema{Files: []File{{
			Name: "plain/plain.proto", Package: "plain.v1", GoPackage: "",
			Deps:     []string{"proto/sebuf/http/annotations.proto"},
			Messages: []M{{Name: "Req", Fields: []F{{Name: "id", Num: 1, Type: TString}}}, {Name: "Resp", Fields: []F{{Name: "ok", Num: 1, Type: TBool}}}},
			Services: []S{{Name: "PlainService", Methods: []Me{{Name: "Do", In: ".plain.v1.Req", Out: ".plain.v1.Resp", Ext: []ExtV{HTTP(sh.HttpMethod_HTTP_METHOD_POST, "/do")}}}}},
		}}}
	}
}

func examples(vs ...string) ExtV { return ExtV{sh.E_FieldExamples, &sh.FieldExamples{Values: vs}} }

func init() {
	// "mock": response fields with example lists, generated with generate_mock=true
	schemas["mock"] = func() Schema {
		p := ".acme.mock."
		return Schema{Files: []File{{
			Name: "gen/mock/mock.proto", Package: "acme.mock", GoPackage: "verifmod/gen/mock;mock",
			Deps: []string{"proto/sebuf/http/annotations.proto"},
			Messages: []M{
				{Name: "Req", Fields: []F{{Name: "id", Num: 1, Type: TString}}},
				{Name: "Resp", Fields: []F{
					{Name: "big", Num: 1, Type: TInt64, Ext: []ExtV{examples("7", "2147483648", "abc")}},
					{Name: "title", Num: 2, Type: TString, Ext: []ExtV{examples("alpha", "beta")}},
					{Name: "ok", Num: 3, Type: TBool, Ext: []ExtV{examples("true", "false")}},
					{Name: "ratio", Num: 4, Type: TDouble, Ext: []ExtV{examples("1.5")}},
					{Name: "plain", Num: 5, Type: TInt64},
				}},
			},
			Services: []S{{Name: "MockedService", Methods: []Me{{Name: "Get", In: p + "Req", Out: p + "Resp", Ext: []ExtV{HTTP(sh.HttpMethod_HTTP_METHOD_POST, "/get")}}}}},
		}}}
	}
}
