package main

import (
	sh "github.com/SebastienMelki/sebuf/http"
)

func init() {
	// a well-formed request whose file has no go_package option (protoc accepts it;
	// Go plugins must answer with an error message, not crash)
	schemas["nogopackage"] = func() Schema {
		return Schema{Files: []File{{
			Name: "plain/plain.proto", Package: "plain.v1", GoPackage: "",
			Deps:     []string{"proto/sebuf/http/annotations.proto"},
			Messages: []M{{Name: "Req", Fields: []F{{Name: "id", Num: 1, Type: TString}}}, {Name: "Resp", Fields: []F{{Name: "ok", Num: 1, Type: TBool}}}},
			Services: []S{{Name: "PlainService", Methods: []Me{{Name: "Do", In: ".plain.v1.Req", Out: ".plain.v1.Resp", Ext: []ExtV{HTTP(sh.HttpMethod_HTTP_METHOD_POST, "/do")}}}}},
		}}}
	}
}
