package main

import (
	sh "github.com/SebastienMelki/sebuf/http"
)

func init() {
	// "roundtrip": Go client + Go server in one package, every verb, path/query/body fields.
	schemas["roundtrip"] = func() Schema {
		p := ".acme.roundtrip."
		get := M{Name: "GetReq", Fields: []F{
			{Name: "thing_id", Num: 1, Type: TString},
			{Name: "page", Num: 2, Type: TInt32, Ext: []ExtV{Query("page", false)}},
			{Name: "q", Num: 3, Type: TString, Ext: []ExtV{Query("q", false)}},
			{Name: "big", Num: 4, Type: TInt64, Ext: []ExtV{Query("big", true)}},
			{Name: "flag", Num: 5, Type: TBool, Ext: []ExtV{Query("flag", false)}},
		}}
		upd := M{Name: "UpdateReq", Fields: []F{
			{Name: "thing_id", Num: 1, Type: TString},
			{Name: "note", Num: 2, Type: TString},
			{Name: "big", Num: 3, Type: TInt64},
			{Name: "count", Num: 4, Type: TInt32},
			{Name: "tags", Num: 5, Type: TString, Repeated: true},
		}}
		create := M{Name: "CreateReq", Fields: []F{
			{Name: "note", Num: 1, Type: TString},
			{Name: "big", Num: 2, Type: TInt64},
		}}
		del := M{Name: "DeleteReq", Fields: []F{{Name: "thing_id", Num: 1, Type: TInt64}}}
		resp := M{Name: "Thing", Fields: []F{{Name: "id", Num: 1, Type: TString}, {Name: "total", Num: 2, Type: TInt64}, {Name: "items", Num: 3, Type: TString, Repeated: true}, {Name: "ok", Num: 4, Type: TBool}}}
		nf := M{Name: "NotFoundError", Fields: []F{{Name: "resource_type", Num: 1, Type: TString}, {Name: "resource_id", Num: 2, Type: TString}}}
		return Schema{Files: []File{{
			Name: "gen/roundtrip/roundtrip.proto", Package: "acme.roundtrip", GoPackage: "verifmod/gen/roundtrip;roundtrip",
			Deps:     []string{"proto/sebuf/http/annotations.proto", "proto/sebuf/http/headers.proto"},
			Messages: []M{get, upd, create, del, resp, nf},
			Services: []S{
				{Name: "ThingService", Ext: []ExtV{Base("/api/v1"), SvcHeaders(hdr("X-API-Key", "string", "", true))},
					Methods: []Me{
						{Name: "GetThing", In: p + "GetReq", Out: p + "Thing", Ext: []ExtV{HTTP(sh.HttpMethod_HTTP_METHOD_GET, "/things/{thing_id}")}},
						{Name: "CreateThing", In: p + "CreateReq", Out: p + "Thing", Ext: []ExtV{HTTP(sh.HttpMethod_HTTP_METHOD_POST, "/things")}},
						{Name: "UpdateThing", In: p + "UpdateReq", Out: p + "Thing", Ext: []ExtV{HTTP(sh.HttpMethod_HTTP_METHOD_PUT, "/things/{thing_id}"), MethodHeaders(hdr("X-Request-ID", "string", "", true))}},
						{Name: "PatchThing", In: p + "UpdateReq", Out: p + "Thing", Ext: []ExtV{HTTP(sh.HttpMethod_HTTP_METHOD_PATCH, "/things/{thing_id}")}},
						{Name: "DeleteThing", In: p + "DeleteReq", Out: p + "Thing", Ext: []ExtV{HTTP(sh.HttpMethod_HTTP_METHOD_DELETE, "/things/{thing_id}")}},
					}},
				{Name: "AdminService", Ext: []ExtV{Base("/admin")},
					Methods: []Me{
						{Name: "Purge", In: p + "CreateReq", Out: p + "Thing", Ext: []ExtV{HTTP(sh.HttpMethod_HTTP_METHOD_POST, "/purge"), MethodHeaders(hdr("X-Admin", "string", "", true))}},
					}},
			},
		}}}
	}
}
