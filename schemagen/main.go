package main

// schemagen builds CodeGeneratorRequests for named schema families, pipes them
// through the real plugin binaries (built from /repo's working tree) and unpacks
// the responses.
//
//   schemagen -schema NAME -plugins DIR -out DIR [-run go,go-http,go-client] [-param go-http=generate_mock=true]
//   schemagen -list

import (
	"bytes"
	"encoding/json"
	"flag"
	"fmt"
	"os"
	"os/exec"
	"path/filepath"
	"sort"
	"strings"

	"buf.build/gen/go/bufbuild/protovalidate/protocolbuffers/go/buf/validate"
	"google.golang.org/protobuf/proto"
	"google.golang.org/protobuf/reflect/protodesc"
	"google.golang.org/protobuf/reflect/protoreflect"
	"google.golang.org/protobuf/types/descriptorpb"
	"google.golang.org/protobuf/types/known/timestamppb"
	"google.golang.org/protobuf/types/pluginpb"

	sh "github.com/SebastienMelki/sebuf/http"
)

type Schema struct {
	Files    []File
	Generate []string // file names to generate (default: all)
}

var schemas = map[string]func() Schema{}

func depFiles() []*descriptorpb.FileDescriptorProto {
	var out []*descriptorpb.FileDescriptorProto
	seen := map[string]bool{}
	var add func(fd protoreflect.FileDescriptor)
	add = func(fd protoreflect.FileDescriptor) {
		if seen[fd.Path()] {
			return
		}
		seen[fd.Path()] = true
		imps := fd.Imports()
		for i := 0; i < imps.Len(); i++ {
			add(imps.Get(i).FileDescriptor)
		}
		out = append(out, protodesc.ToFileDescriptorProto(fd))
	}
	add(descriptorpb.File_google_protobuf_descriptor_proto)
	add(timestamppb.File_google_protobuf_timestamp_proto)
	add(sh.File_proto_sebuf_http_annotations_proto)
	add(sh.File_proto_sebuf_http_headers_proto)
	add(sh.File_proto_sebuf_http_errors_proto)
	add(validate.File_buf_validate_validate_proto)
	return out
}

func buildRequest(s Schema, param string) *pluginpb.CodeGeneratorRequest {
	req := &pluginpb.CodeGeneratorRequest{ProtoFile: depFiles()}
	if param != "" {
		req.Parameter = proto.String(param)
	}
	for _, f := range s.Files {
		req.ProtoFile = append(req.ProtoFile, buildFile(f))
	}
	gen := s.Generate
	if gen == nil {
		for _, f := range s.Files {
			gen = append(gen, f.Name)
		}
	}
	req.FileToGenerate = gen
	return req
}

type PluginResult struct {
	Plugin string   `json:"plugin"`
	Error  string   `json:"error,omitempty"`
	Files  []string `json:"files"`
	Exit   string   `json:"exit,omitempty"`
	Stderr string   `json:"stderr,omitempty"`
}

func runPlugin(bin string, req *pluginpb.CodeGeneratorRequest, outDir string) PluginResult {
	res := PluginResult{Plugin: filepath.Base(bin)}
	in, err := proto.Marshal(req)
	if err != nil {
		res.Exit = "marshal: " + err.Error()
		return res
	}
	cmd := exec.Command(bin)
	cmd.Stdin = bytes.NewReader(in)
	var stdout, stderr bytes.Buffer
	cmd.Stdout, cmd.Stderr = &stdout, &stderr
	if err := cmd.Run(); err != nil {
		res.Exit = err.Error()
		res.Stderr = tail(stderr.String(), 2000)
		return res
	}
	var resp pluginpb.CodeGeneratorResponse
	if err := proto.Unmarshal(stdout.Bytes(), &resp); err != nil {
		res.Exit = "unmarshal response: " + err.Error()
		return res
	}
	if resp.Error != nil {
		res.Error = resp.GetError()
	}
	for _, f := range resp.File {
		res.Files = append(res.Files, f.GetName())
		if outDir != "" {
			p := filepath.Join(outDir, f.GetName())
			os.MkdirAll(filepath.Dir(p), 0o755)
			if err := os.WriteFile(p, []byte(f.GetContent()), 0o644); err != nil {
				res.Exit = err.Error()
			}
		}
	}
	sort.Strings(res.Files)
	return res
}

func tail(s string, n int) string {
	if len(s) > n {
		return s[len(s)-n:]
	}
	return s
}

func main() {
	schema := flag.String("schema", "", "schema name")
	plugins := flag.String("plugins", "", "directory with plugin binaries")
	out := flag.String("out", "", "output directory")
	run := flag.String("run", "go,go-http", "plugins to run (go, go-http, go-client, openapiv3, ts-client, ts-server)")
	params := flag.String("param", "paths=source_relative", "parameter for every plugin; per-plugin: name=value;name=value")
	list := flag.Bool("list", false, "list schemas")
	dump := flag.String("dumpreq", "", "write the request to this file instead of running plugins")
	flag.Parse()
	if *list {
		var names []string
		for n := range schemas {
			names = append(names, n)
		}
		sort.Strings(names)
		fmt.Println(strings.Join(names, "\n"))
		return
	}
	mk, ok := schemas[*schema]
	if !ok {
		fmt.Fprintln(os.Stderr, "unknown schema", *schema)
		os.Exit(2)
	}
	s := mk()
	perPlugin := map[string]string{}
	common := ""
	for _, kv := range strings.Split(*params, ";") {
		if i := strings.Index(kv, ":"); i > 0 {
			perPlugin[kv[:i]] = kv[i+1:]
		} else if kv != "" {
			common = kv
		}
	}
	if *dump != "" {
		b, _ := proto.Marshal(buildRequest(s, common))
		os.WriteFile(*dump, b, 0o644)
		return
	}
	var results []PluginResult
	for _, p := range strings.Split(*run, ",") {
		param := common
		if pp, ok := perPlugin[p]; ok {
			if param != "" {
				param += "," + pp
			} else {
				param = pp
			}
		}
		req := buildRequest(s, param)
		results = append(results, runPlugin(filepath.Join(*plugins, "protoc-gen-"+p), req, *out))
	}
	json.NewEncoder(os.Stdout).Encode(results)
}
