package main

// A small DSL to build FileDescriptorProtos (there is no protoc on this image).

import (
	"fmt"
	"strings"

	"google.golang.org/protobuf/proto"
	"google.golang.org/protobuf/reflect/protoreflect"
	"google.golang.org/protobuf/types/descriptorpb"

	sh "github.com/SebastienMelki/sebuf/http"
)

type T = descriptorpb.FieldDescriptorProto_Type

const (
	TDouble   = descriptorpb.FieldDescriptorProto_TYPE_DOUBLE
	TFloat    = descriptorpb.FieldDescriptorProto_TYPE_FLOAT
	TInt64    = descriptorpb.FieldDescriptorProto_TYPE_INT64
	TUint64   = descriptorpb.FieldDescriptorProto_TYPE_UINT64
	TInt32    = descriptorpb.FieldDescriptorProto_TYPE_INT32
	TFixed64  = descriptorpb.FieldDescriptorProto_TYPE_FIXED64
	TFixed32  = descriptorpb.FieldDescriptorProto_TYPE_FIXED32
	TBool     = descriptorpb.FieldDescriptorProto_TYPE_BOOL
	TString   = descriptorpb.FieldDescriptorProto_TYPE_STRING
	TMessage  = descriptorpb.FieldDescriptorProto_TYPE_MESSAGE
	TBytes    = descriptorpb.FieldDescriptorProto_TYPE_BYTES
	TUint32   = descriptorpb.FieldDescriptorProto_TYPE_UINT32
	TEnum     = descriptorpb.FieldDescriptorProto_TYPE_ENUM
	TSfixed32 = descriptorpb.FieldDescriptorProto_TYPE_SFIXED32
	TSfixed64 = descriptorpb.FieldDescriptorProto_TYPE_SFIXED64
	TSint32   = descriptorpb.FieldDescriptorProto_TYPE_SINT32
	TSint64   = descriptorpb.FieldDescriptorProto_TYPE_SINT64
)

type F struct {
	Name     string
	Num      int32
	Type     T
	TypeName string // ".pkg.Msg" for message/enum
	Repeated bool
	Optional bool   // proto3 optional
	Oneof    string // name of a real oneof of the message
	JSON     string
	Ext      []ExtV // sebuf / validate extensions on the field
	// map<K,V>: set MapKey/MapVal and leave Type unset
	MapKey      T
	MapVal      T
	MapValType  string
}

type ExtV struct {
	X protoreflect.ExtensionType
	V interface{}
}

type O struct {
	Name string
	Ext  []ExtV
}

type EV struct {
	Name string
	Num  int32
	Ext  []ExtV
}

type E struct {
	Name   string
	Values []EV
}

type M struct {
	Name   string
	Fields []F
	Oneofs []O
	Nested []M
	Enums  []E
}

type Me struct {
	Name, In, Out string
	Ext           []ExtV
}

type S struct {
	Name    string
	Methods []Me
	Ext     []ExtV
}

type File struct {
	Name      string
	Package   string
	GoPackage string // empty: no go_package option
	Deps      []string
	Messages  []M
	Enums     []E
	Services  []S
}

func setExts(m proto.Message, exts []ExtV) {
	for _, e := range exts {
		proto.SetExtension(m, e.X, e.V)
	}
}

func upperCamel(s string) string {
	parts := strings.Split(s, "_")
	for i, p := range parts {
		if p != "" {
			parts[i] = strings.ToUpper(p[:1]) + p[1:]
		}
	}
	return strings.Join(parts, "")
}

func buildEnum(e E) *descriptorpb.EnumDescriptorProto {
	d := &descriptorpb.EnumDescriptorProto{Name: proto.String(e.Name)}
	for _, v := range e.Values {
		vd := &descriptorpb.EnumValueDescriptorProto{Name: proto.String(v.Name), Number: proto.Int32(v.Num)}
		if len(v.Ext) > 0 {
			vd.Options = &descriptorpb.EnumValueOptions{}
			setExts(vd.Options, v.Ext)
		}
		d.Value = append(d.Value, vd)
	}
	return d
}

func buildMessage(pkgPrefix string, m M) *descriptorpb.DescriptorProto {
	d := &descriptorpb.DescriptorProto{Name: proto.String(m.Name)}
	full := pkgPrefix + "." + m.Name
	oneofIdx := map[string]int32{}
	for _, o := range m.Oneofs {
		od := &descriptorpb.OneofDescriptorProto{Name: proto.String(o.Name)}
		if len(o.Ext) > 0 {
			od.Options = &descriptorpb.OneofOptions{}
			setExts(od.Options, o.Ext)
		}
		oneofIdx[o.Name] = int32(len(d.OneofDecl))
		d.OneofDecl = append(d.OneofDecl, od)
	}
	var synthetic []*descriptorpb.OneofDescriptorProto
	for _, f := range m.Fields {
		fd := &descriptorpb.FieldDescriptorProto{Name: proto.String(f.Name), Number: proto.Int32(f.Num),
			Label: descriptorpb.FieldDescriptorProto_LABEL_OPTIONAL.Enum()}
		if f.MapKey != 0 {
			entry := upperCamel(f.Name) + "Entry"
			val := &descriptorpb.FieldDescriptorProto{Name: proto.String("value"), Number: proto.Int32(2), Type: f.MapVal.Enum(),
				Label: descriptorpb.FieldDescriptorProto_LABEL_OPTIONAL.Enum(), JsonName: proto.String("value")}
			if f.MapValType != "" {
				val.TypeName = proto.String(f.MapValType)
			}
			d.NestedType = append(d.NestedType, &descriptorpb.DescriptorProto{
				Name: proto.String(entry),
				Field: []*descriptorpb.FieldDescriptorProto{
					{Name: proto.String("key"), Number: proto.Int32(1), Type: f.MapKey.Enum(), Label: descriptorpb.FieldDescriptorProto_LABEL_OPTIONAL.Enum(), JsonName: proto.String("key")},
					val,
				},
				Options: &descriptorpb.MessageOptions{MapEntry: proto.Bool(true)},
			})
			fd.Type = TMessage.Enum()
			fd.TypeName = proto.String(full + "." + entry)
			fd.Label = descriptorpb.FieldDescriptorProto_LABEL_REPEATED.Enum()
		} else {
			fd.Type = f.Type.Enum()
			if f.TypeName != "" {
				fd.TypeName = proto.String(f.TypeName)
			}
			if f.Repeated {
				fd.Label = descriptorpb.FieldDescriptorProto_LABEL_REPEATED.Enum()
			}
		}
		if f.JSON != "" {
			fd.JsonName = proto.String(f.JSON)
		}
		if f.Oneof != "" {
			idx, ok := oneofIdx[f.Oneof]
			if !ok {
				panic(fmt.Sprintf("unknown oneof %s", f.Oneof))
			}
			fd.OneofIndex = proto.Int32(idx)
		}
		if f.Optional {
			fd.Proto3Optional = proto.Bool(true)
			fd.OneofIndex = proto.Int32(int32(len(m.Oneofs) + len(synthetic)))
			synthetic = append(synthetic, &descriptorpb.OneofDescriptorProto{Name: proto.String("_" + f.Name)})
		}
		if len(f.Ext) > 0 {
			fd.Options = &descriptorpb.FieldOptions{}
			setExts(fd.Options, f.Ext)
		}
		d.Field = append(d.Field, fd)
	}
	d.OneofDecl = append(d.OneofDecl, synthetic...)
	for _, n := range m.Nested {
		d.NestedType = append(d.NestedType, buildMessage(full, n))
	}
	for _, e := range m.Enums {
		d.EnumType = append(d.EnumType, buildEnum(e))
	}
	return d
}

func buildFile(f File) *descriptorpb.FileDescriptorProto {
	d := &descriptorpb.FileDescriptorProto{
		Name:       proto.String(f.Name),
		Syntax:     proto.String("proto3"),
		Dependency: f.Deps,
	}
	if f.Package != "" {
		d.Package = proto.String(f.Package)
	}
	if f.GoPackage != "" {
		d.Options = &descriptorpb.FileOptions{GoPackage: proto.String(f.GoPackage)}
	}
	prefix := ""
	if f.Package != "" {
		prefix = "." + f.Package
	}
	for _, m := range f.Messages {
		d.MessageType = append(d.MessageType, buildMessage(prefix, m))
	}
	for _, e := range f.Enums {
		d.EnumType = append(d.EnumType, buildEnum(e))
	}
	for _, s := range f.Services {
		sd := &descriptorpb.ServiceDescriptorProto{Name: proto.String(s.Name)}
		if len(s.Ext) > 0 {
			sd.Options = &descriptorpb.ServiceOptions{}
			setExts(sd.Options, s.Ext)
		}
		for _, m := range s.Methods {
			md := &descriptorpb.MethodDescriptorProto{Name: proto.String(m.Name), InputType: proto.String(m.In), OutputType: proto.String(m.Out)}
			if len(m.Ext) > 0 {
				md.Options = &descriptorpb.MethodOptions{}
				setExts(md.Options, m.Ext)
			}
			sd.Method = append(sd.Method, md)
		}
		d.Service = append(d.Service, sd)
	}
	return d
}

// annotation helpers
func HTTP(verb sh.HttpMethod, path string) ExtV {
	return ExtV{sh.E_Config, &sh.HttpConfig{Path: path, Method: verb}}
}
func Base(path string) ExtV { return ExtV{sh.E_ServiceConfig, &sh.ServiceConfig{BasePath: path}} }
func Query(name string, required bool) ExtV {
	return ExtV{sh.E_Query, &sh.QueryConfig{Name: name, Required: required}}
}
func SvcHeaders(hs ...*sh.Header) ExtV {
	return ExtV{sh.E_ServiceHeaders, &sh.ServiceHeaders{RequiredHeaders: hs}}
}
func MethodHeaders(hs ...*sh.Header) ExtV {
	return ExtV{sh.E_MethodHeaders, &sh.MethodHeaders{RequiredHeaders: hs}}
}
