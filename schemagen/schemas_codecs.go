package main

import (
	sh "github.com/SebastienMelki/sebuf/http"
)

func int64Number() ExtV { return ExtV{sh.E_Int64Encoding, sh.Int64Encoding_INT64_ENCODING_NUMBER} }
func nullable() ExtV    { return ExtV{sh.E_Nullable, true} }
func emptyBehavior(b sh.EmptyBehavior) ExtV { return ExtV{sh.E_EmptyBehavior, b} }
func flatten() ExtV               { return ExtV{sh.E_Flatten, true} }
func flattenPrefix(p string) ExtV { return ExtV{sh.E_FlattenPrefix, p} }
func oneofValue(v string) ExtV    { return ExtV{sh.E_OneofValue, v} }
func oneofConfig(disc string, fl bool) ExtV {
	return ExtV{sh.E_OneofConfig, &sh.OneofConfig{Discriminator: disc, Flatten: fl}}
}
func bytesEnc(b sh.BytesEncoding) ExtV { return ExtV{sh.E_BytesEncoding, b} }
func enumNumber() ExtV { return ExtV{sh.E_EnumEncoding, sh.EnumEncoding_ENUM_ENCODING_NUMBER} }
func enumValue(v string) ExtV { return ExtV{sh.E_EnumValue, v} }
func unwrap() ExtV { return ExtV{sh.E_Unwrap, true} }
func tsFormat(f sh.TimestampFormat) ExtV { return ExtV{sh.E_TimestampFormat, f} }

func init() {
	// "codecs": one message per JSON-mapping annotation (each with a plain sibling field),
	// child messages with multi-word and 64-bit fields, and a service so that both Go
	// generators emit every codec file.
	schemas["codecs"] = func() Schema {
		p := ".acme.codecs."
		child := M{Name: "Child", Fields: []F{{Name: "street_name", Num: 1, Type: TString}, {Name: "zip_code", Num: 2, Type: TInt64}}}
		small := M{Name: "Small", Fields: []F{{Name: "v", Num: 1, Type: TString}}}
		int64m := M{Name: "Int64Msg", Fields: []F{
			{Name: "big", Num: 1, Type: TInt64, Ext: []ExtV{int64Number()}},
			{Name: "ubig", Num: 2, Type: TUint64, Ext: []ExtV{int64Number()}},
			{Name: "bigs", Num: 3, Type: TInt64, Repeated: true, Ext: []ExtV{int64Number()}},
			{Name: "name", Num: 4, Type: TString},
			{Name: "plain", Num: 5, Type: TInt64},
		}}
		nullm := M{Name: "NullableMsg", Fields: []F{
			{Name: "nick_name", Num: 1, Type: TString, Optional: true, Ext: []ExtV{nullable()}},
			{Name: "age", Num: 2, Type: TInt32, Optional: true, Ext: []ExtV{nullable()}},
			{Name: "id", Num: 3, Type: TString},
		}}
		emptym := M{Name: "EmptyMsg", Fields: []F{
			{Name: "keep", Num: 1, Type: TMessage, TypeName: p + "Small", Ext: []ExtV{emptyBehavior(sh.EmptyBehavior_EMPTY_BEHAVIOR_PRESERVE)}},
			{Name: "as_null", Num: 2, Type: TMessage, TypeName: p + "Small", Ext: []ExtV{emptyBehavior(sh.EmptyBehavior_EMPTY_BEHAVIOR_NULL)}},
			{Name: "drop", Num: 3, Type: TMessage, TypeName: p + "Small", Ext: []ExtV{emptyBehavior(sh.EmptyBehavior_EMPTY_BEHAVIOR_OMIT)}},
			{Name: "id", Num: 4, Type: TString},
		}}
		flatm := M{Name: "FlattenMsg", Fields: []F{
			{Name: "id", Num: 1, Type: TString},
			{Name: "addr", Num: 2, Type: TMessage, TypeName: p + "Small", Ext: []ExtV{flatten(), flattenPrefix("addr_")}},
		}}
		flatchild := M{Name: "FlattenChildMsg", Fields: []F{
			{Name: "id", Num: 1, Type: TString},
			{Name: "home", Num: 2, Type: TMessage, TypeName: p + "Child", Ext: []ExtV{flatten()}},
		}}
		flatann := M{Name: "FlattenAnnotatedMsg", Fields: []F{
			{Name: "id", Num: 1, Type: TString},
			{Name: "stats", Num: 2, Type: TMessage, TypeName: p + "Int64Msg", Ext: []ExtV{flatten(), flattenPrefix("s_")}},
		}}
		money := M{Name: "Money", Fields: []F{{Name: "currency_code", Num: 1, Type: TString}, {Name: "amount", Num: 2, Type: TInt64}}}
		pricem := M{Name: "PriceMsg", Fields: []F{
			{Name: "sku", Num: 1, Type: TString},
			// the flattened field is named like one of the child's fields
			{Name: "amount", Num: 2, Type: TMessage, TypeName: p + "Money", Ext: []ExtV{flatten()}},
		}}
		text := M{Name: "Text", Fields: []F{{Name: "body", Num: 1, Type: TString}}}
		image := M{Name: "Image", Fields: []F{{Name: "url", Num: 1, Type: TString}, {Name: "width", Num: 2, Type: TInt32},
			{Name: "alt_text", Num: 3, Type: TString}, {Name: "byte_size", Num: 4, Type: TInt64}}}
		oneofm := M{Name: "OneofMsg", Oneofs: []O{{Name: "content", Ext: []ExtV{oneofConfig("type", false)}}}, Fields: []F{
			{Name: "id", Num: 1, Type: TString},
			{Name: "text", Num: 2, Type: TMessage, TypeName: p + "Text", Oneof: "content"},
			{Name: "image_data", Num: 3, Type: TMessage, TypeName: p + "Image", Oneof: "content", Ext: []ExtV{oneofValue("img")}},
		}}
		oneofflat := M{Name: "OneofFlatMsg", Oneofs: []O{{Name: "content", Ext: []ExtV{oneofConfig("kind", true)}}}, Fields: []F{
			{Name: "id", Num: 1, Type: TString},
			{Name: "text", Num: 2, Type: TMessage, TypeName: p + "Text", Oneof: "content"},
			{Name: "image_data", Num: 3, Type: TMessage, TypeName: p + "Image", Oneof: "content", Ext: []ExtV{oneofValue("img")}},
		}}
		bytesm := M{Name: "BytesMsg", Fields: []F{
			{Name: "hex_data", Num: 1, Type: TBytes, Ext: []ExtV{bytesEnc(sh.BytesEncoding_BYTES_ENCODING_HEX)}},
			{Name: "url_data", Num: 2, Type: TBytes, Ext: []ExtV{bytesEnc(sh.BytesEncoding_BYTES_ENCODING_BASE64URL)}},
			{Name: "id", Num: 3, Type: TString},
		}}
		const ts = ".google.protobuf.Timestamp"
		timem := M{Name: "TimeMsg", Fields: []F{
			{Name: "created", Num: 1, Type: TMessage, TypeName: ts, Ext: []ExtV{tsFormat(sh.TimestampFormat_TIMESTAMP_FORMAT_UNIX_SECONDS)}},
			{Name: "updated", Num: 2, Type: TMessage, TypeName: ts, Ext: []ExtV{tsFormat(sh.TimestampFormat_TIMESTAMP_FORMAT_UNIX_MILLIS)}},
			{Name: "day", Num: 3, Type: TMessage, TypeName: ts, Ext: []ExtV{tsFormat(sh.TimestampFormat_TIMESTAMP_FORMAT_DATE)}},
			{Name: "plain", Num: 4, Type: TMessage, TypeName: ts},
			{Name: "id", Num: 5, Type: TString},
		}}
		strlist := M{Name: "StringList", Fields: []F{{Name: "items", Num: 1, Type: TString, Repeated: true, Ext: []ExtV{unwrap()}}}}
		unwrapmap := M{Name: "UnwrapMapMsg", Fields: []F{
			{Name: "by_key", Num: 1, MapKey: TString, MapVal: TMessage, MapValType: p + "StringList"},
			{Name: "id", Num: 2, Type: TString},
		}}
		// map-value unwrap whose wrapper holds messages
		bar := M{Name: "Bar", Fields: []F{{Name: "symbol", Num: 1, Type: TString}, {Name: "volume", Num: 2, Type: TInt32}}}
		barlist := M{Name: "BarList", Fields: []F{{Name: "bars", Num: 1, Type: TMessage, TypeName: p + "Bar", Repeated: true, Ext: []ExtV{unwrap()}}}}
		portfolio := M{Name: "Portfolio", Fields: []F{
			{Name: "bars_by_symbol", Num: 1, MapKey: TString, MapVal: TMessage, MapValType: p + "BarList"},
			{Name: "id", Num: 2, Type: TString},
		}}
		rootlist := M{Name: "RootList", Fields: []F{{Name: "items", Num: 1, Type: TString, Repeated: true, Ext: []ExtV{unwrap()}}}}
		enumm := M{Name: "EnumMsg", Fields: []F{
			{Name: "status", Num: 1, Type: TEnum, TypeName: p + "Status"},
			{Name: "prio_number", Num: 2, Type: TEnum, TypeName: p + "Priority", Ext: []ExtV{enumNumber()}},
			{Name: "prio", Num: 3, Type: TEnum, TypeName: p + "Priority"},
			{Name: "id", Num: 4, Type: TString},
		}}
		// contexts for C05: an annotated message nested in an unannotated parent
		holder := M{Name: "Holder", Fields: []F{
			{Name: "one", Num: 1, Type: TMessage, TypeName: p + "Int64Msg"},
			{Name: "many", Num: 2, Type: TMessage, TypeName: p + "NullableMsg", Repeated: true},
			{Name: "id", Num: 3, Type: TString},
		}}
		return Schema{Files: []File{{
			Name: "gen/codecs/codecs.proto", Package: "acme.codecs", GoPackage: "verifmod/gen/codecs;codecs",
			Deps:     []string{"proto/sebuf/http/annotations.proto", "google/protobuf/timestamp.proto"},
			Messages: []M{child, small, int64m, nullm, emptym, flatm, flatchild, flatann, money, pricem, text, image, oneofm, oneofflat, bytesm, timem, strlist, unwrapmap, bar, barlist, portfolio, rootlist, enumm, holder},
			Enums: []E{
				{Name: "Status", Values: []EV{{Name: "STATUS_UNSPECIFIED", Num: 0, Ext: []ExtV{enumValue("unknown")}}, {Name: "STATUS_ACTIVE", Num: 1, Ext: []ExtV{enumValue("active")}}}},
				{Name: "Priority", Values: []EV{{Name: "PRIORITY_UNSPECIFIED", Num: 0}, {Name: "PRIORITY_HIGH", Num: 1}}},
			},
			Services: []S{{Name: "CodecService", Methods: []Me{
				{Name: "EchoInt64", In: p + "Int64Msg", Out: p + "Int64Msg", Ext: []ExtV{HTTP(sh.HttpMethod_HTTP_METHOD_POST, "/int64")}},
				{Name: "EchoHolder", In: p + "Holder", Out: p + "Holder", Ext: []ExtV{HTTP(sh.HttpMethod_HTTP_METHOD_POST, "/holder")}},
			}}},
		}}}
	}
}
