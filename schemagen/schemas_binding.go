package main

import (
	sh "github.com/SebastienMelki/sebuf/http"
)

func hdr(name, typ, format string, required bool) *sh.Header {
	return &sh.Header{Name: name, Type: typ, Format: format, Required: required}
}

func init() {
	// "binding": the schema the schema-independent runtime is exercised with.
	// Two services x two methods, every verb, path+query+body fields of all scalar kinds.
	schemas["binding"] = func() Schema {
		req := M{Name: "ItemReq", Fields: []F{
			{Name: "item_id", Num: 1, Type: TString},
			{Name: "count", Num: 2, Type: TInt32, Ext: []ExtV{Query("count", false)}},
			{Name: "big", Num: 3, Type: TInt64, Ext: []ExtV{Query("big", true)}},
			{Name: "flag", Num: 4, Type: TBool, Ext: []ExtV{Query("flag", false)}},
			{Name: "u32", Num: 6, Type: TUint32, Ext: []ExtV{Query("u32", false)}},
			{Name: "u64", Num: 7, Type: TUint64, Ext: []ExtV{Query("u64", false)}},
			{Name: "ratio", Num: 8, Type: TDouble, Ext: []ExtV{Query("ratio", false)}},
			{Name: "tags", Num: 9, Type: TString, Repeated: true, Ext: []ExtV{Query("tag", false)}},
			{Name: "f32", Num: 10, Type: TFloat, Ext: []ExtV{Query("f32", false)}},
			{Name: "limit", Num: 11, Type: TInt32, Optional: true, Ext: []ExtV{Query("limit", false)}},
		}}
		upd := M{Name: "UpdateReq", Fields: []F{
			{Name: "item_id", Num: 1, Type: TString},
			{Name: "count", Num: 2, Type: TInt32, Ext: []ExtV{Query("count", false)}},
			{Name: "note", Num: 3, Type: TString},
			{Name: "big", Num: 4, Type: TInt64},
		}}
		resp := M{Name: "ItemResp", Fields: []F{{Name: "id", Num: 1, Type: TString}, {Name: "total", Num: 2, Type: TInt64}}}
		nf := M{Name: "NotFoundError", Fields: []F{{Name: "resource_type", Num: 1, Type: TString}, {Name: "resource_id", Num: 2, Type: TString}}}
		other := M{Name: "OtherReq", Fields: []F{{Name: "name", Num: 1, Type: TString}}}
		// one request message bound by two routes with different path-variable sets
		zone := M{Name: "ZoneReq", Fields: []F{{Name: "org", Num: 1, Type: TString}, {Name: "zone_id", Num: 2, Type: TString}, {Name: "note", Num: 3, Type: TString}}}
		return Schema{Files: []File{{
			Name: "gen/binding/binding.proto", Package: "acme.binding", GoPackage: "verifmod/gen/binding;binding",
			Deps:     []string{"proto/sebuf/http/annotations.proto", "proto/sebuf/http/headers.proto"},
			Messages: []M{req, upd, resp, nf, other, zone},
			Services: []S{
				{Name: "ItemService", Ext: []ExtV{Base("/api/v1"), SvcHeaders(hdr("X-API-Key", "string", "uuid", true), hdr("X-Tenant", "string", "", false))},
					Methods: []Me{
						{Name: "GetItem", In: ".acme.binding.ItemReq", Out: ".acme.binding.ItemResp", Ext: []ExtV{HTTP(sh.HttpMethod_HTTP_METHOD_GET, "/items/{item_id}"), MethodHeaders(hdr("X-Request-ID", "string", "uuid", true))}},
						{Name: "UpdateItem", In: ".acme.binding.UpdateReq", Out: ".acme.binding.ItemResp", Ext: []ExtV{HTTP(sh.HttpMethod_HTTP_METHOD_PUT, "/items/{item_id}")}},
					}},
				{Name: "OtherService", Ext: []ExtV{Base("/other")},
					Methods: []Me{
						{Name: "Create", In: ".acme.binding.OtherReq", Out: ".acme.binding.ItemResp", Ext: []ExtV{HTTP(sh.HttpMethod_HTTP_METHOD_POST, "/create"), MethodHeaders(hdr("X-Count", "integer", "", true))}},
						{Name: "Remove", In: ".acme.binding.OtherReq", Out: ".acme.binding.ItemResp", Ext: []ExtV{HTTP(sh.HttpMethod_HTTP_METHOD_DELETE, "/remove/{name}")}},
						{Name: "AddZone", In: ".acme.binding.ZoneReq", Out: ".acme.binding.ItemResp", Ext: []ExtV{HTTP(sh.HttpMethod_HTTP_METHOD_POST, "/orgs/{org}/zones")}},
						{Name: "SetZone", In: ".acme.binding.ZoneReq", Out: ".acme.binding.ItemResp", Ext: []ExtV{HTTP(sh.HttpMethod_HTTP_METHOD_PUT, "/orgs/{org}/zones/{zone_id}")}},
					}},
			},
		}}}
	}
}
